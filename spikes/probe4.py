import gc, weakref, sys
import yldprolog.engine as E
from yldprolog.engine import YP, unify, get_value, to_python
from yldprolog.compiler import compile_prolog_from_string as C
reg=weakref.WeakSet(); _i=E.Variable.__init__
def init(self): _i(self); reg.add(self)
E.Variable.__init__=init
def bound(): return [v for v in reg if v._is_bound]
src='''q(1). q(2). q(3). r(a). r(b).
t(X,Y) :- q(X), r(Y).
u(X) :- q(X), !.
w(X) :- ( q(X) -> r(_) ; true ), \\+ q(9), f(g(X),_) = f(Z,Z).
'''
yp=YP(); yp.load_script_from_string(C(src))
for name,n in [('t',2),('u',1),('w',1)]:
    tot=len(list(yp.query(name,[yp.variable() for _ in range(n)])))
    for k in range(tot+1):
        vs=[yp.variable() for _ in range(n)]
        q=yp.query(name,vs)
        for _ in range(k): next(q)
        q.close()
        assert not bound(), (name,k,'close')
        q=yp.query(name,vs)
        for _ in range(k): next(q)
        del q
        assert not bound(), (name,k,'del')
print('C03 close/del ok on sample')
# exception in user predicate
def boom(x):
    for _ in unify(x, yp.atom('z')):
        raise ValueError('boom')
        yield False
yp.register_function('boom', boom)
yp.load_script_from_string(C("v(X,Y) :- q(X), boom(Y)."), overwrite=False)
vs=[yp.variable(),yp.variable()]
try:
    list(yp.query('v',vs))
except ValueError: pass
print('after exception (exc info cleared): bound =', len(bound()))
# C08 probes
yp=YP()
yp.load_script_from_string(C("p(1). p(2) :- !. p(3)."), overwrite=False)
yp.load_script_from_string(C("p(4). p(5)."), overwrite=False)
yp.load_script_from_string(C("p(6)."), overwrite=False)
v=yp.variable(); print('combine x3 with cut:', [to_python(v) for _ in yp.query('p',[v])])
yp.load_script_from_string(C("p(7)."), overwrite=True)
print('overwrite after combine:', [to_python(v) for _ in yp.query('p',[v])])
try:
    yp.load_script_from_string(C("p(8). zz(1).")+"\nraise_undefined_name\n")
except Exception as e: print('failing load:', type(e).__name__)
print('after failing load p:', [to_python(v) for _ in yp.query('p',[v])], 'zz:', [to_python(v) for _ in yp.query('zz',[v])])
def fx(a): 
    for _ in unify(a, 'exact'): yield False
def fn(*a):
    for _ in unify(a[0], 'variadic'): yield False
yp.register_function('m', fn, arity=-1); yp.register_function('m', fx)
print('exact vs variadic m/1:', [to_python(v) for _ in yp.query('m',[v])], ' m/2:', [to_python(v) for _ in yp.query('m',[v, yp.variable()])])
print('API as predicate:', list(yp.query('atom',['x'])), list(yp.query('variable',[])))
# C20 yield True
def yt(a):
    for x in ('a','b','c'):
        for _ in unify(a, yp.atom(x)): yield True
yp.register_function('yt', yt)
yp.load_script_from_string(C("k(X,Y) :- yt(X), q2(Y). q2(1). q2(2). n(X) :- \\+ yt(zz), X = ok. o(X) :- once(yt(X)). fa(L) :- findall(X, yt(X), L)."), overwrite=False)
a,b=yp.variable(),yp.variable()
print('yield True conj:', [(to_python(a),to_python(b)) for _ in yp.query('k',[a,b])])
print('neg:', [to_python(a) for _ in yp.query('n',[a])], 'once:', [to_python(a) for _ in yp.query('o',[a])], 'findall:', [to_python(a) for _ in yp.query('fa',[a])])
yp.assert_fact(yp.atom('yt'), [yp.atom('fact')])
print('facts first:', [to_python(a) for _ in yp.query('yt',[a])])
