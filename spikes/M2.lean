inductive Status where
  | done | cut | exit (l : Nat)
deriving DecidableEq

/-- resumption: either stopped with a status and the final world, or an answer `s` delivered with
world `d`, after which the consumer hands back a (possibly changed) world -/
inductive Run (S D : Type) where
  | stop (st : Status) (d : D)
  | out (s : S) (d : D) (k : D → Run S D)

abbrev Beh (S D : Type) := S → D → Run S D
variable {S D : Type}

def andThen : Run S D → (Status → D → Run S D) → Run S D
  | .stop st d, k => k st d
  | .out s d r, k => .out s d (fun d' => andThen (r d') k)

def ifDone (f : D → Run S D) : Status → D → Run S D
  | .done, d => f d
  | st, d => .stop st d

def yieldB : Beh S D := fun s d => .out s d (fun d' => .stop .done d')
def failB : Beh S D := fun _ d => .stop .done d
def cutB : Beh S D := fun _ d => .stop .cut d
def exitB (l : Nat) : Beh S D := fun _ d => .stop (.exit l) d
def seqB (a b : Beh S D) : Beh S D := fun s d => andThen (a s d) (ifDone (b s))

def bindR (b : Beh S D) : Run S D → Run S D
  | .stop st d => .stop st d
  | .out t d k => andThen (b t d) (ifDone (fun d' => bindR b (k d')))
def bindB (a b : Beh S D) : Beh S D := fun s d => bindR b (a s d)

theorem andThen_stop (r : Run S D) : andThen r (fun st d => .stop st d) = r := by
  induction r with
  | stop st d => rfl
  | out s d k ih => simp [andThen, ih]

theorem andThen_assoc (r : Run S D) (k1 k2 : Status → D → Run S D) :
    andThen (andThen r k1) k2 = andThen r (fun st d => andThen (k1 st d) k2) := by
  induction r with
  | stop st d => rfl
  | out s d k ih => simp [andThen, ih]

theorem ifDone_andThen (f : D → Run S D) (k : Status → D → Run S D)
    (hk : ∀ st d, st ≠ .done → k st d = .stop st d) :
    (fun st d => andThen (ifDone f st d) k) = ifDone (fun d => andThen (f d) k) := by
  funext st d
  cases st with
  | done => rfl
  | cut => simp [ifDone, andThen, hk]
  | exit l => simp [ifDone, andThen, hk]

theorem ifDone_nondone (f : D → Run S D) : ∀ st d, st ≠ .done → ifDone f st d = .stop st d := by
  intro st d h; cases st <;> simp_all [ifDone]

theorem seq_assoc (x y z : Beh S D) : seqB (seqB x y) z = seqB x (seqB y z) := by
  funext s d
  simp only [seqB]
  rw [andThen_assoc, ifDone_andThen _ _ (ifDone_nondone _)]
  rfl

theorem bind_yield (b : Beh S D) : bindB yieldB b = b := by
  funext s d
  simp only [bindB, yieldB, bindR]
  have : (ifDone (fun d' => (Run.stop Status.done d' : Run S D)) : Status → D → Run S D)
       = fun st d => .stop st d := by
    funext st d; cases st <;> simp [ifDone]
  rw [this, andThen_stop]

/-- distributing bind over what follows a run -/
theorem bindR_andThen (b : Beh S D) (r : Run S D) (f : D → Run S D) :
    bindR b (andThen r (ifDone f)) = andThen (bindR b r) (ifDone (fun d => bindR b (f d))) := by
  induction r with
  | stop st d => cases st <;> simp [andThen, ifDone, bindR]
  | out s d k ih =>
    simp only [andThen, bindR]
    rw [andThen_assoc, ifDone_andThen _ _ (ifDone_nondone _)]
    congr 1
    funext st d'
    cases st <;> simp [ifDone, ih]

theorem bind_seq (x y b : Beh S D) : bindB (seqB x y) b = seqB (bindB x b) (bindB y b) := by
  funext s d
  simp only [bindB, seqB]
  exact bindR_andThen b (x s d) (y s)

theorem bindR_bindR (b c : Beh S D) (r : Run S D) :
    bindR c (bindR b r) = bindR (bindB b c) r := by
  induction r with
  | stop st d => rfl
  | out s d k ih =>
    simp only [bindR, bindB]
    rw [bindR_andThen]
    congr 1
    funext st d'
    cases st <;> simp [ifDone, ih]

theorem bind_assoc (a b c : Beh S D) : bindB (bindB a b) c = bindB a (bindB b c) := by
  funext s d
  simp only [bindB]
  exact bindR_bindR b c (a s d)
