import sys, traceback
from yldprolog.engine import YP, unify, get_value, to_python, Variable, Atom, Functor
from yldprolog.compiler import compile_prolog_from_string
def run(src, name, nargs, limit=10):
    try:
        code = compile_prolog_from_string(src)
    except Exception as e:
        return ('COMPILE-EXC', type(e).__name__, str(e)[:80])
    yp = YP()
    try:
        yp.load_script_from_string(code)
    except Exception as e:
        return ('LOAD-EXC', type(e).__name__, str(e)[:80])
    vs=[yp.variable() for _ in range(nargs)]
    out=[]
    try:
        for i,_ in enumerate(yp.query(name, vs)):
            out.append([to_python(v) for v in vs])
            if i>=limit: out.append('...'); break
    except Exception as e:
        return ('RUN-EXC', out, type(e).__name__, str(e)[:80])
    return out
tests = {
 'C01 q,fail': ("q. p :- q, fail.", 'p', 0),
 'C01 fail': ("p :- fail.", 'p', 0),
 'C01 dup head var nested': ("p(f(X),X). t(Y) :- p(f(a),Y).", 't', 1),
 'C01 dup head var': ("p(X,X). t(Y,Z) :- p(Y,Z).", 't', 2),
 'C01 zero-arity rule': ("q. p :- q.", 'p', 0),
 'C01 anon': ("p(_,_). t(X,Y) :- p(X,Y), X = a.", 't', 2),
 'C07 retract(flag)': ("t :- assertz(flag), retract(flag).", 't', 0),
 'C07 retractall unknown': ("t :- retractall(p(_)).", 't', 0),
 'C07 retract(G) bound': ("t :- assertz(p(a)), G = p(a), retract(G).", 't', 0),
 'C07 assertz(G) bound': ("t(X) :- G = p(a), assertz(G), p(X).", 't', 1),
 'C07 retract unknown': ("t :- retract(p(_)).", 't', 0),
 'C09 call(G) bound': ("foo(1). foo(2). t(X) :- G = foo(X), call(G).", 't', 1),
 'C09 findall atom': ("p. p. t(L) :- findall(x, p, L).", 't', 1),
 'C09 once failing': ("t :- once(nothere(1)).", 't', 0),
 'C09 once failing else': ("t(X) :- (once(nothere(1)) -> X = a ; X = b).", 't', 1),
 'C09 findall var goal': ("foo(1). foo(2). t(L) :- G = foo(X), findall(X, G, L).", 't', 1),
 'C11 numeral 01': ("foo(01).", 'foo', 1),
 'C11 True var': ("bar(1). foo(True) :- bar(True).", 'foo', 1),
 'C11 quoted pred': ("'hello world'(a).", 'hello world', 1),
 'C12 ATOM_NIL var': ("foo(ATOM_NIL, L) :- ATOM_NIL = a, L = [].", 'foo', 2),
 'C13 deep': ("t(Z) :- X = f(Y), Y = a, assertz(p(X)), p(f(b)), Z = matched.", 't', 1),
 'C13 shared var': ("t :- assertz(p(_)), p(a), p(b).", 't', 0),
 'C14 growing': ("t(X) :- assertz(p(1)), p(X), assertz(p(2)).", 't', 1),
 'C15 outer-first': ("p(X) :- X = g(Y), Y = 1. t(L) :- findall(X, p(X), L).", 't', 1),
 'C06 ite no else fails': ("q(1). t(X) :- (q(2) -> X = a). t(z).", 't', 1),
 'C06 neg': ("q(1). t(X) :- \\+ q(2), X = a.", 't', 1),
 'C05 cut': ("q(1). q(2). q(3). t(X) :- q(X), !. t(9).", 't', 1),
 'C05 cut mid': ("q(1). q(2). r(a). r(b). t(X,Y) :- q(X), !, r(Y). t(9,9).", 't', 2),
 'C05 cut in disj': ("q(1). q(2). t(X) :- ( q(X), ! ; X = 7 ). t(9).", 't', 1),
 'C05 cut in then': ("q(1). q(2). t(X) :- ( q(1) -> q(X), ! ; X = 7 ). t(9).", 't', 1),
 'C05 cut in else': ("q(1). q(2). t(X) :- ( q(5) -> X=0 ; q(X), ! ). t(9).", 't', 1),
 'C05 caller alts': ("q(1). q(2). c(X) :- q(X), !. t(X,Y) :- q(Y), c(X).", 't', 2),
}
for k,(src,n,a) in tests.items():
    print(k, '=>', run(src,n,a))
