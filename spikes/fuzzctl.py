import itertools, random, sys, io, contextlib
from yldprolog.engine import YP, to_python
from yldprolog.compiler import compile_prolog_from_string as C
# body AST: ('t',) ('f',) ('!',) ('g',i) (',',a,b) (';',a,b) ('->',c,t) ('\\+',a)
FACTS={0:[],1:['a'],2:['a','b']}   # goal gi(Xi) has i answers
def show(b):
    k=b[0]
    if k=='t': return 'true'
    if k=='f': return 'fail'
    if k=='!': return '!'
    if k=='g': return f'g{b[1]}(X{b[2]})'
    if k=='\\+': return f'\\+ ({show(b[1])})'
    return f'({show(b[1])} {k} {show(b[2])})'
# reference semantics M1: state = tuple of bindings (None|val) per var
def sem(b,s):
    k=b[0]
    if k=='t': return [s],'done'
    if k=='f': return [],'done'
    if k=='!': return [s],'cut'
    if k=='g':
        i,v=b[1],b[2]
        if s[v] is None: return [s[:v]+(x,)+s[v+1:] for x in FACTS[i]],'done'
        return ([s] if s[v] in FACTS[i] else []),'done'
    if k==',':
        o,st=sem(b[1],s); out=[]
        for t in o:
            o2,st2=sem(b[2],t); out+=o2
            if st2!='done': return out,st2
        return out,st
    if k==';':
        if b[1][0]=='->':
            c,t=b[1][1],b[1][2]
            o,_=sem(c,s)
            return sem(t,o[0]) if o else sem(b[2],s)
        o,st=sem(b[1],s)
        if st!='done': return o,st
        o2,st2=sem(b[2],s); return o+o2,st2
    if k=='->':
        o,_=sem(b[1],s)
        return sem(b[2],o[0]) if o else ([], 'done')
    if k=='\\+':
        o,_=sem(b[1],s); return ([s] if not o else []),'done'
def nocut(b): return b[0]!='!' and all(nocut(x) for x in b[1:] if isinstance(x,tuple))
def gen(d,rng,cond=False):
    if d==0 or rng.random()<0.25:
        ch=['t','f','g','g','g'] + ([] if cond else ['!'])
        k=rng.choice(ch)
        return ('g',rng.choice([0,1,2]),rng.randrange(3)) if k=='g' else (k,)
    k=rng.choice([',',',',';','->','\\+','ite'])
    if k=='\\+': return ('\\+',gen(d-1,rng,True))
    if k=='->': return ('->',gen(d-1,rng,True),gen(d-1,rng,cond))
    if k=='ite': return (';',('->',gen(d-1,rng,True),gen(d-1,rng,cond)),gen(d-1,rng,cond))
    a=gen(d-1,rng,cond)
    if k==';' and a[0]=='->': a=(',',a,('t',))
    return (k,a,gen(d-1,rng,cond))
rng=random.Random(int(sys.argv[1]) if len(sys.argv)>1 else 1)
bad=0; n=0; exc=0
for it in range(int(sys.argv[2]) if len(sys.argv)>2 else 1500):
    b=gen(3,rng)
    src=f"g1(a). g2(a). g2(b).\nt(X0,X1,X2) :- {show(b)}.\nt(c,c,c).\nw(X0,X1,X2,Y) :- g2(Y), t(X0,X1,X2).\n"
    o,st=sem(b,(None,None,None))
    exp=[tuple(x) for x in o] + ([] if st=='cut' else [('c','c','c')])
    expw=[e+(y,) for y in 'ab' for e in exp]
    n+=1
    try:
        with contextlib.redirect_stderr(io.StringIO()):
            code=C(src)
        yp=YP(); yp.load_script_from_string(code)
        vs=[yp.variable() for _ in range(4)]
        got=[tuple(to_python(v) for v in vs[:3]) for _ in yp.query('t',vs[:3])]
        gotw=[tuple(to_python(v) for v in vs) for _ in yp.query('w',vs)]
    except Exception as e:
        exc+=1; import collections; T=globals().setdefault('T',collections.Counter()); T[type(e).__name__+':'+str(e)[:40]]+=1
        if exc<=4: print('EXC',type(e).__name__,str(e)[:60],'|',show(b))
        continue
    if got!=exp or gotw!=expw:
        bad+=1
        if bad<=6: print('MISMATCH',show(b),'\n  exp',exp,'\n  got',got)
print(dict(globals().get('T',{})));print('programs',n,'mismatches',bad,'exceptions',exc)
