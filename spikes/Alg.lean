inductive Status where
  | done | cut | exit (l : Nat)
deriving DecidableEq, Repr

abbrev Res (S : Type) := List S × Status
abbrev Beh (S : Type) := S → Res S

variable {S : Type}

def yieldB : Beh S := fun s => ([s], .done)
def failB : Beh S := fun _ => ([], .done)
def cutB : Beh S := fun _ => ([], .cut)
def exitB (l : Nat) : Beh S := fun _ => ([], .exit l)

/-- sequencing of two results: the second is only run when the first ended normally -/
def thenR (r : Res S) (k : Unit → Res S) : Res S :=
  match r with
  | (o, .done) => let r2 := k (); (o ++ r2.1, r2.2)
  | r => r

def seqB (a b : Beh S) : Beh S := fun s => thenR (a s) (fun _ => b s)

def runAll (b : Beh S) : List S → Res S
  | [] => ([], .done)
  | t :: ts => thenR (b t) (fun _ => runAll b ts)

def bindB (a b : Beh S) : Beh S := fun s =>
  let r := a s
  thenR (runAll b r.1) (fun _ => ([], r.2))

theorem thenR_done_nil (r : Res S) : thenR r (fun _ => ([], .done)) = r := by
  rcases r with ⟨o, st⟩
  cases st <;> simp [thenR]

theorem thenR_assoc (r : Res S) (k1 k2 : Unit → Res S) :
    thenR (thenR r k1) k2 = thenR r (fun _ => thenR (k1 ()) k2) := by
  rcases r with ⟨o, st⟩
  cases st with
  | done =>
    simp only [thenR]
    rcases h : k1 () with ⟨o1, st1⟩
    cases st1 <;> simp [thenR, List.append_assoc]
  | cut => simp [thenR]
  | exit l => simp [thenR]

theorem seq_fail_left (x : Beh S) : seqB failB x = x := by
  funext s; simp [seqB, failB, thenR]

theorem seq_fail_right (x : Beh S) : seqB x failB = x := by
  funext s; simp only [seqB, failB]; exact thenR_done_nil _

theorem seq_assoc (x y z : Beh S) : seqB (seqB x y) z = seqB x (seqB y z) := by
  funext s; simp only [seqB]; exact thenR_assoc _ _ _

theorem runAll_append (b : Beh S) (xs ys : List S) :
    runAll b (xs ++ ys) = thenR (runAll b xs) (fun _ => runAll b ys) := by
  induction xs with
  | nil => simp [runAll, thenR]
  | cons t ts ih =>
    simp only [List.cons_append, runAll, ih]
    rw [thenR_assoc]

theorem bind_yield (b : Beh S) : bindB yieldB b = b := by
  funext s
  simp only [bindB, yieldB, runAll]
  rw [thenR_done_nil, thenR_done_nil]

theorem bind_fail (b : Beh S) : bindB failB b = failB := by
  funext s; simp [bindB, failB, runAll, thenR]

theorem bind_cut (b : Beh S) : bindB cutB b = cutB := by
  funext s; simp [bindB, cutB, runAll, thenR]

theorem bind_exit (b : Beh S) (l : Nat) : bindB (exitB l) b = exitB l := by
  funext s; simp [bindB, exitB, runAll, thenR]

/-- running `b` over outputs of a sequenced result -/
theorem runAll_thenR (b : Beh S) (r : Res S) (k : Unit → Res S) (tail : Status → Res S) :
    True := trivial

/-- helper: bind expressed on results -/
def bindR (r : Res S) (b : Beh S) : Res S := thenR (runAll b r.1) (fun _ => ([], r.2))

theorem bindR_thenR (r : Res S) (k : Unit → Res S) (b : Beh S) :
    bindR (thenR r k) b = thenR (bindR r b) (fun _ => bindR (k ()) b) := by
  rcases r with ⟨o, st⟩
  cases st with
  | done =>
    have h1 : thenR ((o, Status.done) : Res S) k = (o ++ (k ()).1, (k ()).2) := rfl
    have h2 : bindR ((o, Status.done) : Res S) b = runAll b o := by
      unfold bindR; exact thenR_done_nil _
    rw [h1, h2]
    unfold bindR
    show thenR (runAll b (o ++ (k ()).1)) _ = _
    rw [runAll_append, thenR_assoc]
  | cut =>
    have h1 : thenR ((o, Status.cut) : Res S) k = (o, Status.cut) := rfl
    rw [h1]; unfold bindR
    rcases runAll b o with ⟨o1, st1⟩
    cases st1 <;> simp [thenR]
  | exit l =>
    have h1 : thenR ((o, Status.exit l) : Res S) k = (o, Status.exit l) := rfl
    rw [h1]; unfold bindR
    rcases runAll b o with ⟨o1, st1⟩
    cases st1 <;> simp [thenR]

theorem bind_seq (x y b : Beh S) : bindB (seqB x y) b = seqB (bindB x b) (bindB y b) := by
  funext s
  show bindR (thenR (x s) (fun _ => y s)) b = thenR (bindR (x s) b) (fun _ => bindR (y s) b)
  exact bindR_thenR _ _ _

theorem runAll_bind (b c : Beh S) (xs : List S) :
    runAll (bindB b c) xs = bindR (runAll b xs) c := by
  induction xs with
  | nil => simp [runAll, bindR, thenR]
  | cons t ts ih =>
    simp only [runAll]
    rw [bindR_thenR, ih]
    rfl

theorem bind_assoc (a b c : Beh S) : bindB (bindB a b) c = bindB a (bindB b c) := by
  funext s
  show bindR (thenR (runAll b (a s).1) (fun _ => ([], (a s).2))) c
     = thenR (runAll (bindB b c) (a s).1) (fun _ => ([], (a s).2))
  rw [bindR_thenR, runAll_bind]
  rfl

def iteB (c t e : Beh S) : Beh S := fun s =>
  match (c s).1 with
  | [] => e s
  | x :: _ => t x

def blockR (l : Nat) : Res S → Res S
  | (o, .exit l') => if l' = l then (o, .done) else (o, .exit l')
  | r => r

def blockB (l : Nat) (b : Beh S) : Beh S := fun s => blockR l (b s)

def negB (a : Beh S) : Beh S := fun s =>
  match (a s).1 with
  | [] => ([s], .done)
  | _ :: _ => ([], .done)

def pureB (c : Beh S) : Prop := ∀ s, (c s).2 = .done
def noexitB (l : Nat) (t : Beh S) : Prop := ∀ s, (t s).2 ≠ .exit l

theorem neg_ite (a : Beh S) : negB a = iteB a failB yieldB := by
  funext s; simp only [negB, iteB]
  cases (a s).1 <;> simp [failB, yieldB]

theorem blockR_noexit (l : Nat) (r : Res S) (h : r.2 ≠ .exit l) : blockR l r = r := by
  rcases r with ⟨o, st⟩
  cases st with
  | done => rfl
  | cut => rfl
  | exit l' =>
    have : l' ≠ l := by intro e; apply h; simp [e]
    simp [blockR, this]

theorem thenR_nondone (r : Res S) (k : Unit → Res S) (h : r.2 ≠ .done) : thenR r k = r := by
  rcases r with ⟨o, st⟩
  cases st with
  | done => exact absurd rfl h
  | cut => rfl
  | exit l => rfl

theorem ite_block (l : Nat) (c t e : Beh S)
    (hc : pureB c) (ht : noexitB l t) (he : noexitB l e) :
    blockB l (seqB (bindB c (seqB t (exitB l))) e) = iteB c t e := by
  funext s
  have hcs := hc s
  rcases hcv : c s with ⟨o, st⟩
  rw [hcv] at hcs
  simp only at hcs
  subst hcs
  simp only [blockB, seqB, bindB, iteB, hcv]
  cases o with
  | nil =>
    have : thenR (thenR (runAll (seqB t (exitB l)) ([] : List S))
        fun _ => (([] : List S), Status.done)) (fun _ => e s) = e s := by
      simp [runAll, thenR]
    rw [this]
    exact blockR_noexit l (e s) (he s)
  | cons x xs =>
    have htx := ht x
    rcases htv : t x with ⟨o1, st1⟩
    rw [htv] at htx
    -- the first answer of the condition runs t and then leaves the block
    have key : runAll (seqB t (exitB l)) (x :: xs)
        = (match st1 with | .done => (o1, Status.exit l) | st => (o1, st)) := by
      simp only [runAll, seqB, htv]
      cases st1 <;> simp [thenR, exitB]
    rw [key]
    cases st1 with
    | done => simp [thenR, blockR, htv]
    | cut => simp [thenR, blockR, htv]
    | exit l' =>
      have : l' ≠ l := by intro e; apply htx; simp [e]
      simp [thenR, blockR, this, htv]

theorem bind_ite (c t e k : Beh S) : bindB (iteB c t e) k = iteB c (bindB t k) (bindB e k) := by
  funext s
  simp only [bindB, iteB]
  cases (c s).1 <;> rfl
