import sys, traceback, io, contextlib
from yldprolog.engine import YP, unify, get_value, to_python, Variable, Atom, Functor
from yldprolog.compiler import compile_prolog_from_string
def comp(src):
    err=io.StringIO()
    try:
        with contextlib.redirect_stderr(err):
            code = compile_prolog_from_string(src)
        import re
        return ('OK', re.findall(r'def (\S+)\(', code), err.getvalue().strip()[:100])
    except Exception as e:
        return ('EXC', type(e).__name__, str(e)[:80], err.getvalue().strip()[:100])
for s in ["a(X) :- b(X),, c(X).", "foo(a). ) garbage", "foo(a). 'unterminated ...", "foo(a) foo(b).", "foo(a). foo(b", "foo(a). #$@ foo(b).", "foo(a).. foo(b).", "foo(a,).", "foo([a|b]).", "foo :- (a ; b.", ":- foo.", "foo(a). :- bar. baz.", "f(X) :- X.", "3.", "f(a) :- 3.", "X :- a.", "f(-a).", "f(a/3).", "f(- 3).", "f(=(a,b)).", "a = b.", "f(a=b=c).", "f((a)).", "f([a,b|T])." , "f([|T]).", "f(a) :- \\+ \\+ b.", "f(a) :- (b).", "true.", "f :- true, !.", "f(a)%comment", "f(a).%comment\n", "f(a). % comment no newline"]:
    print(repr(s), '=>', comp(s))
