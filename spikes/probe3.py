import sys, io, contextlib, subprocess, os
from yldprolog.engine import YP, unify, get_value, to_python, Variable, Atom, Functor
from yldprolog.compiler import compile_prolog_from_string
# C12: injection via quoted head name
src = "'x_1():\n  pass\nimport_marker = 1\ndef y'(a)."
try:
    code = compile_prolog_from_string(src); print(code)
    yp=YP(); yp.load_script_from_string(code); print([k for k in yp.eval_context if k not in yp.eval_blacklist])
except Exception as e: print('EXC', type(e).__name__, e)
# C16 literals
for lit in ["'it\\'s'", "'a\nb'", "'héllo'", "'\"'", "'\\\\'", "'a\\nb'", "007", "[a,[b,c]|T]", "- 1", "'[]'", "[]", "'.'(a,[])", "f()", "\"dq\""]:
    try:
        code = compile_prolog_from_string(f"p({lit}).")
        yp=YP(); yp.load_script_from_string(code); v=yp.variable()
        print(repr(lit), '=>', [to_python(v) for _ in yp.query('p',[v])])
    except Exception as e: print(repr(lit), 'EXC', type(e).__name__, str(e)[:100])
# C17
yp=YP()
yp.load_script_from_string(compile_prolog_from_string("nat(z). nat(s(X)) :- nat(X). q(1). q(2). q(3)."))
v=yp.variable()
lim=sys.getrecursionlimit()
r=yp.evaluate_bounded(yp.query('nat',[v]), lambda x: to_python(v), recursion_limit=100)
print('nat prefix len', len(r), 'limit restored', sys.getrecursionlimit()==lim, 'v unbound', v.get_value() is v)
q=yp.query('q',[v])
def proj(x):
    if to_python(v)==2: raise ValueError('boom')
    return to_python(v)
try:
    yp.evaluate_bounded(q, proj)
except ValueError as e:
    print('proj raised; limit restored', sys.getrecursionlimit()==lim, 'v unbound', v.get_value() is v, to_python(v))
del q
print('after del q: v unbound', v.get_value() is v)
