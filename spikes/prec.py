import antlr4
from yldprolog.prologLexer import prologLexer
from yldprolog.prologParser import prologParser
from yldprolog.yp_prolog_visitor import YPPrologVisitor
from yldprolog.compiler import CompilerContext
def body(src):
    p = prologParser(antlr4.CommonTokenStream(prologLexer(antlr4.InputStream(src))))
    prog = YPPrologVisitor(CompilerContext).visit(p.program())
    return [str(c.body) for cl in prog.values() for c in cl]
for s in ["h :- a, b -> c ; d.", "h :- a ; b -> c , d.", "h :- \\+ a, b.", "h :- a -> b -> c.", "h :- a ; b ; c.", "h :- a , b , c.", "h :- a -> b ; c -> d ; e.", "h :- \\+ a -> b ; c.", "h :- (a , b) , c."]:
    print(s, '=>', body(s))
