"""s_c03 - bounded stand-in for "Backtracking leaves no trace, however a query ends".

  python s_c03.py run <seed> <count>      python s_c03.py replay <file.json>

Cases: count//4 programs of each gen family F1, F2, F3 (seed = <seed>; cases whose text mentions assert/retract
are skipped) and count - 3*(count//4) direct unification scenarios (family U).  For every program x query:
  exhaust      full run (at most CAP answers, then close): answers = reference interpreter's answers
  close/del/throw   for every k in 0..#answers: take k answers (each must equal the k-th answer of the full
               run), then g.close() / drop the last reference + gc / g.throw(ConsumerError) and catch it
  native       a predicate of the program is replaced (yp.register_function) by a python predicate that
               delegates to the compiled one and raises NativeBoom at its j-th event (event = entry or
               re-entry on backtracking); j sampled from 1..#events of the full run
  boom         one clause body of the program gets a leading goal boom, boom/0 is a registered python
               predicate (succeeds once) that raises at its j-th event; fresh engine
After the generator is gone: every Variable created since just before the query (Variable.__init__ is wrapped)
and every query variable must be unbound, and a second full run on the same engine and variables must give the
first run's answers.  Family U: unify(a, b) under an outer, still open unify generator: after the inner one
ended by exhaustion/close/del/throw every variable has the binding state (and value) it had before.
non-trivial = at the moment of abandonment at least one tracked variable was bound (for exhaust: >= 1 answer).
"""
import random
import re
import sys

import s_common as S
from s_common import (VarTracker, E, gen, T, Acc, snap, show, digest, goal_to_source, case_source,
                      prep_query, build_real, build_ref, RefLimit, same_answers, is_exc, exc_entry)

CAP = 20            # answers looked at per query
MAX_POINTS = 8      # raise points sampled per query for native / boom
FAMILIES = ('F1', 'F2', 'F3')
RULE = __doc__.split('Cases:', 1)[1].strip()


class ConsumerError(Exception):
    pass


class NativeBoom(Exception):
    pass


class Ticker(object):
    """counts events of the instrumented python predicate; raises at event number `at`"""

    def __init__(self):
        self.n = 0
        self.at = None
        self.bound_at_raise = False
        self.watch = ()

    def reset(self, at=None, watch=()):
        self.n = 0
        self.at = at
        self.bound_at_raise = False
        self.watch = watch

    def tick(self):
        self.n += 1
        if self.at is not None and self.n == self.at:
            self.bound_at_raise = bool(VarTracker.bound(self.watch))
            raise NativeBoom('event %d' % self.n)


def wrap_native(f, ticker):
    def native(*args):
        ticker.tick()
        for x in f(*args):
            yield x
            ticker.tick()
    return native


def boom_native(ticker):
    def boom():
        ticker.tick()
        yield False
        ticker.tick()
    return boom


class QueryCtx(object):
    """one engine + one prepared query (the same Variable objects are used for every run)"""

    def __init__(self, real, goal):
        self.real = real
        self.yp = real.yp
        self.name, self.eargs, self.evars = prep_query(real, goal)
        self.base = None

    def new(self):
        return self.yp.query(self.name, self.eargs)

    def full(self):
        """answers of a full run (at most CAP, then closed); exceptions end the list as an EXC entry"""
        out = []
        g = self.new()
        try:
            for _ in g:
                out.append(snap(self.evars))
                if len(out) >= CAP:
                    break
        except Exception as e:
            out.append(exc_entry(e))
        finally:
            g.close()
        return out

    def nested_reuse(self):
        """an argument list prepared ONCE by the caller and used for an inner query at every answer of this query (the documented
        nested-loop idiom) stays the caller's list: the inner goal Z = V sees V's value of the current answer each time"""
        Z = self.yp.variable()
        inner_args = [self.evars[0], Z]
        g = self.new()
        n = 0
        try:
            for _ in g:
                n += 1
                want = S.from_engine(self.evars[0])
                seen = [S.from_engine(Z) for _ in self.yp.query('=', inner_args)]
                if seen != [want]:
                    return ('at answer %d the inner goal Z = V over a reused argument list gives Z = %s, V is %s'
                            % (n, seen, want))
                if inner_args[0] is not self.evars[0] or inner_args[1] is not Z:
                    return 'at answer %d the inner query changed the argument list it was given' % n
                if n >= CAP:
                    break
        except Exception as e:      # noqa
            return 'nested run raised %s: %s' % (type(e).__name__, e)
        finally:
            g.close()
        return None

    def leftovers(self):
        b = VarTracker.bound(self.evars)
        return 'still bound afterwards: %d variable(s), e.g. %s' % (len(b), S.from_engine(b[0])) if b else None

    def take(self, g, k):
        """take k answers; -> (problem or None)"""
        for i in range(k):
            try:
                next(g)
            except StopIteration:
                return 'run ended after %d answers, the uninterrupted run gave %d' % (i, len(self.base))
            a = snap(self.evars)
            if a != self.base[i]:
                return 'answer %d is %s, in the uninterrupted run it is %s' % (i, S.show_ans(a), S.show_ans(self.base[i]))
        return None

    def check(self, mode, k, ticker=None):
        """-> (ok, detail, nontrivial)"""
        nontrivial = False
        VarTracker.start()
        try:
            if mode == 'exhaust':
                got = self.full()
                prob = None if same_answers(self.base, got) else 'full run gives %s, first run gave %s' % (show(got), show(self.base))
                nontrivial = any(not is_exc(a) for a in got)
                if prob is None and self.evars and not any(is_exc(a) for a in got):
                    prob = self.nested_reuse()
            elif mode in ('close', 'del', 'throw'):
                g = self.new()
                prob = self.take(g, k)
                nontrivial = bool(VarTracker.bound(self.evars))
                if mode == 'close':
                    g.close()
                elif mode == 'throw':
                    try:
                        g.throw(ConsumerError('consumer'))
                        prob = prob or 'g.throw returned instead of raising'
                    except ConsumerError:
                        pass
                    except StopIteration:
                        prob = prob or 'g.throw ended with StopIteration (the exception was swallowed)'
                del g
                S.collect()
            elif mode in ('native', 'boom'):
                ticker.reset(at=k, watch=self.evars)
                g = self.new()
                got = []
                prob = 'the python predicate never reached event %d' % k
                try:
                    for _ in g:
                        got.append(snap(self.evars))
                        if len(got) > CAP:
                            break
                except NativeBoom:
                    prob = None
                finally:
                    ticker.at = None
                if prob is None and got != self.base[:len(got)]:
                    prob = 'answers before the exception %s are not a prefix of %s' % (show(got), show(self.base))
                nontrivial = ticker.bound_at_raise
                try:
                    next(g)
                    prob = prob or 'generator still alive after the exception passed through it'
                except StopIteration:
                    pass
                except NativeBoom:
                    prob = prob or 'generator still alive after the exception passed through it'
                del g
                S.collect()
            else:
                raise ValueError(mode)
            left = self.leftovers()
            if ticker is not None:
                ticker.reset()
            again = self.full()
            left2 = self.leftovers()
        finally:
            VarTracker.stop()
        if prob:
            return False, prob, nontrivial
        if left:
            return False, left, nontrivial
        if not same_answers(self.base, again):
            return False, 're-run gives %s, first run gave %s' % (show(again), show(self.base)), nontrivial
        if left2:
            return False, 'after the re-run: ' + left2, nontrivial
        return True, 'ok', nontrivial


# ------------------------------------------------------------------ program cases
def program_keys(case):
    keys = []
    for prog in [case.program] + [m[0] for m in case.more]:
        for head, _b in prog:
            k = '%s_%d' % T.name_arity(head)
            if k not in keys:
                keys.append(k)
    return keys


def boom_variant(case, rng):
    """(program, more) with `boom` as new first goal of one clause"""
    progs = [list(case.program)] + [list(m[0]) for m in case.more]
    cands = [(pi, ci) for pi, p in enumerate(progs) for ci, (h, b) in enumerate(p) if b != T.TRUE]
    if not cands:
        cands = [(pi, ci) for pi, p in enumerate(progs) for ci in range(len(p))]
    if not cands:
        return None
    pi, ci = rng.choice(cands)
    h, b = progs[pi][ci]
    b2 = T.call(T.atom('boom')) if b == T.TRUE else (',', T.call(T.atom('boom')), b)
    progs[pi][ci] = (h, b2)
    return progs[0], [(progs[i + 1], case.more[i][1]) for i in range(len(case.more))], (pi, ci)


def points(n, rng, limit=MAX_POINTS, only=None):
    if only is not None:
        return [only[2]] if 1 <= only[2] <= n else []
    pts = list(range(1, n + 1))
    if len(pts) > limit:
        pts = sorted(rng.sample(pts, limit))
    return pts


def scenario_of(case, fam, seed, count, qi, mode, k, extra=None):
    sc = dict(driver='s_c03', family=fam, seed=seed, count=count, case_id=case.id, qi=qi, mode=mode, k=k,
              source=case_source(case), query=goal_to_source(case.queries[qi]))
    if extra:
        sc.update(extra)
    return sc


def run_case(case, fam, seed, count, acc, order, only=None):
    """all checks of one program case; `only` = (qi, mode, k, extra) restricts to one check (replay) and
    makes the function return (ok, detail)"""
    if S.uses_db(case):
        acc.skip('uses assert/retract')
        return (True, 'skipped: uses assert/retract') if only else None
    src = case_source(case)
    ref = build_ref(case)
    real = build_real(case)
    keys = program_keys(case)
    rng0 = random.Random('c03/%s' % case.id)
    bv = boom_variant(case, rng0)
    boom_real = None
    boom_ticker = Ticker()
    if bv is not None:
        boom_real = build_real(case, bv[0], bv[1])
        boom_real.yp.register_function('boom', boom_native(boom_ticker), arity=0)
    for qi, goal in enumerate(case.queries):
        if only and only[0] != qi:
            continue
        qs = goal_to_source(goal)
        if S.excluded_query(src, qs):
            acc.skip('call of a control construct')
            continue
        try:
            exp = ref.answers(goal, max_answers=CAP, step_limit=20000)
        except RefLimit:
            acc.skip('reference limit')
            continue
        if ref.sto:
            acc.skip('STO (cyclic term)')
            continue
        rng = random.Random('c03/%s/%d' % (case.id, qi))
        ctx = QueryCtx(real, goal)
        VarTracker.start()
        ctx.base = ctx.full()
        first_left = ctx.leftovers()
        VarTracker.stop()
        n = len([a for a in ctx.base if not is_exc(a)])

        def report(mode, k, ok, detail, nontrivial, extra=None):
            acc.evaluation(digest(src, qs, mode, k, extra) if nontrivial else None)
            acc.observe((qi, mode, k), ok, detail)
            if not ok:
                acc.fail((order, qi, mode, k), scenario_of(case, fam, seed, count, qi, mode, k, extra), detail,
                         cls='%s: %s' % (mode, ' '.join(re.sub(r'\d+', '#', detail).split()[:5])))

        def wanted(mode, k):
            return only is None or (only[1] == mode and only[2] == k)

        results = []
        # ---- the first full run against the reference
        if wanted('exhaust', 0):
            if not same_answers(exp, ctx.base):
                ok, detail = False, 'first full run gives %s, reference gives %s' % (show(ctx.base), show(exp))
            elif first_left:
                ok, detail = False, first_left
            else:
                ok, detail, _nt = ctx.check('exhaust', 0)
            report('exhaust', 0, ok, detail, n > 0)
            results.append((ok, detail))
            acc.sample((order, qi), dict(id=case.id, source=src, query=qs, answers=show(ctx.base),
                                         abandonment_points=list(range(n + 1)), modes=['close', 'del', 'throw', 'native', 'boom']))
        # ---- abandonment by the consumer
        for mode in ('close', 'del', 'throw'):
            for k in range(n + 1):
                if wanted(mode, k):
                    ok, detail, nt = ctx.check(mode, k)
                    report(mode, k, ok, detail, nt)
                    results.append((ok, detail))
        # ---- python predicate raising: wrapped program predicate
        if only is None or only[1] == 'native':
            ticker = Ticker()
            cand = [k for k in keys if k in real.yp.eval_context]
            rng.shuffle(cand)
            if only is not None:
                cand = [only[3]['target']]
            for key in cand[:3]:
                orig = real.yp.eval_context[key]
                name, ar = key.rsplit('_', 1)
                real.yp.register_function(name, wrap_native(orig, ticker), arity=int(ar))
                try:
                    ticker.reset()
                    counted = ctx.full()
                    total = ticker.n
                    if total == 0:
                        continue
                    if not same_answers(ctx.base, counted):
                        detail = ('with the delegating python predicate %s (not raising) the answers are %s instead of %s'
                                  % (key, show(counted), show(ctx.base)))
                        report('native', 0, False, detail, True, dict(target=key))
                        results.append((False, detail))
                        break
                    if only is not None and only[2] == 0:
                        results.append((True, 'ok'))
                    for j in points(total, random.Random('c03n/%s/%d' % (case.id, qi)), only=only):
                        if wanted('native', j):
                            ok, detail, nt = ctx.check('native', j, ticker)
                            report('native', j, ok, detail, nt, dict(target=key))
                            results.append((ok, detail))
                    break
                finally:
                    real.yp.eval_context[key] = orig
        # ---- python predicate raising: boom/0 goal in a clause
        if boom_real is not None and (only is None or only[1] == 'boom'):
            bctx = QueryCtx(boom_real, goal)
            boom_ticker.reset()
            bctx.base = bctx.full()
            total = boom_ticker.n
            if total:
                extra = dict(boom_clause=list(bv[2]))
                if not same_answers(ctx.base, bctx.base):
                    detail = ('with boom (succeeds once, not raising) in clause %s the answers are %s instead of %s'
                              % (bv[2], show(bctx.base), show(ctx.base)))
                    report('boom', 0, False, detail, True, extra)
                    results.append((False, detail))
                else:
                    if only is not None and only[2] == 0:
                        results.append((True, 'ok'))
                    for j in points(total, random.Random('c03b/%s/%d' % (case.id, qi)), only=only):
                        if wanted('boom', j):
                            ok, detail, nt = bctx.check('boom', j, boom_ticker)
                            report('boom', j, ok, detail, nt, extra)
                            results.append((ok, detail))
        if only:
            if not results:
                return False, 'the scenario does not exist (mode/k not reachable)'
            return results[0]
    if only:
        return False, 'query not run (skipped or missing)'


# ------------------------------------------------------------------ family U: unification generators
def u_scenario(seed, i):
    """random outer/inner unification problem as tuple terms"""
    rng = random.Random('c03/U/%d/%d' % (seed, i))
    pool = [T.var(n) for n in 'ABCDEF']
    depth = rng.choice([1, 2, 2, 3])
    outer = [(rng.choice(pool), gen._rterm(rng, pool, depth, allow_anon=False)) for _ in range(rng.randint(0, 3))]
    a = gen._rterm(rng, pool, depth, allow_anon=False)
    b = gen._rterm(rng, pool, depth, allow_anon=False)
    if rng.random() < 0.5:
        # make success likely: b = a with some subterms replaced by variables
        def blur(t, d=0):
            if rng.random() < 0.3:
                return rng.choice(pool)
            if t[0] == 'fun':
                return ('fun', t[1], tuple(blur(x, d + 1) for x in t[2]))
            return t
        b = blur(a)
    return dict(outer=[[S.jsonable(x), S.jsonable(y)] for x, y in outer], a=S.jsonable(a), b=S.jsonable(b))


def state_of(vs):
    names = {}
    return [(v._is_bound, S.from_engine(v, names)) for v in vs]


def run_u(sc, mode, acc=None):
    """-> list of (mode, ok, detail, nontrivial) for the modes asked"""
    from ref_interp import _unify, _occurs
    real = S.RealEngine()
    vm = {}
    outer = [(S.untuple(x), S.untuple(y)) for x, y in sc['outer']]
    a, b = S.untuple(sc['a']), S.untuple(sc['b'])
    # independent model (also used to stay away from cyclic terms)
    bind, trail, sto = {}, [], []
    results = []
    for m in ([mode] if mode else ['exhaust', 'close', 'del', 'throw']):
        VarTracker.start()
        try:
            pool = [real.to_engine(T.var(n), vm) for n in 'ABCDEF']
            opened = []
            bind, trail, sto = {}, [], []
            for x, y in outer:
                save = dict(bind)
                okm = _unify(x, y, bind, trail, sto)
                if sto:
                    return [(m, None, 'skipped: cyclic term', False)]
                g = iter(E.unify(real.to_engine(x, vm), real.to_engine(y, vm)))
                try:
                    next(g)
                    opened.append(g)
                    if not okm:
                        results.append((m, False, 'outer unify succeeds, the model fails', False))
                        return results
                except StopIteration:
                    bind = save
                    if okm:
                        results.append((m, False, 'outer unify fails, the model succeeds', False))
                        return results
            okm = _unify(a, b, dict(bind), [], sto)
            if sto:
                return [(m, None, 'skipped: cyclic term', False)]
            ea, eb = real.to_engine(a, vm), real.to_engine(b, vm)
            before = state_of(pool)
            g = E.unify(ea, eb)
            it = iter(g)
            prob = None
            nontrivial = False
            try:
                next(it)
                succeeded = True
            except StopIteration:
                succeeded = False
            if succeeded != okm:
                prob = 'inner unify %s, the model %s' % ('succeeds' if succeeded else 'fails', 'succeeds' if okm else 'fails')
            if succeeded:
                nontrivial = state_of(pool) != before
                if m == 'exhaust':
                    try:
                        next(it)
                        prob = prob or 'unify gave a second answer'
                    except StopIteration:
                        pass
                elif m == 'close':
                    it.close()
                elif m == 'throw':
                    if hasattr(it, 'throw'):
                        try:
                            it.throw(ConsumerError('c'))
                            prob = prob or 'throw returned'
                        except ConsumerError:
                            pass
                        except StopIteration:
                            prob = prob or 'throw swallowed'
                    else:
                        it.close()
            del g, it
            S.collect()
            after = state_of(pool)
            if after != before and not prob:
                prob = 'binding state before %s, afterwards %s' % (before, after)
            for og in reversed(opened):
                og.close()
            left = VarTracker.bound(pool)
            if left and not prob:
                prob = '%d variable(s) bound after closing everything' % len(left)
            results.append((m, prob is None, prob or 'ok', nontrivial))
        finally:
            VarTracker.stop()
    return results


# ------------------------------------------------------------------ run / replay
def split(count):
    per = count // 4
    return per, count - 3 * per


def worker(args):
    seed, count, part, parts = args
    acc = Acc()
    per, nu = split(count)
    order = 0
    for fam in FAMILIES:
        for i, case in enumerate(gen.cases(fam, seed, per)):
            order += 1
            if i % parts != part:
                continue
            try:
                S.with_timeout(20, run_case, case, fam, seed, per, acc, order)
            except S.Timeout:
                acc.skip('timeout')
            except Exception as e:
                acc.evaluation()
                acc.fail((order, 0, 'driver', 0), dict(driver='s_c03', family=fam, seed=seed, count=per, case_id=case.id,
                                                       qi=0, mode='exhaust', k=0, source=case_source(case)),
                         'exception outside a check (consult/prepare): %r' % (e,))
    for i in range(nu):
        order += 1
        if i % parts != part:
            continue
        sc = u_scenario(seed, i)
        for m, ok, detail, nt in run_u(sc, None):
            if ok is None:
                acc.skip(detail)
                continue
            acc.evaluation(digest('U', sc, m) if nt else None)
            if not ok:
                acc.fail((order, 0, m, 0), dict(driver='s_c03', family='U', seed=seed, index=i, mode=m, **sc), detail,
                         cls='U %s: %s' % (m, ' '.join(re.sub(r'\d+', '#', detail).split()[:5])))
        if i < 2:
            acc.sample((order, 0), dict(family='U', **sc))
    return acc.pack()


def run(seed, count):
    return S.merge(S.fan_out(worker, seed, count), RULE)


def replay(sc):
    if sc['family'] == 'U':
        r = run_u(sc, sc['mode'])
        m, ok, detail, _ = r[0]
        return bool(ok) or ok is None, detail
    case = S.find_case(sc['family'], sc['seed'], sc['count'], sc['case_id'])
    if case is None:
        return False, 'case not found'
    extra = {k: sc[k] for k in ('target', 'boom_clause') if k in sc}
    # the checks of a case share one engine: run the whole case as `run` did and pick the check's outcome
    acc = Acc()
    acc.watch_key = (sc['qi'], sc['mode'], sc['k'])
    run_case(case, sc['family'], sc['seed'], sc['count'], acc, 0)
    if acc.watch_result is not None:
        return acc.watch_result
    return run_case(case, sc['family'], sc['seed'], sc['count'], Acc(), 0, only=(sc['qi'], sc['mode'], sc['k'], extra))


if __name__ == '__main__':
    S.cli(run, replay)
