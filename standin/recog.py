"""Adapter around recog_diff.py (bounded stand-in for C10 / C06-precedence, never counted as proved).

  recog.py run <accept|tree> <seed> <count>
  recog.py replay <file.json>
accept: the independent recogniser of L(prolog.g4) rejects a text but the real compiler returns code,
        or the compiler returns code whose set of `def name_arity` differs from the clause heads.
tree:   for accepted programs the operator tree of every clause body (',' tighter than '->' tighter
        than ';', all right-associative, \\+ prefix) differs from what the real parser+visitor build.
A compiler exception on a text the recogniser accepts is allowed by C10 ("either raises or returns
code for its whole input") and is not a failure.
"""
import json
import os
import sys
import tempfile

HERE = os.path.dirname(os.path.abspath(__file__))
sys.path.insert(0, HERE)
import recog_diff  # noqa


def bad_accept(r):
    cls = r.get('mismatch_class', r.get('class', ''))
    return cls.startswith('R_rejects_C_accepts') or cls.startswith('R_accepts_C_defs_differ')


def main():
    if sys.argv[1] == 'replay':
        rp = json.load(open(sys.argv[2]))
        sc = rp.get('scenario', rp)
        recog_diff._load_real() if hasattr(recog_diff, '_load_real') else None
        r = recog_diff.evaluate(('replay', 'replay', sc['text'], True))
        bad = bad_accept(r) if sc['mode'] == 'accept' else bool(r.get('tree_problems'))
        print(json.dumps(dict(ok=not bad, recogniser=r.get('R'), compiler=r.get('C_status'), cls=r.get('mismatch_class'),
                              tree_problems=r.get('tree_problems'))))
        sys.exit(1 if bad else 0)
    mode, seed, count = sys.argv[2], int(sys.argv[3]), int(sys.argv[4])
    fd, tmp = tempfile.mkstemp(suffix='.json')
    os.close(fd)
    so = sys.stdout
    sys.stdout = open(os.devnull, 'w')
    try:
        recog_diff.main(['--seed', str(seed), '--count', str(count), '--out', tmp, '--jobs', '12', '--examples', '40'])
    finally:
        sys.stdout = so
    d = json.load(open(tmp))
    os.unlink(tmp)
    fails = []
    oracle_problems = d['valid_rejected_count'] + d['internal_disagreement_count'] + d['strict_antlr_disagreement_count'] \
        + d['lexer_disagreement_count'] + len(d.get('evaluation_errors', []))
    if mode == 'accept':
        for m in d['accept_mismatch']:
            if bad_accept(m):
                fails.append(dict(scenario=dict(mode='accept', text=m['text']),
                                  detail='%s: recogniser=%s compiler=%s' % (m['class'], m['recogniser'], m['compiler'])))
        nontriv = d['distinct_nontrivial']
    else:
        for m in d['tree_mismatch']:
            fails.append(dict(scenario=dict(mode='tree', text=m.get('text', '')), detail='tree mismatch: %s' % json.dumps(m)[:400]))
        nontriv = d['trees_compared']
    samples = [s if isinstance(s, dict) else {'text': s} for s in d.get('samples', [])[:3]]
    print(json.dumps(dict(evaluations=d['evaluations'], distinct_nontrivial=nontriv, failures=fails[:20], failure_count=len(fails),
                          oracle_problems=oracle_problems, compiler_accepts_invalid=d.get('compiler_accepts_invalid_count'),
                          compiler_rejects_invalid=d.get('compiler_rejects_invalid_count'), trees_compared=d['trees_compared'],
                          strict_antlr_agreement=d['strict_antlr_compared'] - d['strict_antlr_disagreement_count'],
                          samples=samples, rule=d['rule'] + ' | non-trivial = ' +
                          ('distinct corrupted texts the recogniser rejects' if mode == 'accept' else 'clause-body trees compared'))))


if __name__ == '__main__':
    main()
