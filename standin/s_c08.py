"""Bounded stand-in for C08 "Call resolution: facts first, exact arity, load order, late binding".

    python s_c08.py run <seed> <count>      python s_c08.py replay <file.json>

A scenario is a random HISTORY of engine operations; after every operation a fixed
set of probe queries is answered by the real engine and by the oracle and the
ordered answer lists (canon form) are compared.

Scenario JSON
    {"names": ["p","q",...],               predicate names of the history (rank order)
     "ops": [ {"op":"register","name":n,"style":"inferred"|"explicit"|"variadic","arity":k,
               "rows":[[term,...],...],"first_only":bool},
              {"op":"load","clauses":[[head,body],...],"overwrite":bool},
              {"op":"badload","kind":"syntax"|"zerodiv"|"nameerror"|"truncated","clauses":[...],"overwrite":bool},
              {"op":"assert","how":"fact_z"|"fact_a"|"assertz"|"asserta","term":term},
              {"op":"clear"} ]}
    terms / goals are the tuples of terms.py written as JSON lists.
"""

import json
import random
import sys

import s_res_common as common
from s_res_common import tup, untup

from terms import (TRUE, CUT, atom, int_, var, fun, call, eq, conj, to_source, name_arity,   # noqa: E402
                   answer_to_source, goal_to_source, term_to_source, vars_of)
from ref_interp import RefEngine, RefLimit, facts_native      # noqa: E402
import real_engine                                            # noqa: E402
from real_engine import RealEngine, compile_source            # noqa: E402
from yldprolog.engine import unify                            # noqa: E402

RULE = (
    "C08 history test. ORACLE = the list-of-definitions model of ref_interp.RefEngine (static: (name,arity) -> "
    "ordered list of definition groups, a group = the clauses of one name/arity of one loaded script (own cut scope) "
    "or one native; variadic: name -> native, consulted only if there is no group for the exact arity; dyn: "
    "(name,arity) -> fact list; resolution at call time = facts in order, then the groups in order; unknown -> fail) "
    "driven by this bookkeeping: register_function replaces the groups of its key (inferred arity = number of "
    "parameters) or the variadic entry; load overwrite=True replaces exactly the keys the script defines, "
    "overwrite=False appends one group per key; a load that raises changes nothing; clear() empties everything; "
    "definitions (registered or loaded) under a reserved API name (atom, variable, functor, functor1-3, listpair, "
    "makelist, ATOM_NIL, unify, match_dynamic, query, True, False) are never consulted (facts asserted under such a "
    "name are still found: 'facts first' applies to every name). After EVERY operation the ordered canon answer "
    "lists of the probes name(V1..Vk) and name(a,V2..Vk), name in history names + unknown 'zz' + API names, "
    "k = 0..3, are compared (1 evaluation = 1 probe comparison). Call graph is acyclic by rank (a clause of key K "
    "only calls keys ranked after K) so that forward references to predicates defined LATER in the history are "
    "frequent. distinct_nontrivial = distinct histories in which some probe has a non-empty expected answer list and "
    "at least one of: a probed key answered from >=2 resolution segments (facts+definition or >=2 groups), a "
    "variadic fallback produced answers, a clause body referenced a key undefined at load time that was defined "
    "later, a raising load hit a non-empty engine, a definition under a reserved name was made."
)

RESERVED = ["atom", "variable", "functor", "functor1", "functor2", "functor3", "listpair", "makelist",
            "ATOM_NIL", "unify", "match_dynamic", "query", "True", "False"]
PROBE_RESERVED = ["atom", "unify", "query"]
CONSTS = [atom("a"), atom("b"), atom("c"), int_(1), int_(2)]
MAX_ANSWERS = 200
STEP_LIMIT = 50000


# ------------------------------------------------------------------ generation
def _rows(rng, arity, n):
    return [[rng.choice(CONSTS[:4]) for _ in range(arity)] for _ in range(n)]


def _rank(names, key):
    n, a = key
    if n in names:
        return names.index(n) * 4 + a
    return 1000 + a            # reserved / unknown names: leaves


def _clause(rng, names, key, callable_keys):
    """one clause for `key`; bodies only call keys ranked after `key`"""
    name, ar = key
    X, Y = var("X"), var("Y")
    hv = [X, Y][:ar]
    higher = [k for k in callable_keys if _rank(names, k) > _rank(names, key)]
    r = rng.random()
    if r < 0.35 or not higher:
        return (fun(name, *[rng.choice(CONSTS) for _ in range(ar)]), TRUE)
    head_args = list(hv)
    if ar and rng.random() < 0.2:
        head_args[0] = rng.choice(CONSTS[:3])
    head = fun(name, *head_args)
    goals = []
    for j in range(rng.randint(1, 2)):
        cn, ca = rng.choice(higher)
        pool = hv + [var("Z")]
        args = []
        for i in range(ca):
            t = rng.random()
            if t < 0.6 and pool:
                args.append(pool[(i + j) % len(pool)] if rng.random() < 0.7 else rng.choice(pool))
            elif t < 0.75:
                args.append(var("_"))
            else:
                args.append(rng.choice(CONSTS[:3]))
        goals.append(call(fun(cn, *args)))
    t = rng.random()
    if t < 0.35:
        goals.append(CUT)
    elif t < 0.45:
        goals.insert(0, CUT)
    elif t < 0.55 and hv:
        goals.append(eq(hv[-1], rng.choice(CONSTS)))
    # head variables that the body never binds stay variables: fine (answers compared up to renaming)
    return (head, conj(*goals))


def _script(rng, names, all_names):
    keys = []
    for _ in range(rng.randint(1, 3)):
        n = rng.choice(names) if rng.random() < 0.93 else rng.choice(PROBE_RESERVED)
        keys.append((n, rng.randint(0, 2)))
    callable_keys = [(n, a) for n in all_names for a in range(0, 3)] + [("zz", 1)]
    if rng.random() < 0.3:
        callable_keys += [(r, a) for r in PROBE_RESERVED for a in (1, 2)]
    clauses = []
    for k in keys:
        for _ in range(rng.randint(1, 3)):
            clauses.append(_clause(rng, all_names, k, callable_keys))
    return clauses


def _fact_arg(rng, j):
    """argument j of an asserted fact: mostly constants; also a variable (its own), a compound term, an integer - facts of one
    name/arity with different kinds of first argument must still be tried in assertion order"""
    t = rng.random()
    if t < 0.62:
        return rng.choice(CONSTS)
    if t < 0.78:
        return var("_F%d" % j)
    if t < 0.9:
        return fun("f", rng.choice(CONSTS[:2]))
    return int_(rng.randint(0, 2))


def make_scenario(seed, i):
    rng = random.Random(seed * 1000003 + i * 7919 + 11)
    names = ["p", "q", "r"][:rng.choice([2, 3, 3])]
    ops = []
    n = rng.randint(2, 7)
    while len(ops) < n:
        r = rng.random()
        name = rng.choice(names) if rng.random() < 0.92 else rng.choice(PROBE_RESERVED)
        if r < 0.27:
            style = rng.choice(["inferred", "explicit", "variadic"])
            if style == "variadic":
                rows = []
                for _ in range(rng.randint(2, 4)):
                    rows += _rows(rng, rng.randint(0, 2), 1)
                ar = -1
            else:
                ar = rng.randint(0, 2)
                rows = _rows(rng, ar, 1 if ar == 0 else rng.randint(1, 3))
            if style == "inferred" and ar >= 1 and rng.random() < 0.35:
                # a function whose LAST parameter is *rest: its inferred arity is still the number of its parameters
                style = "inferred-star"
            ops.append({"op": "register", "name": name, "style": style, "arity": ar, "rows": rows,
                        "first_only": rng.random() < 0.3})
        elif r < 0.62:
            earlier = [o for o in ops if o["op"] == "load"]
            if earlier and rng.random() < 0.3:
                # the same script text again (same clauses at the same source lines), e.g. re-loading after an overwrite load
                ops.append({"op": "load", "clauses": rng.choice(earlier)["clauses"], "overwrite": rng.random() < 0.35})
            else:
                ops.append({"op": "load", "clauses": _script(rng, names, names), "overwrite": rng.random() < 0.5})
        elif r < 0.72:
            ops.append({"op": "badload", "kind": rng.choice(["syntax", "zerodiv", "nameerror", "truncated"]),
                        "clauses": _script(rng, names, names), "overwrite": rng.random() < 0.5})
        elif r < 0.94:
            ar = rng.randint(0, 2)
            ops.append({"op": "assert", "how": rng.choice(["fact_z", "fact_a", "assertz", "asserta"]),
                        "term": fun(name, *[_fact_arg(rng, j) for j in range(ar)])})
        else:
            ops.append({"op": "clear"})
    return untup({"names": names, "ops": ops})


# ------------------------------------------------------------ real-side natives
def real_native(real, rows, arity, style, first_only):
    """python generator function enumerating `rows` with nested unify loops; `first_only` puts a
    `return` after the first answer (what the compiler emits for a cut)"""
    rows = [tuple(r) for r in rows]

    def vals(row):
        vm = {}
        return [real.to_engine(t, vm) for t in row]

    def n0():
        for row in rows:
            yield False
            if first_only:
                return

    def n1(arg1):
        for row in rows:
            v = vals(row)
            for _l1 in unify(arg1, v[0]):
                yield False
                if first_only:
                    return

    def n2(arg1, arg2):
        for row in rows:
            v = vals(row)
            for _l1 in unify(arg1, v[0]):
                for _l2 in unify(arg2, v[1]):
                    yield False
                    if first_only:
                        return

    def nv(*args):
        for row in rows:
            if len(row) != len(args):
                continue
            v = vals(row)
            if len(args) == 0:
                yield False
                if first_only:
                    return
            elif len(args) == 1:
                for _l1 in unify(args[0], v[0]):
                    yield False
                    if first_only:
                        return
            else:
                for _l1 in unify(args[0], v[0]):
                    for _l2 in unify(args[1], v[1]):
                        if len(args) == 2:
                            yield True
                            if first_only:
                                return
                        else:
                            for _l3 in unify(args[2], v[2]):
                                yield True
                                if first_only:
                                    return

    def s1(*rest):
        # answers on whatever it is given: called as name/1 (the only arity it is registered for) this is n1
        for row in rows:
            v = vals(row)
            if not rest:
                yield False
                continue
            for _l1 in unify(rest[0], v[0]):
                yield False
                if first_only:
                    return

    def s2(arg1, *rest):
        for row in rows:
            v = vals(row)
            for _l1 in unify(arg1, v[0]):
                if not rest:
                    yield False
                    continue
                for _l2 in unify(rest[0], v[1]):
                    yield False
                    if first_only:
                        return

    if style == "inferred":
        return (n0, n1, n2)[arity]
    if style == "inferred-star":
        return (None, s1, s2)[arity]
    return nv


def ref_native(rows, first_only):
    base = facts_native([tuple(r) for r in rows])
    if not first_only:
        return base

    def native(engine, args, subst):
        for d in base(engine, args, subst):
            yield d
            return
    return native


BAD_TAIL = {"syntax": "\ndef broken_1(:\n", "zerodiv": "\n1/0\n", "nameerror": "\nno_such_name_anywhere\n",
            "truncated": "\ndef tail_0():\n  for _ in [1]:\n"}


# ---------------------------------------------------------------------- running
def probes(names):
    out = []
    for n in list(names) + ["zz"] + PROBE_RESERVED:
        for k in range(0, 4):
            vs = [var("V%d" % i) for i in range(k)]
            out.append(call(fun(n, *vs)))
            if k >= 1:
                out.append(call(fun(n, atom("a"), *vs[1:])))
    return out


def _body_calls(g, acc):
    if g[0] == "call":
        if g[1][0] in ("atom", "fun"):
            acc.append(name_arity(g[1]))
    elif g[0] in (",", ";", "->"):
        _body_calls(g[1], acc)
        _body_calls(g[2], acc)
    elif g[0] == "\\+":
        _body_calls(g[1], acc)


def run_scenario(sc):
    names = list(sc["names"])
    ops = sc["ops"]
    real = RealEngine()
    ref = RefEngine()
    fails = []
    evaluations = 0
    feats = set()
    any_answers = False
    pending_forward = set()        # keys referenced by a loaded body while undefined
    plist = probes(names)

    def defined(key):
        return bool(ref.static.get(key)) or key[0] in ref.variadic or bool(ref.dyn.get(key))

    for step, op in enumerate(ops):
        kind = op["op"]
        note = ""
        if kind == "register":
            rows = [tup(r) for r in op["rows"]]
            f = real_native(real, rows, op["arity"], op["style"], op["first_only"])
            try:
                if op["style"] in ("inferred", "inferred-star"):
                    real.yp.register_function(op["name"], f)
                elif op["style"] == "explicit":
                    real.yp.register_function(op["name"], f, arity=op["arity"])
                else:
                    # any negative arity means variable arity (documented); the history step number picks one
                    real.yp.register_function(op["name"], f, arity=(-1, -2, -7)[step % 3])
            except Exception as e:
                fails.append("step %d register raised %s: %s" % (step, type(e).__name__, e))
            if op["name"] in RESERVED:
                feats.add("reserved-def")
            else:
                ref.register_native(op["name"], None if op["style"] == "variadic" else op["arity"],
                                    ref_native(rows, op["first_only"]))
                if (op["name"], op["arity"]) in pending_forward:
                    feats.add("forward")
        elif kind in ("load", "badload"):
            clauses = [tup(c) for c in op["clauses"]]
            src = to_source(clauses)
            code = compile_source(src)
            if kind == "badload":
                nonempty = bool(ref.static or ref.variadic or ref.dyn)
                code = code + BAD_TAIL[op["kind"]]
                raised = False
                try:
                    real.yp.load_script_from_string(code, overwrite=op["overwrite"])
                except Exception:
                    raised = True
                if not raised:
                    fails.append("step %d: the broken script (%s) loaded without raising" % (step, op["kind"]))
                if nonempty:
                    feats.add("badload")
            else:
                if step % 3 == 1 and "\ndef " in code:
                    # a script may hold other module-level names than predicates (a revision number, a constant table): they are
                    # not predicates and do not disturb the load
                    i = code.rfind("\ndef ")
                    code = code[:i] + "\nREVISION = 2\nTABLE = {'a': 1}\n" + code[i:] + "\nLAST_NAME = 'x'\n"
                try:
                    real.yp.load_script_from_string(code, overwrite=op["overwrite"])
                except Exception as e:
                    fails.append("step %d load raised %s: %s" % (step, type(e).__name__, e))
                keep = [c for c in clauses if name_arity(c[0])[0] not in RESERVED]
                if len(keep) != len(clauses):
                    feats.add("reserved-def")
                for c in keep:
                    acc = []
                    _body_calls(c[1], acc)
                    for k in acc:
                        if not defined(k) and k[0] in names:
                            pending_forward.add(k)
                ref.consult(keep, overwrite=op["overwrite"])
                for c in keep:
                    if name_arity(c[0]) in pending_forward:
                        feats.add("forward")
        elif kind == "assert":
            t = tup(op["term"])
            how = op["how"]
            try:
                if how == "fact_z":
                    real.assertz(t)
                elif how == "fact_a":
                    real.asserta(t)
                else:
                    vm = {}
                    n = sum(1 for _ in real.yp.query(how, [real.to_engine(t, vm)]))
                    if n != 1:
                        fails.append("step %d: %s/1 gave %d answers" % (step, how, n))
            except Exception as e:
                fails.append("step %d assert raised %s: %s" % (step, type(e).__name__, e))
            if how in ("fact_z", "assertz"):
                ref.assertz(t)
            else:
                ref.asserta(t)
            if name_arity(t) in pending_forward:
                feats.add("forward")
        elif kind == "clear":
            real.clear()
            ref.clear()
            pending_forward = set()
        else:
            raise ValueError("unknown op %r" % (kind,))

        # ---- probes after the step
        for g in plist:
            key = name_arity(g[1])
            try:
                exp = ref.answers(g, max_answers=MAX_ANSWERS, step_limit=STEP_LIMIT)
            except RefLimit:
                continue
            evaluations += 1
            try:
                obs = common.timed(real.answers, g, max_answers=MAX_ANSWERS)
            except common.Timeout as e:
                obs = [("EXC", "Timeout", str(e))]
            if exp:
                any_answers = True
                nseg = (1 if ref.dyn.get(key) else 0) + len(ref.static.get(key) or ())
                if nseg >= 2:
                    feats.add("multi-segment")
                if not ref.static.get(key) and key[0] in ref.variadic:
                    feats.add("variadic-fallback")
            if exp != obs:
                if len(fails) < 6:
                    fails.append("after step %d (%s) probe ?- %s: expected %s observed %s" % (
                        step, json.dumps(op)[:160], goal_to_source(g),
                        [answer_to_source(a) for a in exp], [answer_to_source(a) for a in obs]))
                else:
                    fails.append("...")
                    break
        if len(fails) > 6:
            break
    nontrivial = [common.digest(sc)] if (any_answers and feats) else []
    sample = None
    if not fails and any_answers and len(feats) >= 2:
        sample = {"scenario": sc, "features": sorted(feats), "evaluations": evaluations,
                  "text": describe(sc)}
    return {"evaluations": evaluations, "failures": fails, "nontrivial": nontrivial, "sample": sample}


def describe(sc):
    out = []
    for op in sc["ops"]:
        k = op["op"]
        if k == "register":
            out.append("register %s %s/%s rows=%s first_only=%s" % (
                op["style"], op["name"], op["arity"],
                ["(" + ",".join(term_to_source(tup(t), True) for t in r) + ")" for r in op["rows"]], op["first_only"]))
        elif k in ("load", "badload"):
            out.append("%s overwrite=%s%s: %s" % (k, op["overwrite"], " kind=" + op["kind"] if k == "badload" else "",
                                                  to_source([tup(c) for c in op["clauses"]]).replace("\n", " ")))
        elif k == "assert":
            out.append("%s %s" % (op["how"], term_to_source(tup(op["term"]))))
        else:
            out.append("clear()")
    return out


if __name__ == "__main__":
    common.main(sys.modules[__name__])
