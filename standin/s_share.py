"""Simultaneous uses of one stored fact never constrain each other (C13, C04 within-instance clause).

A non-ground fact (variables at depth 0, 1 or 2, possibly repeated) is asserted; two queries with different constants
for the fact's variables are started and their next() calls interleaved in every order (both suspended at the same
time); each must produce exactly the answers it produces when it runs alone on a fresh engine.  Also from compiled code:
pair(A,B) :- f(..A..), f(..B..).

  s_share.py run <seed> <count>      s_share.py replay <file>
"""
import itertools
import json
import os
import random
import sys

sys.path.insert(0, os.environ.get('YLD_REPO_SRC', '/repo/src'))
from yldprolog import engine  # noqa
from yldprolog.compiler import compile_prolog_from_string  # noqa

SHAPES = ['V', 'g(V)', 'g(h(V))', 'p(V,V)', 'p(g(V),V)', 'p(k,g(V))', 'p(V,W)', 'g(p(V,W))', 'p(k,V)',
          # lists: lst(a,b,V) is [a,b|V] (open tail), lst(V,nil) is [V]
          'lst(a,b,V)', 'lst(V,W)', 'g(lst(k,V))', 'lst(V,nil)',
          # a variable first on its own and then again inside a structure
          'p(V,g(V))', 'p(V,g(h(V)))', 'p(W,g(V,W))']


def build(yp, shape, env):
    """shape string -> engine term; env maps variable letters to engine terms"""
    shape = shape.strip()
    if '(' not in shape:
        if shape in env:
            return env[shape]
        if shape[0].isupper():
            env[shape] = yp.variable()
            return env[shape]
        if shape == 'nil':
            return yp.ATOM_NIL
        return yp.atom(shape)
    name, rest = shape.split('(', 1)
    rest = rest[:-1]
    args, depth, cur = [], 0, ''
    for ch in rest:
        if ch == ',' and depth == 0:
            args.append(cur)
            cur = ''
        else:
            depth += ch == '('
            depth -= ch == ')'
            cur += ch
    args.append(cur)
    if name.strip() == 'lst':
        items = [build(yp, a, env) for a in args]
        tail = items[-1]
        for x in reversed(items[:-1]):
            tail = yp.listpair(x, tail)
        return tail
    return yp.functor(name, [build(yp, a, env) for a in args])


def answers_alone(shape, binding):
    yp = engine.YP()
    yp.assert_fact(yp.atom('f'), [build(yp, shape, {})])
    env = {k: yp.atom(v) for k, v in binding.items()}
    q = yp.query('f', [build(yp, shape, env)])
    return len(list(q))


def run(sc):
    if sc.get('kind') == 'bound_arg':
        return run_bound(sc)
    if sc.get('kind') == 'link':
        return run_link(sc)
    shape, b1, b2, order = sc['shape'], sc['b1'], sc['b2'], sc['order']
    if sc.get('compiled'):
        yp = engine.YP()
        yp.assert_fact(yp.atom('f'), [build(yp, shape, {})])
        s1 = shape
        for k, v in b1.items():
            s1 = s1.replace(k, v)
        s2 = shape
        for k, v in b2.items():
            s2 = s2.replace(k, v)
        def prolog(t):
            # lst(a,b,T) -> [a,b|T] ; nil -> []
            import re as _re
            while 'lst(' in t:
                t = _re.sub(r'lst\(([^()]*),([^(),]*)\)', lambda m: '[%s|%s]' % (m.group(1), m.group(2)), t, count=1)
            return t.replace('nil', '[]')
        s1, s2 = prolog(s1), prolog(s2)
        yp.load_script_from_string(compile_prolog_from_string('both :- f(%s), f(%s).\n' % (s1, s2)))
        got = len(list(yp.query('both', [])))
        want = answers_alone(shape, b1) * answers_alone(shape, b2)
        return got == want, 'both :- f(%s), f(%s): %d answers, expected %d' % (s1, s2, got, want)
    want = [answers_alone(shape, b1), answers_alone(shape, b2)]
    yp = engine.YP()
    yp.assert_fact(yp.atom('f'), [build(yp, shape, {})])
    qs = []
    for b in (b1, b2):
        env = {k: yp.atom(v) for k, v in b.items()}
        qs.append(iter(yp.query('f', [build(yp, shape, env)])))
    got = [0, 0]
    done = [False, False]
    for i in order + [0, 1, 0, 1]:
        if done[i]:
            continue
        try:
            next(qs[i])
            got[i] += 1
        except StopIteration:
            done[i] = True
    for q in qs:
        q.close()
    return got == want, 'fact f(%s), queries %s / %s interleaved %s: answers %s, alone %s' % (shape, b1, b2, order, got, want)


def run_bound(sc):
    """a fact asserted through the Python API while its argument is a BOUND variable (directly or through a chain of variables)
    holds the value of that moment: after the binding is undone, or replaced by another one, it still matches that value only"""
    yp = engine.YP()
    X, Y, W = yp.variable(), yp.variable(), yp.variable()
    vals = {'atom': lambda: yp.atom('a'), 'int': lambda: 7, 'struct': lambda: yp.functor('g', [yp.atom('a')]),
            'structvar': lambda: yp.functor('g', [W])}
    val = vals[sc['value']]()
    other = yp.atom('zzz')
    steps = [(X, Y), (Y, val)] if sc['chain'] else [(X, val)]

    def nest(i):
        if i == len(steps):
            yp.assert_fact(yp.atom('s'), [X] if not sc.get('second') else [other, X])
            return
        for _ in engine.unify(steps[i][0], steps[i][1]):
            nest(i + 1)
    if sc['value'] == 'structvar':
        for _ in engine.unify(W, yp.atom('a')):
            nest(0)
    else:
        nest(0)
    arity = 2 if sc.get('second') else 1

    def count(arg):
        return len(list(yp.query('s', [arg] if arity == 1 else [other, arg])))
    probs = []
    if engine.get_value(X) is not X:
        probs.append('X is still bound after the loops')

    def check(when):
        want_val = vals['struct' if sc['value'] == 'structvar' else sc['value']]()
        if count(want_val) != 1:
            probs.append('%s: the fact does not match the value it was asserted with' % when)
        if count(yp.atom('nomatch')) != 0:
            probs.append('%s: the fact matches another value' % when)
        Z = yp.variable()
        got = [engine.to_python(Z) for _ in yp.query('s', [Z] if arity == 1 else [other, Z])]
        if got != [engine.to_python(want_val)]:
            probs.append('%s: s(Z) gives %r, asserted with %r' % (when, got, engine.to_python(want_val)))
    check('after the binding was undone')
    if sc['rebind']:
        for _ in engine.unify(X, yp.atom('nomatch')):
            check('while the variable is bound to another value')
    return not probs, '; '.join(probs) or 'ok'


def run_link(sc):
    """the occurrences of one variable in a stored fact stay ONE variable of the fact (and none of them is the caller's):
    different constants for two occurrences never match; binding the asserting caller's variable afterwards changes nothing"""
    shape = sc['shape']
    yp = engine.YP()
    env = {}
    yp.assert_fact(yp.atom('f'), [build(yp, shape, env)])
    probs = []

    def probe(tag):
        # occurrence-wise instantiation: first occurrence of V -> a, second -> b
        parts = shape.split('V')
        if len(parts) != 3:
            return
        same = parts[0] + 'a' + parts[1] + 'a' + parts[2]
        diff = parts[0] + 'a' + parts[1] + 'b' + parts[2]
        half = parts[0] + 'q' + parts[1] + 'Z' + parts[2]
        if len(list(yp.query('f', [build(yp, same.replace('W', 'k'), {})]))) != 1:
            probs.append('%s: f(%s) does not match the fact f(%s)' % (tag, same, shape))
        if len(list(yp.query('f', [build(yp, diff.replace('W', 'k'), {})]))) != 0:
            probs.append('%s: f(%s) matches the fact f(%s) although one variable would need two values' % (tag, diff, shape))
        e2 = {}
        got = [engine.to_python(e2['Z']) for _ in yp.query('f', [build(yp, half.replace('W', 'k'), e2)])]
        if got != ['q']:
            probs.append('%s: f(%s) gives Z = %r, expected q' % (tag, half, got))
    probe('after the assertion')
    for _ in engine.unify(env['V'], yp.atom('zz')):
        probe('while the asserting variable is bound to zz')
    return not probs, '; '.join(probs[:3]) or 'ok'


def scenarios(seed, count):
    rng = random.Random(seed)
    out = []
    for shape in SHAPES:
        if shape.count('V') == 2:
            out.append(dict(kind='link', shape=shape))
    for value in ('atom', 'int', 'struct', 'structvar'):
        for chain in (False, True):
            for rebind in (False, True):
                for second in (False, True):
                    out.append(dict(kind='bound_arg', value=value, chain=chain, rebind=rebind, second=second))
    consts = ['a', 'b', 'k']
    for shape in SHAPES:
        vs = sorted(set(c for c in shape if c in 'VW'))
        for c1 in consts:
            for c2 in consts:
                b1 = {v: c1 for v in vs}
                b2 = {v: c2 for v in vs}
                for order in ([0, 1], [1, 0], [0, 0, 1], [0, 1, 0, 1]):
                    out.append(dict(shape=shape, b1=b1, b2=b2, order=order))
                if 'lst(' not in shape:        # (the grammar wants a variable after `|`: no constant instance to write down)
                    out.append(dict(shape=shape, b1=b1, b2=b2, order=[], compiled=True))
    rng.shuffle(out)
    return out[:count]


def main():
    if sys.argv[1] == 'replay':
        sc = json.load(open(sys.argv[2]))
        sc = sc.get('scenario', sc)
        ok, detail = run(sc)
        print(json.dumps(dict(ok=ok, detail=detail)))
        sys.exit(0 if ok else 1)
    seed, count = int(sys.argv[2]), int(sys.argv[3])
    fails, n, nontriv = [], 0, set()
    scs = scenarios(seed, count)
    for sc in scs:
        ok, detail = run(sc)
        n += 1
        if sc.get('kind') in ('bound_arg', 'link') or sc['b1'] != sc['b2']:
            nontriv.add(json.dumps(sc, sort_keys=True))
        if not ok and len(fails) < 20:
            fails.append(dict(scenario=sc, detail=detail))
    print(json.dumps(dict(evaluations=n, distinct_nontrivial=len(nontriv), failures=fails, failure_count=len(fails), samples=scs[:3],
                          exhaustive=count >= 716,
                          rule='16 fact shapes (variables at depth 0-2, repeated, two variables, lists with an open tail) x 3x3 constant choices for the two uses x 4 interleavings '
                               '+ compiled conjunction (684 scenarios) + 32 facts asserted through the API with a bound variable argument (value kind x chain x later rebinding x position), shuffled by seed; non-trivial = the two uses bind the fact variables differently')))


if __name__ == '__main__':
    main()
