"""Differential tester: reference interpreter (oracle) vs the real yldprolog engine.

    python diff.py --family F1|F2|F3|F4|F5 --seed N --count N [--exhaustive]
                   [--max-depth D] --out result.json

For every case both engines are run and the full ordered answer lists (canon
form: order, multiplicity, bindings up to variable renaming) are compared; for
F4 the database contents are compared after every step as well.  Mismatches are
data: the exit code is 0 unless the driver itself crashes.
"""

import argparse
import json
import os
import re
import signal
import sys
import time

_here = os.path.dirname(os.path.abspath(__file__))
if _here not in sys.path:
    sys.path.insert(0, _here)

import gen                                                     # noqa: E402
from terms import (to_source, goal_to_source, term_to_source, answer_to_source, canon,   # noqa: E402
                   name_arity)
from ref_interp import RefEngine, RefLimit, facts_native       # noqa: E402
import real_engine                                             # noqa: E402
from real_engine import RealEngine, exc_entry                  # noqa: E402

RULES = {
    "F1": "pure SLD resolution: for every query the ordered list of answers (bindings of the query "
          "variables up to variable renaming, with multiplicity) of the engine equals the reference",
    "F2": "control constructs (, ; -> \\+ ! true fail): ordered answer lists of t/k and of its caller "
          "top/k equal the reference (cut is clause-local, transparent to , ; and then/else branches)",
    "F3": "meta-call builtins call/N, once/1, findall/3 with inline, run-time bound and atom goals: "
          "ordered answer lists equal the reference and no exception escapes",
    "F4": "dynamic database (assertz/asserta/retract/retractall; logical update view; stored facts are "
          "copies): answers of every step and the database contents after every step equal the reference",
    "F5": "fact predicates re-implemented as registered python generator functions are "
          "indistinguishable from the compiled facts: ordered answer lists equal the reference",
}

STEP_LIMIT = 20000
MAX_ANSWERS = 60
REAL_TIMEOUT = 3.0


class _Timeout(Exception):
    pass


def _on_alarm(signum, frame):
    raise _Timeout("real engine exceeded %.1fs" % REAL_TIMEOUT)


def timed(f, *args, **kw):
    """run f under a CPU-time limit (ITIMER_VIRTUAL: not affected by the load of the machine); f itself catches Exception, so a timeout
    inside the real engine shows up as an ("EXC","_Timeout",..) entry"""
    signal.setitimer(signal.ITIMER_VIRTUAL, REAL_TIMEOUT)
    try:
        return f(*args, **kw)
    except _Timeout as e:
        return [exc_entry(e)]
    finally:
        signal.setitimer(signal.ITIMER_VIRTUAL, 0)


# ------------------------------------------------------------------ comparison
def show(answers):
    return [answer_to_source(a) for a in answers]


def is_exc(a):
    return bool(a) and a[0] == "EXC"


def same(expected, observed):
    if expected == observed:
        return True
    # both ended in an error after the same answers: standard Prolog raises an
    # error there and so did the engine (the kind of exception is not compared)
    if expected and observed and is_exc(expected[-1]) and is_exc(observed[-1]):
        return expected[:-1] == observed[:-1]
    return False


_NORM = re.compile(r"\d+|(?<=Unknown predicate: )[^/]+")


def _blur(answers):
    """answers with every variable replaced by the same marker"""
    from terms import map_vars
    return [a if is_exc(a) else tuple(map_vars(t, lambda v: ("var", "_")) for t in a) for a in answers]


def classify(expected, observed, what="answers"):
    if observed and is_exc(observed[-1]):
        e = observed[-1]
        return "%s: EXC %s: %s" % (what, e[1], _NORM.sub("#", e[2])[:70])
    if expected and is_exc(expected[-1]):
        return "%s: reference raises %s, engine does not" % (what, expected[-1][1])
    se, so = sorted(map(repr, expected)), sorted(map(repr, observed))
    if se == so:
        return "%s: same answers, different order" % what
    if len(observed) < len(expected):
        # subsequence?
        it = iter(expected)
        if all(any(x == y for y in it) for x in observed):
            return "%s: answers missing" % what
        return "%s: fewer answers, some different" % what
    if len(observed) > len(expected):
        it = iter(observed)
        if all(any(x == y for y in it) for x in expected):
            return "%s: extra answers" % what
        return "%s: more answers, some different" % what
    if _blur(expected) == _blur(observed):
        return "%s: same answers except for variable sharing (aliasing)" % what
    return "%s: same number of answers, different bindings" % what


# ---------------------------------------------------------------- case runners
class Result(object):
    def __init__(self):
        self.evaluations = 0
        self.skipped = 0
        self.mismatches = []
        self.mismatch_count = 0
        self.classes = {}
        self.class_examples = {}
        self.nontrivial = set()
        self.both_error = 0
        self.sto_evaluations = 0
        self.samples = []

    def mismatch(self, case, source, query, expected, observed, what="answers", step=None):
        self.mismatch_count += 1
        label = classify(expected, observed, what)
        self.classes[label] = self.classes.get(label, 0) + 1
        rec = {"id": case.id, "class": label, "source": source, "query": query,
               "expected": show(expected), "observed": show(observed)}
        if step is not None:
            rec["step"] = step
        if len(self.mismatches) < 50:
            self.mismatches.append(rec)
        old = self.class_examples.get(label)
        size = len(source) + len(query)
        if old is None or size < old[0]:
            self.class_examples[label] = (size, rec)


def full_source(case, program=None):
    src = to_source(case.program if program is None else program)
    for extra, ow in case.more:
        src += "%% --- consulted next with overwrite=%s\n" % ow + to_source(extra)
    return src


def make_ref(case):
    ref = RefEngine()
    ref.check_sto = True
    ref.consult(case.program)
    for extra, ow in case.more:
        ref.consult(extra, overwrite=ow)
    return ref


def make_real(case, program):
    real = RealEngine()
    real.consult(program)
    for extra, ow in case.more:
        real.consult(extra, overwrite=ow)
    return real


def run_query_case(case, res):
    """F1 F2 F3 F5: independent queries on one loaded program"""
    src = full_source(case)
    ref = make_ref(case)
    expected = []
    sto = []
    for q in case.queries:
        try:
            expected.append(ref.answers(q, max_answers=MAX_ANSWERS, step_limit=STEP_LIMIT))
        except RefLimit:
            expected.append(None)
        sto.append(bool(ref.sto))
    program = case.program
    if case.swap:
        # self check of the oracle: natives instead of facts give the same answers
        program = gen.strip_predicates(case.program, set(case.swap))
        ref2 = RefEngine()
        ref2.consult(program)
        for extra, ow in case.more:
            ref2.consult(extra, overwrite=ow)
        for (name, ar), rows in case.swap.items():
            ref2.register_native(name, ar, facts_native(rows))
        for q, exp in zip(case.queries, expected):
            if exp is not None:
                try:
                    got = ref2.answers(q, max_answers=MAX_ANSWERS, step_limit=STEP_LIMIT * 2)
                except RefLimit:        # (natives resolve their arguments: cyclic terms)
                    continue
                assert got == exp, "oracle self check failed: " + case.id
        src = full_source(case, program) + "".join(
            "%% native %s/%d rows %s\n" % (n, a, "; ".join("(" + ",".join(term_to_source(t, True) for t in r) + ")"
                                                          for r in rows))
            for (n, a), rows in sorted(case.swap.items()))
    try:
        real = timed(make_real, case, program)
        if isinstance(real, list):
            raise _Timeout(real[0][2])
        if case.swap:
            for (name, ar), rows in case.swap.items():
                real.register_facts(name, rows)
    except Exception as e:
        nq = sum(1 for x in expected if x is not None)
        res.evaluations += nq
        res.skipped += len(expected) - nq
        if any(expected):
            res.nontrivial.add(src)
        res.mismatch(case, src, "<consult>", [], [exc_entry(e)], what="consult")
        res.mismatch_count += max(0, nq - 1)      # every query of the case is lost
        res.classes[classify([], [exc_entry(e)], "consult")] += max(0, nq - 1)
        return
    for q, exp, is_sto in zip(case.queries, expected, sto):
        if exp is None:
            res.skipped += 1
            continue
        res.evaluations += 1
        res.sto_evaluations += is_sto
        obs = timed(real.answers, q, max_answers=MAX_ANSWERS)
        qs = goal_to_source(q)
        if exp or case.special:
            res.nontrivial.add(src + "?- " + qs)
        if exp and exp and is_exc(exp[-1]) and obs and is_exc(obs[-1]) and exp[:-1] == obs[:-1]:
            res.both_error += 1
        if not same(exp, obs):
            # a unification built a cyclic term on the way (ISO: undefined)
            res.mismatch(case, src, qs, exp, obs, what="STO(cyclic term) answers" if is_sto else "answers")
        if len(res.samples) < 4 and exp and not case.id.endswith("-0"):
            if all(s["id"] != case.id for s in res.samples):
                res.samples.append({"id": case.id, "source": src, "query": qs,
                                    "expected": show(exp), "observed": show(obs)})


def _db_dump(engine, keys):
    out = {}
    for name, ar in keys:
        out["%s/%d" % (name, ar)] = engine.facts(name, ar)
    return out


def _real_db_dump(real, keys):
    out = {}
    for name, ar in keys:
        out["%s/%d" % (name, ar)] = timed(real.facts, name, ar)
    return out


def _compare_db(case, res, src, stepdesc, step, ref, real):
    e = _db_dump(ref, case.dbkeys)
    o = _real_db_dump(real, case.dbkeys)
    ok = True
    for k in e:
        if e[k] != o[k]:
            ok = False
            res.mismatch(case, src, "%s  [database %s afterwards]" % (stepdesc, k), e[k], o[k],
                         what="db", step=step)
    return ok


def run_db_case(case, res):
    """F4: steps run in order on one engine, database compared after each"""
    src = full_source(case)
    ref = make_ref(case)
    try:
        real = timed(make_real, case, case.program)
        if isinstance(real, list):
            raise _Timeout(real[0][2])
    except Exception as e:
        res.evaluations += 1
        res.mismatch(case, src, "<consult>", [], [exc_entry(e)], what="consult")
        return
    steps = [("query", q) for q in case.queries] if case.history is None else case.history
    if case.history is not None:
        src = "% API history\n" + "\n".join("%% %d: %s" % (i, _op_text(op)) for i, op in enumerate(steps))
    res.nontrivial.add(src + repr(steps))
    for i, op in enumerate(steps):
        kind = op[0]
        desc = _op_text(op)
        res.evaluations += 1
        try:
            if kind == "query":
                exp = ref.answers(op[1], max_answers=MAX_ANSWERS, step_limit=STEP_LIMIT)
                obs = timed(real.answers, op[1], max_answers=MAX_ANSWERS)
            elif kind in ("assertz", "asserta"):
                getattr(ref, kind)(op[1])
                exp = [()]
                try:
                    getattr(real, kind)(op[1])
                    obs = [()]
                except Exception as e:
                    obs = [exc_entry(e)]
            elif kind == "retract":
                k = op[2]
                exp = []
                g = ref.retract(op[1])
                if k is None or k > 0:
                    for t in g:
                        exp.append(canon((t,)))
                        if k is not None and len(exp) >= k:
                            break
                g.close()
                obs = timed(real.retract, op[1], k)
            elif kind == "retractall":
                ref.retractall(op[1])
                exp = [()]
                obs = timed(real.retractall, op[1])
            elif kind == "clear":
                ref.clear()
                exp = [()]
                try:
                    real.clear()
                    obs = [()]
                except Exception as e:
                    obs = [exc_entry(e)]
            else:
                raise ValueError(kind)
        except RefLimit:
            res.skipped += 1
            return          # engine states may have diverged: stop the case
        if not same(exp, obs):
            res.mismatch(case, src, desc, exp, obs, step=i)
        # keep going after an answer mismatch as long as the databases agree
        ok = _compare_db(case, res, src, desc, i, ref, real)
        if len(res.samples) < 4 and i >= 2 and all(s["id"] != case.id for s in res.samples):
            res.samples.append({"id": case.id, "source": src, "query": desc, "expected": show(exp),
                                "observed": show(obs), "db_after": {k: show(v) for k, v in _db_dump(ref, case.dbkeys).items()}})
        if not ok:
            return          # the databases diverged: later steps are not meaningful


def _op_text(op):
    kind = op[0]
    if kind == "query":
        return "?- " + goal_to_source(op[1])
    if kind == "retract":
        return "api retract(%s) take %s" % (term_to_source(op[1]), "all" if op[2] is None else op[2])
    if kind == "clear":
        return "api clear()"
    return "api %s(%s)" % (kind, term_to_source(op[1]))


# ------------------------------------------------------------------------ main
def run(family, seed, count, exhaustive=False, max_depth=None, limit=None):
    res = Result()
    t0 = time.time()
    ncases = 0
    for case in gen.cases(family, seed, count, exhaustive, max_depth):
        if limit is not None and ncases >= limit:
            break
        ncases += 1
        if family == "F4":
            run_db_case(case, res)
        else:
            run_query_case(case, res)
    dt = time.time() - t0
    examples = {k: v[1] for k, v in sorted(res.class_examples.items())}
    return {
        "family": family,
        "seed": seed,
        "exhaustive": bool(exhaustive),
        "cases": ncases,
        "evaluations": res.evaluations,
        "distinct_nontrivial": len(res.nontrivial),
        "rule": RULES[family],
        "mismatch_count": res.mismatch_count,
        "classes": dict(sorted(res.classes.items(), key=lambda kv: -kv[1])),
        "class_examples": examples,
        "mismatches": res.mismatches,
        "samples": res.samples,
        "skipped": res.skipped,
        "both_error": res.both_error,
        "sto_evaluations": res.sto_evaluations,
        "seconds": round(dt, 2),
        "evaluations_per_second": round(res.evaluations / dt, 1) if dt > 0 else None,
        "engine": real_engine.YLD_FILE,
    }


def main(argv=None):
    ap = argparse.ArgumentParser(description=__doc__)
    ap.add_argument("--family", required=True, choices=["F1", "F2", "F3", "F4", "F5"])
    ap.add_argument("--seed", type=int, default=0)
    ap.add_argument("--count", type=int, default=1000)
    ap.add_argument("--exhaustive", action="store_true")
    ap.add_argument("--max-depth", type=int, default=None)
    ap.add_argument("--limit", type=int, default=None, help="stop after this many cases (exhaustive mode)")
    ap.add_argument("--out", required=True)
    a = ap.parse_args(argv)
    signal.signal(signal.SIGVTALRM, _on_alarm)
    out = run(a.family, a.seed, a.count, a.exhaustive, a.max_depth, a.limit)
    with open(a.out, "w") as f:
        json.dump(out, f, indent=1)
    print("%s seed=%d cases=%d evaluations=%d nontrivial=%d mismatches=%d skipped=%d  %.1fs (%.0f eval/s)" % (
        out["family"], out["seed"], out["cases"], out["evaluations"], out["distinct_nontrivial"],
        out["mismatch_count"], out["skipped"], out["seconds"], out["evaluations_per_second"] or 0))
    for k, v in out["classes"].items():
        print("   %6d  %s" % (v, k))
    return 0


if __name__ == "__main__":
    sys.exit(main())
