"""Hand-checked semantics cases for RefEngine.  Run:  /venv/bin/python test_ref.py
Every expected answer list was worked out by hand from standard Prolog
semantics (ISO control constructs, logical update view)."""

import os
import sys

sys.path.insert(0, os.path.dirname(os.path.abspath(__file__)))

from terms import (answer_to_source, to_source, goal_to_source, term_to_source, canon,
                   vars_of, mklist, list_items, is_list, atom, var, fun, int_)
from reader import parse_program, parse_goal, parse_term
from ref_interp import RefEngine, RefLimit, facts_native, unify_delta


def run(prog, goal, engine=None, **kw):
    e = engine or RefEngine()
    if prog:
        e.consult(parse_program(prog))
    return [answer_to_source(a) for a in e.answers(parse_goal(goal), **kw)]


CASES = []


def case(name, prog, goal, expected):
    CASES.append((name, prog, goal, expected))


LISTS = """
member(X, [X|_]).
member(X, [_|T]) :- member(X, T).
append([], L, L).
append([H|T], L, [H|R]) :- append(T, L, R).
"""

# ------------------------------------------------------------------ plain SLD
case("facts in order", "p(1). p(2). p(3).", "p(X)", ["(1)", "(2)", "(3)"])
case("conjunction order", "p(1). p(2). q(a). q(b).", "p(X), q(Y)",
     ["(1, a)", "(1, b)", "(2, a)", "(2, b)"])
case("member", LISTS, "member(X, [a,b,c])", ["(a)", "(b)", "(c)"])
case("append split", LISTS, "append(X, Y, [a,b])",
     ["([], [a,b])", "([a], [b])", "([a,b], [])"])
case("append forward", LISTS, "append([a], [b,c], Z)", ["([a,b,c])"])
case("repeated head var", "same(X, X).", "same(f(A), f(b))", ["(b)"])
case("repeated head var fails", "same(X, X).", "same(a, b)", [])
case("aliasing is visible", "same(X, X).", "same(A, B)", ["(_G0, _G0)"])
case("anonymous vars are distinct", "p(_, _).", "p(a, b)", ["()"])
case("unknown predicate fails", "p(1).", "nosuch(X)", [])
case("zero arity", "r :- s. s.", "r", ["()"])
case("no occurs check", "", "X = f(Y), Y = a", ["(f(a), a)"])
case("not unifiable", "", "f(X, b) \\= f(a, X)", ["(_G0)"])
case("\\= leaves no bindings", "", "X \\= a ; X = b", ["(b)"])
case("\\= fails when unifiable", "", "X \\= a", [])
case("fact with variable is renamed", "p(X, Y).", "p(A, B), A = 1", ["(1, _G0)"])

# ------------------------------------------------------------------------ cut
CUTP = """
a(1). a(2). b(1). b(2).
t1(X) :- a(X), !.
t1(9).
t2(X, Y) :- a(X), !, b(Y).
t2(9, 9).
t3(X) :- a(X).
t3(X) :- !, b(X).
t3(7).
t4(X) :- ( a(X), ! ; b(X) ).
t4(8).
t5(X) :- ( a(X) ; ! , b(X) ).
t5(8).
t6(X) :- ( true -> a(X), ! ; b(X) ).
t6(8).
t7(X) :- ( fail -> true ; a(X), ! ).
t7(8).
t8(X) :- ( a(X), ! -> true ; b(X) ).
t8(8).
t9(X) :- \\+ ( a(X), !, fail ).
t9(8).
t10(X) :- call(t1(X)).
t11(X) :- a(X), once(c11(X)).
c11(2).
top(X) :- a(_), t1(X).
"""
case("cut after first solution", CUTP, "t1(X)", ["(1)"])
case("cut keeps right goals", CUTP, "t2(X, Y)", ["(1, 1)", "(1, 2)"])
case("cut in second clause", CUTP, "t3(X)", ["(1)", "(2)", "(1)", "(2)"])
case("cut through ; left", CUTP, "t4(X)", ["(1)"])
case("cut through ; right", CUTP, "t5(X)", ["(1)", "(2)", "(1)", "(2)"])
case("cut in then branch", CUTP, "t6(X)", ["(1)"])
case("cut in else branch", CUTP, "t7(X)", ["(1)"])
case("cut in condition is local", CUTP, "t8(X)", ["(1)", "(8)"])
case("cut under \\+ is local", CUTP, "t9(X)", ["(_G0)", "(8)"])
case("cut does not leak to caller", CUTP, "top(X)", ["(1)", "(1)"])
case("cut in called clause is local", CUTP, "t10(X), a(Y)", ["(1, 1)", "(1, 2)"])
case("once in the middle", CUTP, "t11(X)", ["(2)"])
case("toplevel cut", CUTP, "a(X), !", ["(1)"])

# ----------------------------------------------------------- if-then-else, \+
ITE = "a(1). a(2). b(1). c(3)."
case("ite takes first cond answer only", ITE, "( a(X) -> Y = t ; Y = e )", ["(1, t)"])
case("ite else", ITE, "( a(5) -> Y = t ; Y = e )", ["(e)"])
case("ite then backtracks", ITE, "( b(_) -> a(X) ; X = e )", ["(1)", "(2)"])
case("ite else backtracks", ITE, "( fail -> true ; a(X) )", ["(1)", "(2)"])
case("if-then without else fails", ITE, "( a(5) -> Y = t ), Y = t", [])
case("if-then without else succeeds", ITE, "( a(X) -> Y = t )", ["(1, t)"])
case("cond bindings undone for else", ITE, "( X = 1, fail -> true ; true )", ["(_G0)"])
case("nested ite", ITE, "( a(X) -> ( b(X) -> Y = in ; Y = out ) ; Y = none )", ["(1, in)"])
case("; with -> only on the right is a plain disjunction", ITE,
     "( X = l ; a(5) -> X = t )", ["(l)"])
case("-> ; chain", ITE, "( a(5) -> X = p ; b(2) -> X = q ; X = r )", ["(r)"])
case("negation succeeds without bindings", ITE, "\\+ a(5), X = ok", ["(ok)"])
case("negation fails", ITE, "\\+ a(X)", [])
case("double negation leaves unbound", ITE, "\\+ \\+ a(X)", ["(_G0)"])
case("disjunction order", ITE, "( a(X) ; c(X) ; b(X) )", ["(1)", "(2)", "(3)", "(1)"])
case("fail in the middle", ITE, "a(X), fail", [])
case("true is neutral", ITE, "true, b(X), true", ["(1)"])

# ----------------------------------------------------------------------- meta
META = """
n(1). n(2). n(3).
pair(a, 1). pair(b, 2).
foo.
w(X) :- G = n(X), call(G).
vals(K, L) :- findall(V, pair(K, V), L).
"""
case("call/1", META, "call(n(X))", ["(1)", "(2)", "(3)"])
case("call/1 bound var", META, "G = n(X), call(G)", ["(n(1), 1)", "(n(2), 2)", "(n(3), 3)"])
case("call in clause", META, "w(X)", ["(1)", "(2)", "(3)"])
case("call/2 atom goal", META, "call(n, X)", ["(1)", "(2)", "(3)"])
case("call/2 extra arg appended", META, "call(pair(b), X)", ["(2)"])
case("call/3", META, "call(pair, X, 2)", ["(b)"])
case("call atom", META, "call(foo)", ["()"])
case("call of builtin", META, "call('=', X, a)", ["(a)"])
case("call unknown fails", META, "call(bar)", [])
case("once", META, "once(n(X))", ["(1)"])
case("once failing goal just fails", META, "once(n(7))", [])
case("once failing then alternative", META, "( once(n(7)) ; X = alt )", ["(alt)"])
case("findall many", META, "findall(X, n(X), L)", ["(_G0, [1,2,3])"])
case("findall none", META, "findall(X, n(7), L)", ["(_G0, [])"])
case("findall template structure", META, "findall(p(K, V), pair(K, V), L)",
     ["(_G0, _G1, [p(a,1),p(b,2)])"])
case("findall bound goal", META, "G = pair(_, V), findall(V, G, L)",
     ["(pair(_G0,_G1), _G1, [1,2])"])
case("findall checks the bag", META, "findall(X, n(X), [A, B])", [])
case("findall unifies the bag", META, "findall(X, n(X), [A|T])", ["(_G0, 1, [2,3])"])
case("cut inside once is local", CUTP, "a(X), once(b(_))", ["(1)", "(2)"])
case("findall copies free variables", META, "findall(f(X, Y), n(X), L)",
     ["(_G0, _G1, [f(1,_G2),f(2,_G3),f(3,_G4)])"])
case("nested findall", META, "findall(L1, findall(V, pair(_, V), L1), L)", ["(_G0, _G1, [[1,2]])"])
case("findall in recursion", META, "pair(K, _), vals(K, L)", ["(a, [1])", "(b, [2])"])
case("findall with call/N goal", META, "findall(X, call(pair, X, _), L)", ["(_G0, [a,b])"])


def test_cases():
    bad = 0
    for name, prog, goal, expected in CASES:
        got = run(prog, goal, step_limit=100000)
        if got != expected:
            bad += 1
            print("FAIL %s\n   goal     %s\n   expected %s\n   got      %s" % (name, goal, expected, got))
    return bad, len(CASES)


# ------------------------------------------------------------ database / API
def test_db():
    n = 0
    e = RefEngine()
    e.consult(parse_program("""
        succ(0,1). succ(1,2). succ(2,3). succ(3,4).
        fill :- assertz(p(1)), assertz(p(2)), asserta(p(0)).
        drain :- p(X), retract(p(X)), fail.
        drain.
        grow :- p(X), succ(X, Y), assertz(p(Y)), fail.
        grow.
        inc :- retract(c(N)), succ(N, N1), assertz(c(N1)), fail.
        inc.
        gvar :- G = q(1), assertz(G), H = q(_), retract(H).
        share(X) :- assertz(s(X)), X = bound.
        flag_on :- assertz(flag).
        flag_off :- retract(flag).
    """))
    A = lambda g, **kw: [answer_to_source(a) for a in e.answers(parse_goal(g), step_limit=100000, **kw)]
    # 1 unknown dynamic predicate: plain failure, no error
    assert A("p(X)") == []; n += 1
    assert A("retract(p(X))") == []; n += 1
    assert A("retractall(p(_))") == ["()"]; n += 1
    # 2 assert order
    assert A("fill") == ["()"]; n += 1
    assert A("p(X)") == ["(0)", "(1)", "(2)"]; n += 1
    # 3 logical update view: a running enumeration does not see new facts
    assert A("grow") == ["()"]; n += 1
    assert A("p(X)") == ["(0)", "(1)", "(2)", "(1)", "(2)", "(3)"]; n += 1
    # 4 retract while enumerating the same predicate: every fact visited once
    assert A("drain") == ["()"]; n += 1
    assert A("p(X)") == []; n += 1
    # 5 retract enumerates and removes on backtracking
    assert A("fill") == ["()"]; n += 1
    assert A("retract(p(X))") == ["(0)", "(1)", "(2)"]; n += 1
    assert A("p(X)") == []; n += 1
    # 6 retract with max_answers: abandoned after the first answer
    assert A("fill") == ["()"]
    assert A("retract(p(X))", max_answers=1) == ["(0)"]; n += 1
    assert A("p(X)") == ["(1)", "(2)"]; n += 1
    # 7 retract only removes unifying facts, first one first
    assert A("retract(p(2))") == ["()"]; n += 1
    assert A("p(X)") == ["(1)"]; n += 1
    # 8 counter loop: the retract snapshot does not contain the fact asserted meanwhile
    assert A("assertz(c(0))") == ["()"]
    assert A("inc") == ["()"]; n += 1
    assert A("c(X)") == ["(1)"]; n += 1
    # 9 goals in bound variables are dereferenced
    assert A("gvar") == ["()"]; n += 1
    assert A("q(X)") == []; n += 1
    # 10 a stored fact is a copy: later bindings do not affect it
    assert A("share(X)") == ["(bound)"]; n += 1
    assert A("s(X)") == ["(_G0)"]; n += 1
    assert A("s(a)") == ["()"]; n += 1
    # 11 zero arity facts
    assert A("flag") == []; n += 1
    assert A("flag_on, flag_on") == ["()"]
    assert A("flag") == ["()", "()"]; n += 1
    assert A("flag_off") == ["()", "()"]; n += 1
    assert A("flag") == []; n += 1
    # 12 retractall with a pattern
    A("assertz(r(a,1)), assertz(r(b,2)), assertz(r(a,3))")
    assert A("retractall(r(a,_))") == ["()"]; n += 1
    assert A("r(X,Y)") == ["(b, 2)"]; n += 1
    # 13 dynamic facts come before static clauses
    e.consult(parse_program("r(static, 0)."))
    assert A("r(X,_)") == ["(b)", "(static)"]; n += 1
    # 14 retract skips facts that were removed since the snapshot
    A("retractall(r(_,_)), assertz(r(a,1)), assertz(r(b,2)), assertz(r(c,3))")
    assert A("retract(r(X,_)), retractall(r(b,_))") == ["(a)", "(c)"]; n += 1
    # 15 API
    e2 = RefEngine()
    e2.assertz(parse_term("k(1)")); e2.assertz(parse_term("k(X)")); e2.asserta(parse_term("k(0)"))
    assert [answer_to_source(a) for a in e2.answers(parse_goal("k(X)"))] == ["(0)", "(1)", "(_G0)"]; n += 1
    assert [term_to_source(t) for t in e2.retract(parse_term("k(1)"))] == ["k(1)", "k(1)"]; n += 1
    assert e2.facts("k", 1) == [canon((parse_term("k(0)"),))]; n += 1
    g = e2.retract(parse_term("zzz(1)"))
    assert list(g) == []; n += 1
    assert e2.retractall(parse_term("zzz(_)")) is True; n += 1
    return n


def test_consult_groups():
    n = 0
    e = RefEngine()
    e.consult(parse_program("p(1). q(a). p(2) :- !. p(3)."))
    A = lambda g: [answer_to_source(a) for a in e.answers(parse_goal(g), step_limit=10000)]
    assert A("p(X)") == ["(1)", "(2)"]; n += 1          # non contiguous clauses: one group
    e.consult(parse_program("p(4). p(5)."), overwrite=False)
    assert A("p(X)") == ["(1)", "(2)", "(4)", "(5)"]; n += 1   # cut is local to its group
    e.consult(parse_program("p(6)."))
    assert A("p(X)") == ["(6)"]; n += 1                  # overwrite replaces only p/1
    assert A("q(X)") == ["(a)"]; n += 1
    # natives
    e.register_native("nat", 2, facts_native([(int_(1), atom("a")), (int_(2), var("V"))]))
    assert A("nat(X, Y)") == ["(1, a)", "(2, _G0)"]; n += 1
    assert A("nat(2, z)") == ["()"]; n += 1
    assert A("nat(X, Y), !") == ["(1, a)"]; n += 1
    e.register_native("vn", None, lambda eng, args, s: [{}] if len(args) == 3 else [])
    assert A("vn(1,2,3)") == ["()"]; n += 1
    assert A("vn(1,2)") == []; n += 1
    e.consult(parse_program("vn(x, y)."))
    assert A("vn(A, B)") == ["(x, y)"]; n += 1           # exact arity definition wins
    e.register_native("an", 2, facts_native([(var("_"), var("_"))]))
    assert A("an(X, Y)") == ["(_G0, _G1)"]; n += 1       # every `_` of a row is its own variable
    e.register_native("p", 1, facts_native([(int_(7),)]))
    assert A("p(X)") == ["(7)"]; n += 1                  # registration replaces
    return n


def test_deep_and_limits():
    n = 0
    e = RefEngine()
    e.consult(parse_program(LISTS + """
        len([], z).
        len([_|T], s(N)) :- len(T, N).
        loop :- loop.
        nat(z). nat(s(N)) :- nat(N).
    """))
    big = mklist([atom("a")] * 5000)
    ans = e.answers(("call", fun("len", big, var("N"))), step_limit=10 ** 6)
    assert len(ans) == 1; n += 1
    d = 0
    t = ans[0][0]
    while t[0] == "fun":
        t = t[2][0]
        d += 1
    assert d == 5000; n += 1
    try:
        e.answers(parse_goal("loop"), step_limit=5000)
        assert False
    except RefLimit:
        n += 1
    assert len(e.answers(parse_goal("nat(X)"), max_answers=5)) == 5; n += 1
    e.check_sto = True
    assert e.answers(parse_goal("X = f(X), fail")) == [] and e.sto; n += 1     # cyclic binding is reported
    assert len(e.answers(parse_goal("X = f(Y), Y = a"))) == 1 and not e.sto; n += 1
    try:
        e.answers(parse_goal("X = f(X)"))          # the answer itself is cyclic: cannot be written
        assert False
    except RefLimit:
        n += 1
    try:
        e.answers(parse_goal("nat(X), fail"), depth_limit=50)
        assert False
    except RefLimit:
        n += 1
    return n


def test_printer():
    n = 0
    src = """p(X,_,'hello world','It\\'s',[a,b|T],[],[x],f(Y,'true'),'_u',12) :- a, (b ; c -> d), \\+ (e, f), \\+ g, X = Y, X \\= f((a = b)).
q :- (a -> b ; c) ; d.
q :- a -> (b ; c).
q :- (a ; b) ; c.
q :- (a -> b) -> c.
q :- a -> b -> c.
q :- (a , b) , c, !.
q :- (a ; b), (c -> d), true, fail.
r.
"""
    prog = parse_program(src)
    text = to_source(prog)
    assert parse_program(text) == prog; n += 1
    assert "\\+ (e, f)" in text and "\\+ g" in text; n += 1
    assert "(a -> b ; c) ; d" in text; n += 1
    assert "q :- a -> b -> c." in text and "q :- (a -> b) -> c." in text; n += 1
    assert term_to_source(("fun", ".", (atom("a"), atom("b")))) == "'.'(a,b)"; n += 1
    assert term_to_source(atom("fail")) == "'fail'"; n += 1
    assert term_to_source(atom("Abc")) == "'Abc'"; n += 1
    for bad in (atom("a\\b"), var("x"), int_(-1)):
        try:
            term_to_source(bad)
            assert False
        except ValueError:
            n += 1
    assert canon((var("B"), fun("f", var("A"), var("B")))) == (var("_G0"), fun("f", var("_G1"), var("_G0"))); n += 1
    assert vars_of(parse_goal("p(X, _, Y), q(Y, X, Z)")) == [var("X"), var("Y"), var("Z")]; n += 1
    assert list_items(mklist([atom("a"), int_(1)])) == [atom("a"), int_(1)] and is_list(mklist([])); n += 1
    assert unify_delta(parse_term("f(X, b)"), parse_term("f(a, Y)")) == {var("X"): atom("a"), var("Y"): atom("b")}; n += 1
    return n


if __name__ == "__main__":
    bad, total = test_cases()
    extra = test_db() + test_consult_groups() + test_deep_and_limits() + test_printer()
    print("semantics cases: %d/%d ok; further asserts passed: %d" % (total - bad, total, extra))
    sys.exit(1 if bad else 0)
