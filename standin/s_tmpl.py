"""Bounded check of the TEMPLATE DISCIPLINE of emitted code (C03, C20; DESIGN 5/C03): every emitted function
consists of for-loops whose iterable is a call of query()/unify() (or the literal [1]), flag assignments, yield,
break, return, pass and if on flags; a call of query()/unify() occurs ONLY as the iterable of a for (so the
iterator is owned by the loop and finalised when the loop is left); there is no try/with/while; loop variables
lN are never read (yielded values are never inspected); nothing but `yield False`/`yield True` is yielded.

  s_tmpl.py run <seed> <count>      s_tmpl.py replay <file>
"""
import ast
import json
import os
import sys

HERE = os.path.dirname(os.path.abspath(__file__))
sys.path.insert(0, HERE)
sys.path.insert(0, os.environ.get('YLD_REPO_SRC', '/repo/src'))
import gen  # noqa
from terms import to_source  # noqa
from yldprolog.compiler import compile_prolog_from_string  # noqa

ITER_FUNCS = {'query', 'unify'}
ALLOWED_STMT = (ast.For, ast.If, ast.Assign, ast.Expr, ast.Return, ast.Break, ast.Pass)


def check_function(fn):
    problems = []
    loopvars = set()
    for node in ast.walk(fn):
        if isinstance(node, ast.For):
            it = node.iter
            ok = (isinstance(it, ast.Call) and isinstance(it.func, ast.Name) and it.func.id in ITER_FUNCS) or \
                 (isinstance(it, ast.List) and len(it.elts) == 1 and isinstance(it.elts[0], ast.Constant))
            if not ok:
                problems.append('for over %s' % ast.unparse(it)[:40])
            if node.orelse:
                problems.append('for/else')
            if isinstance(node.target, ast.Name):
                loopvars.add(node.target.id)
        elif isinstance(node, (ast.Try, ast.With, ast.While, ast.Lambda, ast.ListComp, ast.GeneratorExp, ast.Await,
                               ast.YieldFrom, ast.Global, ast.Nonlocal, ast.Import, ast.ImportFrom, ast.Attribute,
                               ast.Subscript, ast.Starred, ast.Delete, ast.AugAssign, ast.ClassDef)):
            problems.append('forbidden construct %s' % type(node).__name__)
        elif isinstance(node, ast.stmt) and not isinstance(node, ALLOWED_STMT + (ast.FunctionDef,)):
            problems.append('statement %s' % type(node).__name__)
        elif isinstance(node, ast.Yield):
            if not (isinstance(node.value, ast.Constant) and node.value.value in (True, False)):
                problems.append('yield of %s' % ast.unparse(node)[:30])
    # iterator-producing calls only as for iterables
    iters = {id(n.iter) for n in ast.walk(fn) if isinstance(n, ast.For)}
    for node in ast.walk(fn):
        if isinstance(node, ast.Call) and isinstance(node.func, ast.Name) and node.func.id in ITER_FUNCS and id(node) not in iters:
            problems.append('iterator %s not owned by a for loop' % ast.unparse(node)[:40])
        if isinstance(node, ast.Name) and isinstance(node.ctx, ast.Load) and node.id in loopvars and node.id != '_':
            problems.append('loop variable %s is read' % node.id)
        if isinstance(node, ast.If):
            t = node.test
            if not (isinstance(t, ast.Name) or (isinstance(t, ast.Constant) and t.value in (True, False))):
                problems.append('if on %s' % ast.unparse(t)[:30])
    return problems


def check_source(src):
    try:
        code = compile_prolog_from_string(src)
    except Exception as e:  # rejected programs are not this check's business
        return None, 'rejected: %s' % type(e).__name__
    try:
        tree = ast.parse(code)
    except SyntaxError as e:
        return ['output does not parse: %s' % e], code
    probs = []
    for n in tree.body:
        if isinstance(n, ast.FunctionDef):
            probs.extend('%s: %s' % (n.name, p) for p in check_function(n))
        else:
            probs.append('top-level %s' % type(n).__name__)
    return probs, code


def main():
    if sys.argv[1] == 'replay':
        sc = json.load(open(sys.argv[2]))
        sc = sc.get('scenario', sc)
        probs, _ = check_source(sc['source'])
        print(json.dumps(dict(ok=not probs, problems=probs)))
        sys.exit(1 if probs else 0)
    seed, count = int(sys.argv[2]), int(sys.argv[3])
    fails, n, nontriv, samples = [], 0, set(), []
    for fam in ('F1', 'F2', 'F3', 'F4'):
        for case in gen.cases(fam, seed, max(1, count // 4)):
            try:
                src = to_source(case.program)
            except ValueError:
                continue
            probs, info = check_source(src)
            n += 1
            if probs is None:
                continue
            if 'for l' in (info or ''):
                nontriv.add(src)
            if len(samples) < 2 and n % 50 == 7:
                samples.append(dict(source=src[:400]))
            if probs:
                fails.append(dict(scenario=dict(source=src), detail='; '.join(probs[:5])))
    print(json.dumps(dict(evaluations=n, distinct_nontrivial=len(nontriv), failures=fails[:20], failure_count=len(fails), samples=samples,
                          rule='programs of gen families F1-F4 (seed, count/4 each) compiled with the real compiler; every emitted function '
                               'checked against the template discipline; non-trivial = distinct program whose output contains a goal loop')))


if __name__ == '__main__':
    main()
