"""s_c17 - bounded stand-in for "evaluate_bounded returns a prefix of the answers and restores the interpreter".

  python s_c17.py run <seed> <count>      python s_c17.py replay <file.json>

Cases: count//2 F1 programs of gen (seed = <seed>): every query x 2 drawn (limit, projection) pairs; and
count - count//2 drawn scenarios over the programs  down/1, len/2, add/3 (depth parameter N in {10,50,200,1000} or
drawn from 5..300),  leftrec `p(X) :- p(X). p(a).`,  leftrec2 `p(a). p(X) :- p(X).`,  nat `nat(z). nat(s(X)) :- nat(X).`
x limit in {60,100,200,400} (or drawn from 60..400) x projection in
  canon     own dereferencing walk over the query variables      to_python   tuple(to_python(v))
  raise@k   raises ProjError (an Exception subclass) at the k-th answer
  runtime@k raises a plain RuntimeError('user') at the k-th answer       stop@k   raises StopIteration at the k-th answer
Each evaluate_bounded call is made from a fresh frame at a fixed driver depth B (measured), with
sys.getrecursionlimit() set to 3000 or 12000 before.
Oracle: the first 40 answers of the reference interpreter (iterative, needs no Python stack), projected the same way.
Checks: no exception escapes (except the projection's own); the result is a list and a prefix of the oracle sequence;
COMPLETENESS: the same call is run once under sys.setprofile with limit 11000 and the frame depth D_i (relative to
the caller) needed up to and including answer i (and D_end to finish) is recorded; answer i must be present when
B + D_i + 3 < limit, the result must be the whole sequence when B + D_end + 3 < limit (cases within +-3 frames of the
limit and cases that were not profiled - N > 300, left recursion - are only checked for prefix: borderline = no failure);
afterwards sys.getrecursionlimit() is what it was, every query variable and every Variable created during the call
is unbound, and a second identical call gives the same result.  Raising projections: the exception must come out of
evaluate_bounded unless the k-th answer is out of reach (then prefix rules apply), limit and variables as before.
non-trivial = at least one answer was projected, or the search was cut by the limit, or the projection raised.
"""
import random
import sys

import s_common as S
from s_common import (VarTracker, E, gen, T, Acc, digest, goal_to_source, case_source, prep_query, build_real,
                      build_ref, RefLimit, is_exc)

ORACLE_N = 40
LIMITS = (60, 100, 200, 400)
NS = (10, 50, 200, 1000)
MODES = ('canon', 'to_python', 'raise', 'runtime', 'stop', 'nested', 'none')
MARGIN = 3
RULE = __doc__.split('Cases:', 1)[1].strip()


class ProjError(Exception):
    pass


class _Enough(Exception):
    pass


def peano(n):
    t = T.atom('z')
    for _ in range(n):
        t = ('fun', 's', (t,))
    return t


X, Y, Z, N_, TT = T.var('X'), T.var('Y'), T.var('Z'), T.var('N'), T.var('T')
P, Q = T.var('P'), T.var('Q')
PROGRAMS = {
    'down': [(T.fun('down', T.atom('z')), T.TRUE), (T.fun('down', T.fun('s', X)), T.call(T.fun('down', X)))],
    'len': [(T.fun('len', T.NIL, T.atom('z')), T.TRUE),
            (T.fun('len', T.mklist([T.var('_')], TT), T.fun('s', N_)), T.call(T.fun('len', TT, N_)))],
    'add': [(T.fun('add', T.atom('z'), Y, Y), T.TRUE),
            (T.fun('add', T.fun('s', X), Y, T.fun('s', Z)), T.call(T.fun('add', X, Y, Z)))],
    'leftrec': [(T.fun('p', X), T.call(T.fun('p', X))), (T.fun('p', T.atom('a')), T.TRUE)],
    'leftrec2': [(T.fun('p', T.atom('a')), T.TRUE), (T.fun('p', X), T.call(T.fun('p', X)))],
    'nat': [(T.fun('nat', T.atom('z')), T.TRUE), (T.fun('nat', T.fun('s', X)), T.call(T.fun('nat', X)))],
}
# the depth limit strikes while a findall/3 goal is being enumerated (infinitely many answers / left recursion inside findall)
PROGRAMS['fa_nat'] = PROGRAMS['nat']
PROGRAMS['fa_leftrec'] = PROGRAMS['leftrec']


def goal_of(kind, n):
    if kind == 'down':
        return T.call(T.fun('down', peano(n)))
    if kind == 'len':
        return T.call(T.fun('len', T.mklist([T.atom('a')] * n), P))
    if kind == 'add':
        return T.call(T.fun('add', P, Q, peano(n)))
    if kind in ('leftrec', 'leftrec2'):
        return T.call(T.fun('p', P))
    if kind == 'fa_nat':
        return T.call(T.fun('findall', Q, T.fun('nat', Q), P))
    if kind == 'fa_leftrec':
        return T.call(T.fun('findall', Q, T.fun('p', Q), P))
    return T.call(T.fun('nat', P))


def depth_here():
    f = sys._getframe(1)
    n = 0
    while f is not None:
        n += 1
        f = f.f_back
    return n


def make_projection(mode, k, evars, log, yp=None, target=None):
    """log: list of projected values (appended before a raise is considered)"""
    def canon_p(_x):
        return S.snap(evars)

    def none_p(_x):
        # a projection function may return None (e.g. for an answer it has nothing to say about): the result still holds one
        # entry per answer
        v = S.snap(evars)
        return None if v == target else v
    if mode == 'none':
        return none_p

    def nested_p(_x):
        # a projection function that itself uses evaluate_bounded on the same engine (an inner call that completes while the
        # outer one is in progress): the outer call must still restore what was there before IT started
        v = S.snap(evars)
        yp.evaluate_bounded(yp.query('c17_no_such_predicate', []), lambda y: y, sys.getrecursionlimit() + 37)
        return v
    if mode == 'nested':
        return nested_p

    def py_p(_x):
        return tuple(E.to_python(v) for v in evars)
    base = py_p if mode == 'to_python' else canon_p
    if mode in ('canon', 'to_python'):
        return base
    exc = {'raise': ProjError('projection'), 'runtime': RuntimeError('user'), 'stop': StopIteration()}[mode]
    state = {'n': 0}

    def raising(x):
        state['n'] += 1
        if state['n'] == k:
            log.append('raised')
            raise exc
        return base(x)
    return raising


def bounded_call(yp, name, eargs, proj, limit):
    """the call under test, from a fresh frame; -> (B, outcome) outcome = ('ret', value) | ('exc', exception)"""
    b = depth_here()
    q = yp.query(name, eargs)
    try:
        return b, ('ret', yp.evaluate_bounded(q, proj, limit)), q
    except BaseException as e:          # noqa: anything that escapes is the observation
        if isinstance(e, (KeyboardInterrupt, S.Timeout)):
            raise
        return b, ('exc', e), q


def profile_depths(yp, name, eargs, evars, mode):
    """frame depth (relative to the caller of evaluate_bounded = this function's frame) needed up to answer i and to
    finish; -> (depths per answer, depth to finish or None when stopped after ORACLE_N answers)"""
    cur = [0]
    mx = [0]
    per = []

    def prof(frame, event, arg):
        if event == 'call':
            cur[0] += 1
            if cur[0] > mx[0]:
                mx[0] = cur[0]
        elif event == 'return':
            cur[0] -= 1

    base = make_projection('to_python' if mode == 'to_python' else 'canon', 0, evars, [])

    def proj(x):
        v = base(x)
        per.append(mx[0])
        if len(per) >= ORACLE_N:
            raise _Enough()
        return v
    q = yp.query(name, eargs)
    old = sys.getrecursionlimit()
    finished = True
    sys.setprofile(prof)
    try:
        yp.evaluate_bounded(q, proj, 11000)
    except _Enough:
        finished = False
    finally:
        sys.setprofile(None)
        sys.setrecursionlimit(old)
        close = getattr(q, 'close', None)       # harness housekeeping only: the query object need not be a generator
        if close is not None:
            close()
    return per, (mx[0] if finished else None)


def project_oracle(ans, mode):
    """what the projection gives for the canon answer tuple"""
    if mode == 'to_python':
        return tuple(S.py_of(t) for t in ans)
    return ans


def oracle_answers(ref, goal, diverges_ok):
    """first ORACLE_N canon answers of the reference interpreter; -> (answers, cut) cut = the search did not end
    within the step limit (only accepted for the known non-terminating programs: the answers so far are then a
    prefix of the answer sequence)"""
    from ref_interp import resolve, _anonymise, RefError
    qvars = S.vars_of(goal)
    g = ref.solve(_anonymise(goal, ref._anon), step_limit=60000 if diverges_ok else 400000)
    out = []
    cut = False
    try:
        for b in g:
            out.append(S.canon(tuple(resolve(v, b) for v in qvars)))
            if len(out) >= ORACLE_N:
                break
    except RefError as e:
        out.append(('EXC', e.kind, str(e)))
    except RefLimit:
        if not diverges_ok:
            raise
        cut = True
    finally:
        g.close()
    return out, cut


class Ctx(object):
    """program + query: engine, prepared query, oracle, depth profile (lazy)"""

    def __init__(self, real, ref, goal, profilable, diverges_ok=False, known=None):
        self.real = real
        self.goal = goal
        self.name, self.eargs, self.evars = prep_query(real, goal)
        if known is not None:
            self.oracle, cut = known        # closed form: (answers, search does not end)
        else:
            self.oracle, cut = oracle_answers(ref, goal, diverges_ok)
        self.complete = len(self.oracle) < ORACLE_N and not cut     # the oracle list is the whole answer sequence
        self.sto = bool(ref.sto)
        self.profilable = profilable
        self._prof = {}

    def depths(self, mode):
        key = 'to_python' if mode == 'to_python' else 'canon'
        if key not in self._prof:
            self._prof[key] = profile_depths(self.real.yp, self.name, self.eargs, self.evars, key) if self.profilable else None
        return self._prof[key]


def check_point(ctx, limit, mode, k, pre):
    """-> (ok, detail, nontrivial, info)"""
    yp = ctx.real.yp
    expected = ctx.oracle
    if expected and is_exc(expected[-1]):
        return None, 'skipped: reference raises', False, {}
    try:
        exp = [project_oracle(a, mode if mode == 'to_python' else 'canon') for a in expected]
    except TypeError:
        return None, 'skipped: partial list answer (to_python undefined)', False, {}
    log = []
    target = None
    if mode == 'none':
        target = expected[k - 1] if 0 < k <= len(expected) else ('no such answer',)
        exp = [None if a == target else a for a in expected]
    proj = make_projection(mode, k, ctx.evars, log, yp, target)
    if mode == 'none':
        mode = 'canon'       # everything else is judged as for the plain projection
    sys.setrecursionlimit(pre)
    VarTracker.start()
    try:
        b, outcome, q = bounded_call(yp, ctx.name, ctx.eargs, proj, limit)
        after = sys.getrecursionlimit()
        left = VarTracker.bound(ctx.evars)
        if limit + 200 > pre:
            # C17 speaks of the QUERY variables.  Clause-internal variables (unreachable once the query is gone) are included
            # only when the interpreter has head-room above the requested limit: with none, CPython finalises the aborted
            # generator chain at the limit itself and may skip finalisers deep in the chain.
            left = [v for v in ctx.evars if v._is_bound]
        alive = getattr(q, 'gi_frame', None) is not None
    finally:
        VarTracker.stop()
        sys.setrecursionlimit(S.BASE_RECURSION)
    if b + 8 > limit:
        return None, 'skipped: driver depth %d too close to the limit %d' % (b, limit), False, {}
    raised = bool(log)
    probs = []
    nontrivial = raised
    info = dict(B=b)
    if after != pre:
        probs.append('sys.getrecursionlimit() is %d afterwards, was %d before' % (after, pre))
    if left:
        probs.append('%d variable(s) still bound afterwards, e.g. %s' % (len(left), S.from_engine(left[0])))
    if alive:
        probs.append('the query generator is still suspended afterwards')
    kind, val = outcome
    if kind == 'exc':
        if isinstance(val, RecursionError):
            probs.append('RecursionError escaped: %s' % val)
        elif not raised:
            probs.append('exception escaped: %r' % (val,))
        elif mode == 'raise' and not isinstance(val, ProjError) or mode == 'runtime' and type(val) is not RuntimeError \
                or mode == 'stop' and not isinstance(val, (StopIteration, RuntimeError)):
            probs.append('the projection raised, but %r came out' % (val,))
        if raised and k > len(exp):
            probs.append('projection reached answer %d, the oracle has only %d' % (k, len(exp)))
    else:
        res = val
        if not isinstance(res, list):
            probs.append('result is not a list: %r' % (res,))
            res = []
        # a projection that raises RuntimeError/StopIteration is indistinguishable from a depth abort / an exhausted
        # iterator for evaluate_bounded; the property does not say such an exception propagates (only that the limit is
        # restored and the variables are unbound), so returning a prefix is accepted for these two modes
        if raised and mode == 'raise':
            probs.append('the projection function raised %s at answer %d but evaluate_bounded returned normally (%d results): '
                         'the exception did not propagate' % ({'raise': 'ProjError', 'runtime': 'RuntimeError', 'stop': 'StopIteration'}[mode], k, len(res)))
        m = min(len(res), len(exp))
        if res[:m] != exp[:m] or (ctx.complete and len(res) > len(exp)):
            probs.append('result %s is not a prefix of the answers %s' % (_short(res), _short(exp)))
        cut = len(res) < len(exp) or not ctx.complete
        nontrivial = nontrivial or bool(res) or cut
        info['returned'] = len(res)
        # completeness
        if not probs and not raised and mode != 'nested':    # (the nested inner call needs frames of its own: no depth accounting)
            d = ctx.depths(mode)
            if d is not None:
                per, end = d
                upto = len(per) if mode in ('canon', 'to_python') else min(len(per), k - 1)
                need = 0
                for i in range(upto):
                    if b + per[i] + MARGIN < limit:
                        need = i + 1
                    else:
                        break
                info['required'] = need
                if len(res) < need:
                    probs.append('only %d results, but answers up to #%d need at most %d frames on top of depth %d (limit %d)'
                                 % (len(res), need, per[need - 1], b, limit))
                if mode in ('canon', 'to_python') and end is not None and b + end + MARGIN < limit and ctx.complete \
                        and len(res) < len(exp):
                    probs.append('search needs %d frames on top of depth %d < limit %d but only %d of %d answers returned'
                                 % (end, b, limit, len(res), len(exp)))
                if end is not None and abs(b + end - limit) <= MARGIN:
                    info['borderline'] = True
    # a second identical call
    if not probs and mode in ('canon', 'to_python'):
        b2, outcome2, q2 = bounded_call(yp, ctx.name, ctx.eargs, proj, limit)
        sys.setrecursionlimit(S.BASE_RECURSION)
        if outcome2[0] != kind or (kind == 'ret' and outcome2[1] != val):
            probs.append('second identical call gives %s, first gave %s' % (_short(outcome2[1]), _short(val)))
    if probs:
        return False, '; '.join(probs), nontrivial, info
    return True, 'ok', nontrivial, info


def _short(x):
    s = repr(x)
    return s if len(s) < 400 else s[:400] + '...'


# ------------------------------------------------------------------ scenario generation
def draw_point(rng, nanswers=None):
    limit = rng.choice(LIMITS) if rng.random() < 0.8 else rng.randint(60, 400)
    mode = rng.choice(('canon', 'canon', 'to_python', 'to_python', 'raise', 'raise', 'runtime', 'stop', 'nested', 'none'))
    top = max(1, min(nanswers if nanswers is not None else 6, 12))
    k = rng.randint(1, top)
    pre = rng.choice((3000, 12000))
    if rng.random() < 0.15:
        # the caller asks for a limit that is not below the interpreter's current one
        pre = 3000
        limit = rng.choice((3000, 3400))
    return limit, mode, k, pre


def deep_scenario(seed, i):
    rng = random.Random('c17/D/%d/%d' % (seed, i))
    kind = rng.choice(('down', 'len', 'add', 'add', 'leftrec', 'leftrec2', 'nat', 'nat', 'fa_nat', 'fa_leftrec'))
    n = 0
    if kind in ('down', 'len', 'add'):
        n = rng.choice(NS) if rng.random() < 0.7 else rng.randint(5, 300)
    limit, mode, k, pre = draw_point(rng, None if kind != 'add' else n + 1)
    if limit >= 3000 and (kind not in ('down', 'len', 'add') or n > 60):
        # a requested limit at or above the interpreter's: only small finite searches (what matters there is that the call still
        # restores, closes and guards; driving CPython thousands of frames deep makes the harness itself unreliable)
        kind, n = 'add', rng.randint(3, 30)
        k = rng.randint(1, n + 1)
    return dict(driver='s_c17', family='D', program=kind, N=n, limit=limit, mode=mode, k=k, pre=pre)


_ctx_cache = {}


def deep_ctx(kind, n):
    key = (kind, n)
    c = _ctx_cache.get(key)
    if c is None:
        real = S.RealEngine()
        real.consult(PROGRAMS[kind])
        ref = S.RefEngine()
        ref.check_sto = True
        ref.consult(PROGRAMS[kind])
        profilable = kind in ('nat', 'leftrec2') or (kind in ('down', 'len', 'add') and n <= 300)
        # findall over a goal whose enumeration never ends has no answer at all, and its search does not end (closed form: the
        # reference interpreter would copy ever larger terms up to its step limit)
        c = Ctx(real, ref, goal_of(kind, n), profilable, diverges_ok=kind in ('leftrec', 'leftrec2', 'nat', 'fa_nat', 'fa_leftrec'),
                known=([], True) if kind in ('fa_nat', 'fa_leftrec') else None)
        if kind in ('nat', 'leftrec2'):
            # the i-th answer is known in closed form: checked against the reference's first ORACLE_N, then extended
            closed = [(peano(i),) if kind == 'nat' else (T.atom('a'),) for i in range(600)]
            assert c.oracle == closed[:len(c.oracle)] and len(c.oracle) == ORACLE_N, 'oracle self check'
            c.oracle = closed
        if len(_ctx_cache) > 64:
            _ctx_cache.clear()
        _ctx_cache[key] = c
    return c


def run_deep(sc):
    ctx = deep_ctx(sc['program'], sc['N'])
    return check_point(ctx, sc['limit'], sc['mode'], sc['k'], sc['pre'])


def f1_points(case, qi, nanswers):
    rng = random.Random('c17/F1/%s/%d' % (case.id, qi))
    return [draw_point(rng, nanswers) for _ in range(2)]


def run_f1_case(case, seed, count, acc, order, only=None):
    src = case_source(case)
    ref = build_ref(case)
    real = build_real(case)
    for qi, goal in enumerate(case.queries):
        if only and only[0] != qi:
            continue
        qs = goal_to_source(goal)
        if S.excluded_query(src, qs):
            acc.skip('call of a control construct')
            continue
        try:
            ctx = Ctx(real, ref, goal, True)
        except RefLimit:
            acc.skip('reference limit')
            continue
        if ctx.sto:
            acc.skip('STO (cyclic term)')
            continue
        n = len(ctx.oracle)
        for pi, (limit, mode, k, pre) in enumerate(f1_points(case, qi, n)):
            if only and only[1] != pi:
                continue
            ok, detail, nt, info = check_point(ctx, limit, mode, k, pre)
            if only:
                return (ok is not False), detail
            if ok is None:
                acc.skip(detail.split(':', 1)[1].strip())
                continue
            sc = dict(driver='s_c17', family='F1', seed=seed, count=count, case_id=case.id, qi=qi, point=pi,
                      limit=limit, mode=mode, k=k, pre=pre, source=src, query=qs)
            acc.evaluation(digest(src, qs, limit, mode, k) if nt else None)
            acc.observe((qi, pi), ok, detail)
            if info.get('borderline'):
                acc.skip('borderline (not a failure)')
            if not ok:
                acc.fail((order, qi, pi), sc, detail)
            elif qi == 0 and pi == 0:
                acc.sample((order, qi), dict(sc, oracle=S.show(ctx.oracle), info=info))
    if only:
        return False, 'query/point not run'


def worker(args):
    seed, count, part, parts = args
    acc = Acc()
    nf1 = count // 2
    order = 0
    for i, case in enumerate(gen.cases('F1', seed, nf1)):
        order += 1
        if i % parts != part:
            continue
        try:
            S.with_timeout(30, run_f1_case, case, seed, nf1, acc, order)
        except S.Timeout:
            acc.skip('timeout')
    # deep scenarios: grouped by (program, N) so that the per-process oracle/profile cache is used
    mine = []
    for i in range(count - nf1):
        order += 1
        sc = deep_scenario(seed, i)
        if (hash_key(sc['program'], sc['N']) if sc['N'] else i) % parts == part:
            mine.append((order, i, sc))
    if part == 0:
        for n_, lim in ((40, 400), (33, 200), (60, 3000)):
            sc = dict(driver='s_c17', family='W', N=n_, limit=lim, seed=seed)
            try:
                ok, detail = S.with_timeout(120, run_wide, sc)
            except S.Timeout:
                acc.skip('timeout')
                continue
            acc.evaluation(digest(sorted(sc.items())))
            if not ok:
                acc.fail((10 ** 6, n_, 0), sc, detail)
    mine.sort(key=lambda t: (t[2]['program'], t[2]['N'], t[0]))
    for order, i, sc in mine:
        try:
            ok, detail, nt, info = S.with_timeout(60, run_deep, sc)
        except S.Timeout:
            acc.skip('timeout')
            continue
        except RefLimit:
            acc.skip('reference limit')
            continue
        if ok is None:
            acc.skip(detail.split(':', 1)[1].strip())
            continue
        sc = dict(sc, seed=seed, index=i)
        acc.evaluation(digest(sorted(sc.items() - {('seed', seed), ('index', i), ('pre', sc['pre'])})) if nt else None)
        if info.get('borderline'):
            acc.skip('borderline (not a failure)')
        if not ok:
            acc.fail((order, 0, 0), sc, detail)
        else:
            acc.sample((order, 0), dict(sc, info=info))
    return acc.pack()


def run_wide(sc):
    """a finite, SHALLOW search with many answers (n*n pairs of n facts) under a generous limit: no depth error can occur, so the
    result is the complete answer list, in order, however long it is"""
    n = sc['N']
    real = S.RealEngine()
    yp = real.yp
    for i in range(n):
        yp.assert_fact(yp.atom('d'), [i])
    from yldprolog.compiler import compile_prolog_from_string
    yp.load_script_from_string(compile_prolog_from_string('wide(X, Y) :- d(X), d(Y).\n'))
    X, Y = yp.variable(), yp.variable()
    pre = sys.getrecursionlimit()
    try:
        res = yp.evaluate_bounded(yp.query('wide', [X, Y]), lambda _x: (E.to_python(X), E.to_python(Y)), sc['limit'])
    finally:
        after = sys.getrecursionlimit()
        sys.setrecursionlimit(S.BASE_RECURSION)
    want = [(i, j) for i in range(n) for j in range(n)]
    probs = []
    if res != want:
        probs.append('%d results for a search with %d answers that needs only a few frames (limit %d)%s'
                     % (len(res), len(want), sc['limit'], '' if res == want[:len(res)] else '; not even a prefix'))
    if after != pre:
        probs.append('recursion limit %d afterwards, %d before' % (after, pre))
    if X._is_bound or Y._is_bound:
        probs.append('query variables still bound')
    return not probs, '; '.join(probs) or 'ok'


def hash_key(kind, n):
    return int(digest(kind, n), 16)


def run(seed, count):
    return S.merge(S.fan_out(worker, seed, count), RULE)


def replay(sc):
    if sc['family'] == 'W':
        return run_wide(sc)
    if sc['family'] == 'D':
        ok, detail, _nt, _info = run_deep(sc)
        return ok is not False, detail
    case = S.find_case('F1', sc['seed'], sc['count'], sc['case_id'])
    if case is None:
        return False, 'case not found'
    acc = Acc()         # the checks of a case share one engine: run the whole case, pick the check's outcome
    acc.watch_key = (sc['qi'], sc['point'])
    run_f1_case(case, sc['seed'], sc['count'], acc, 0)
    if acc.watch_result is not None:
        return acc.watch_result
    return run_f1_case(case, sc['seed'], sc['count'], Acc(), 0, only=(sc['qi'], sc['point']))


if __name__ == '__main__':
    S.cli(run, replay)
