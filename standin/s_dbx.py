"""Small-scope systematic driver for the fact database (C07, C14, C13): one predicate e/2 over the constants a, b.

Complements the random family F4 with the shapes it does not generate: patterns with a REPEATED variable (e(X,X)),
patterns with all arguments unbound, non-ground facts, and a retract that is RESUMED after other operations on the
same predicate (asserta/assertz/retract/retractall between its first and second answer).
Oracle: the independent reference interpreter (ref_interp.RefEngine, logical update view, list model).

  s_dbx.py run <seed> <count>        s_dbx.py replay <file>
"""
import itertools
import json
import os
import random
import sys

HERE = os.path.dirname(os.path.abspath(__file__))
sys.path.insert(0, HERE)
sys.path.insert(0, os.environ.get('YLD_REPO_SRC', '/repo/src'))
from terms import canon  # noqa
from ref_interp import RefEngine  # noqa
import real_engine  # noqa
from real_engine import RealEngine, _from_engine  # noqa

A, B = ('atom', 'a'), ('atom', 'b')
X, Y = ('var', 'X'), ('var', 'Y')


def e(p, q):
    return ('fun', 'e', (p, q))


PL = ('fun', '.', (A, X))          # a partial list [a|X]
FACTS = [e(A, A), e(A, B), e(B, A), e(B, B), e(X, X), e(X, B), e(PL, B), e(A, ('fun', '.', (B, Y)))]
PATS = [e(X, Y), e(X, X), e(A, X), e(X, B), e(A, B), e(B, B), e(A, A)]
QUERIES = [('query', p) for p in (e(X, Y), e(A, X), e(B, B))]
SIMPLE = [('assertz', f) for f in FACTS[:4]] + [('asserta', f) for f in FACTS[:4]] + [('retractall', p) for p in PATS] + \
         [('retract', p, None) for p in PATS] + [('retract', p, 1) for p in PATS[:4]] + [('clear',)] + QUERIES


def tj(x):
    if isinstance(x, tuple):
        return [tj(i) for i in x]
    return x


def jt(x):
    if isinstance(x, list):
        return tuple(jt(i) for i in x)
    return x


def run_ops(engine_kind, init, ops):
    """returns the observation list: per op (answers, db dump)"""
    if engine_kind == 'real':
        eng = RealEngine()
    else:
        eng = RefEngine()
    for f in init:
        eng.assertz(f)
    obs = []

    def dump():
        return eng.facts('e', 2)

    def simple(op):
        if op[0] in ('assertz', 'asserta'):
            getattr(eng, op[0])(op[1])
            return []
        if op[0] == 'clear':
            eng.clear()
            return []
        if op[0] == 'query':
            # a plain enumeration run to the end
            if engine_kind == 'real':
                et = eng.to_engine(op[1], {})
                return [canon((_from_engine(et, {}, 0),)) for _ in eng.yp.query('e', list(et._args))]
            from ref_interp import resolve
            return [canon((resolve(op[1], b),)) for b in eng.solve(op[1])]
        if op[0] == 'retractall':
            r = eng.retractall(op[1])
            return [] if engine_kind == 'ref' else [x for x in r if x and x[0] == 'EXC']
        if op[0] == 'retract':
            if engine_kind == 'real':
                return eng.retract(op[1], op[2])
            out = []
            g = eng.retract(op[1])
            for t in g:
                out.append(canon((t,)))
                if op[2] is not None and len(out) >= op[2]:
                    break
            g.close()
            return out
        raise ValueError(op)

    for op in ops:
        if op[0] == 'query_i':
            # a plain enumeration e(..) suspended at its first answer while the predicate is changed, then resumed:
            # it visits the facts as they were when it started (logical update view)
            pat, inner = op[1], op[2]
            out = []
            try:
                if engine_kind == 'real':
                    et = eng.to_engine(pat, {})
                    g = eng.yp.query('e', list(et._args))
                    first = True
                    for _ in g:
                        out.append(canon((_from_engine(et, {}, 0),)))
                        if first:
                            first = False
                            for io in inner:
                                simple(io)
                        if len(out) > 20:
                            break
                else:
                    from ref_interp import resolve
                    g = eng.solve(pat)
                    first = True
                    for b in g:
                        out.append(canon((resolve(pat, b),)))
                        if first:
                            first = False
                            for io in inner:
                                simple(io)
                        if len(out) > 20:
                            break
            except Exception as ex:  # noqa
                out.append(('EXC', type(ex).__name__, str(ex)[:80]))
            obs.append((out, dump()))
            continue
        if op[0] == 'query_r':
            pat, rpat = op[1], op[2]
            out = []
            g2 = None
            try:
                if engine_kind == 'real':
                    et = eng.to_engine(pat, {})
                    rt = eng.to_engine(rpat, {})
                    first = True
                    for _ in eng.yp.query('e', list(et._args)):
                        out.append(canon((_from_engine(et, {}, 0),)))
                        if first:
                            first = False
                            g2 = iter(eng.yp.query('retract', [rt]))
                            try:
                                next(g2)
                                out.append(('inner', canon((_from_engine(rt, {}, 0),))))
                            except StopIteration:
                                out.append(('inner', 'none'))
                        if len(out) > 20:
                            break
                else:
                    from ref_interp import resolve
                    first = True
                    for b in eng.solve(pat):
                        out.append(canon((resolve(pat, b),)))
                        if first:
                            first = False
                            g2 = eng.retract(rpat)
                            try:
                                out.append(('inner', canon((next(g2),))))
                            except StopIteration:
                                out.append(('inner', 'none'))
                        if len(out) > 20:
                            break
            except Exception as ex:  # noqa
                out.append(('EXC', type(ex).__name__, str(ex)[:80]))
            finally:
                if g2 is not None:
                    g2.close()
            obs.append((out, dump()))
            continue
        if op[0] == 'retract_i':
            pat, inner = op[1], op[2]
            out = []
            try:
                if engine_kind == 'real':
                    vm = {}
                    et = eng.to_engine(pat, vm)
                    g = eng.yp.query('retract', [et])
                    first = True
                    for _ in g:
                        out.append(canon((_from_engine(et, {}, 0),)))
                        if first:
                            first = False
                            for io in inner:
                                simple(io)
                        if len(out) > 20:
                            break
                else:
                    g = eng.retract(pat)
                    first = True
                    for t in g:
                        out.append(canon((t,)))
                        if first:
                            first = False
                            for io in inner:
                                simple(io)
                        if len(out) > 20:
                            break
            except Exception as ex:  # noqa
                out.append(('EXC', type(ex).__name__, str(ex)[:80]))
            obs.append((out, dump()))
        else:
            try:
                r = simple(op)
            except Exception as ex:  # noqa
                r = [('EXC', type(ex).__name__, str(ex)[:80])]
            obs.append((r, dump()))
    return obs


def check(sc):
    init = [jt(f) for f in sc['init']]
    ops = [jt(o) for o in sc['ops']]
    exp = run_ops('ref', init, ops)
    got = run_ops('real', init, ops)
    if tj(exp) != tj(got):
        for i, (a, b) in enumerate(zip(exp, got)):
            if tj(a) != tj(b):
                return False, 'step %d %s: expected answers %s db %s, observed answers %s db %s' % (
                    i, json.dumps(tj(ops[i]))[:120], json.dumps(tj(a[0]))[:200], json.dumps(tj(a[1]))[:200],
                    json.dumps(tj(b[0]))[:200], json.dumps(tj(b[1]))[:200])
    return True, 'ok'


def scenarios(seed, count):
    rng = random.Random(seed)
    inner_pool = [op for op in SIMPLE if not (op[0] == 'retract' and op[2] == 1)]
    out = []
    # systematic part: every pattern resumed after every single inner operation, on a few databases
    dbs = [[e(A, A), e(A, B), e(B, B)], [e(A, B), e(A, A), e(A, B)], [e(X, X), e(A, B), e(B, B)], [e(A, A), e(B, B)], [],
           [e(A, A), e(X, B), e(Y, Y)], [e(PL, B), e(A, B)]]
    for db in dbs:
        for p in PATS:
            out.append(dict(init=db, ops=[('retractall', p)]))
            out.append(dict(init=db, ops=[('retract', p, None)]))
            for io in inner_pool:
                out.append(dict(init=db, ops=[('retract_i', p, [io])]))
                out.append(dict(init=db, ops=[('query_i', p, [io])]))
            for q in QUERIES:
                for f in FACTS[:2]:
                    # a second enumeration of the same predicate starts and ends while the first is suspended, then a fact is added
                    out.append(dict(init=db, ops=[('query_i', p, [q, ('assertz', f)])]))
            for rp in (e(A, B), e(X, B), e(A, A)):
                out.append(dict(init=db, ops=[('query_r', p, rp)]))
    rng.shuffle(out)
    out = out[:max(0, count * 2 // 3)]
    while len(out) < count:
        n = rng.randint(0, 3)
        init = [rng.choice(FACTS) for _ in range(n)]
        ops = []
        for _ in range(rng.randint(1, 3)):
            if rng.random() < 0.1:
                ops.append(('query_r', rng.choice(PATS), rng.choice(PATS)))
            elif rng.random() < 0.4:
                ops.append((rng.choice(['retract_i', 'query_i']), rng.choice(PATS), [rng.choice(inner_pool) for _ in range(rng.randint(1, 2))]))
            else:
                ops.append(rng.choice(SIMPLE))
        out.append(dict(init=init, ops=ops))
    res = [dict(init=tj(s['init']), ops=tj(s['ops'])) for s in out]
    # every fourth history over two large integers instead of the atoms a, b (equal numbers are distinct Python objects)
    return [_with_numbers(s) if i % 4 == 1 else s for i, s in enumerate(res)]


def _with_numbers(x):
    if isinstance(x, dict):
        return {k: _with_numbers(v) for k, v in x.items()}
    if isinstance(x, (list, tuple)):
        x = list(x)
        if x == ['atom', 'a']:
            return ['int', 70000]
        if x == ['atom', 'b']:
            return ['int', 70001]
        return [_with_numbers(i) for i in x]
    return x


def nil_fact_case():
    """a zero-argument fact whose name is the atom '[]' is a fact like any other: asserted, enumerated, retracted by that name"""
    from yldprolog import engine as E
    yp = E.YP()
    probs = []
    yp.assertz(yp.ATOM_NIL)
    yp.assertz(yp.atom('flag'))
    for name in ('[]', 'flag'):
        n = sum(1 for _ in yp.query(name, []))
        if n != 1:
            probs.append('%s/0 has %d answers after assertz, expected 1' % (name, n))
        try:
            r = sum(1 for _ in yp.retract(yp.atom(name)))
        except Exception as e:       # noqa: an exception is a failure of this case
            r = 'raised %s: %s' % (type(e).__name__, str(e)[:60])
        if r != 1:
            probs.append('retract(%s) succeeds %s time(s), expected 1' % (name, r))
        n = sum(1 for _ in yp.query(name, []))
        if n != 0:
            probs.append('%s/0 has %d answers after retract, expected 0' % (name, n))
    return not probs, '; '.join(probs) or 'ok'


def main():
    if sys.argv[1] == 'replay':
        sc = json.load(open(sys.argv[2]))
        sc = sc.get('scenario', sc)
        if sc.get('kind') == 'nil_fact':
            ok, detail = nil_fact_case()
            print(json.dumps(dict(ok=ok, detail=detail)))
            sys.exit(0 if ok else 1)
        ok, detail = check(sc)
        print(json.dumps(dict(ok=ok, detail=detail)))
        sys.exit(0 if ok else 1)
    seed, count = int(sys.argv[2]), int(sys.argv[3])
    fails, nontriv, n, samples = [], set(), 0, []
    ok, detail = nil_fact_case()
    n += 1
    if not ok:
        fails.append(dict(scenario=dict(kind='nil_fact'), detail=detail))
    for sc in scenarios(seed, count):
        ok, detail = check(sc)
        n += 1
        key = json.dumps(sc, sort_keys=True)
        if sc['init']:
            nontriv.add(key)
        if n % 97 == 3 and len(samples) < 3:
            samples.append(sc)
        if not ok and len(fails) < 20:
            fails.append(dict(scenario=sc, detail=detail))
    print(json.dumps(dict(evaluations=n, distinct_nontrivial=len(nontriv), failures=fails, failure_count=len(fails), samples=samples,
                          rule='predicate e/2 over {a,b} (every fourth history over {70000, 70001} built as fresh int objects): systematic part = 5 databases x 7 patterns (incl. e(X,X), e(X,Y)) x {retractall, retract, '
                               'retract / plain enumeration suspended at the first answer and resumed after each of 26 single operations}, shuffled by seed; random part = histories of 1-3 operations; '
                               'answers and database dump after every step vs the reference interpreter; non-trivial = non-empty database')))


if __name__ == '__main__':
    main()
