"""Control constructs in clauses whose head arguments are plain distinct variables (C05, C06, C01).

The random family F2 always selects the clause through a constant first head argument, so the body of the
emitted function sits inside a head-unification loop.  Here the head is u(V1..Vk) with distinct variables only
(no enclosing loop: the body starts at loop level 0), and the body trees put if-then-else / negation INSIDE the
condition of another if-then-else and under negation.  Oracle: reference interpreter.

  s_ctl.py run <seed> <count>      s_ctl.py replay <file>
"""
import json
import os
import random
import signal
import sys

HERE = os.path.dirname(os.path.abspath(__file__))
sys.path.insert(0, HERE)
import diff  # noqa
import gen   # noqa
from gen import Case, fun, var, call, conj, TRUE, _F2_FACTS, _f2_instantiate, f2_trees, _f2_random_tree  # noqa


def case(ident, tree, tree2=None):
    b1, v1 = _f2_instantiate(tree, 'V')
    k = len(v1)
    xs = [var('X%d' % (i + 1)) for i in range(k)]
    rules = [(fun('u', *v1) if k else ('atom', 'u'), b1)]
    if tree2 is not None:
        b2, v2 = _f2_instantiate(tree2, 'W')
        if len(v2) <= k:
            rules.append((fun('u', *(v2 + [var('_')] * (k - len(v2)))) if k else ('atom', 'u'), b2))
    goal = call(fun('u', *xs)) if k else call(('atom', 'u'))
    rules.append((fun('top', *xs) if k else ('atom', 'top'), conj(call(fun('pick', var('_'))), goal)))
    queries = [goal, call(fun('top', *xs)) if k else call(('atom', 'top'))]
    return Case('F2', ident, list(_F2_FACTS), queries, more=[(rules, True)], special=True)


def nested_condition_trees():
    """if-then-else / negation whose condition (operand) is itself an if-then-else or negation, first in the body"""
    leaves = f2_trees(0, False)
    inner = [('\\+', l) for l in leaves] + [('->', c, t) for c in leaves for t in leaves] + \
            [(';', ('->', c, t), e) for c in leaves[:3] for t in leaves[:3] for e in leaves[:3]]
    out = []
    for i in inner:
        out.append(('\\+', i))
        for t in leaves[:3]:
            out.append(('->', i, t))
            for e in leaves[:3]:
                out.append((';', ('->', i, t), e))
                out.append((',', (';', ('->', i, t), e), leaves[0]))
    return out


def cases(seed, count):
    rng = random.Random(seed)
    sysm = nested_condition_trees()
    rng.shuffle(sysm)
    n = 0
    for t in sysm[:count // 2]:
        n += 1
        yield case('CTL-n-%d' % n, t)
    while n < count:
        n += 1
        d = rng.randint(1, 3)
        t1 = _f2_random_tree(rng, d)
        t2 = _f2_random_tree(rng, rng.randint(0, 2)) if rng.random() < 0.4 else None
        yield case('CTL-%d-%d' % (seed, n), t1, t2)


def main():
    signal.signal(signal.SIGVTALRM, diff._on_alarm)
    if sys.argv[1] == 'replay':
        sc = json.load(open(sys.argv[2]))
        sc = sc.get('scenario', sc)
        res = diff.Result()
        for c in cases(sc['seed'], sc['count']):
            if c.id == sc['id']:
                diff.run_query_case(c, res)
        print(json.dumps(dict(ok=not res.mismatches, mismatches=res.mismatches[:2])))
        sys.exit(1 if res.mismatches else 0)
    seed, count = int(sys.argv[2]), int(sys.argv[3])
    res = diff.Result()
    for c in cases(seed, count):
        diff.run_query_case(c, res)
    fails = [dict(scenario=dict(seed=seed, count=count, id=m['id'], source=m['source'], query=m['query']),
                  detail='%s: expected %s observed %s' % (m['class'], json.dumps(m['expected'])[:200], json.dumps(m['observed'])[:200]))
             for m in res.mismatches if not m['class'].startswith('STO(')]
    print(json.dumps(dict(evaluations=res.evaluations, distinct_nontrivial=len(res.nontrivial), failures=fails[:20], failure_count=len(fails),
                          samples=res.samples[:2],
                          rule='clauses u(V1..Vk) :- Body with distinct plain head variables; half of the cases put an if-then-else or a negation inside '
                               'the condition of another one (first goal of the body), half are random F2 trees; compared with the reference interpreter')))


if __name__ == '__main__':
    main()
