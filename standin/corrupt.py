#!/usr/bin/env python3
"""corrupt -- single-edit corruptions of a (valid) program text, at token and character level.

    corruptions(text, rng, n)  yields n pairs (kind, corrupted_text)

`rng` is a random.Random.  A corruption may or may not still be a sentence of the grammar: that
is for the recogniser (g4reader.recognise) to decide; nothing here judges validity.
Pure standard library; uses g4reader.tokenize only to find token boundaries.
"""

import os
import random
import sys

sys.path.insert(0, os.path.dirname(os.path.abspath(__file__)))

from g4reader import tokenize, PlSyntaxError

__all__ = ["corruptions", "KINDS", "INSERT_POOL", "TRAILING_GARBAGE"]

INSERT_POOL = [",", ".", ")", "(", ";", "->", "|", "]", "[", ":-", "'", "#", "$", "@", '"', "\\"]

FOREIGN_CHARS = ["#", "$", "@", '"', "\\", "`", "~", "^", "&", "*", "{", "}", "?", ":",
                 "\x0c", "\x0b", "\xa0", "\xe9", "λ", "\x00"]

TRAILING_GARBAGE = [") garbage", "foo", "'unterminated", "#$@ foo(b).", "garbage(", ".", ",",
                    "foo(a) :- ", ":- ", "]", "X", "42", "% comment without newline",
                    "foo(a)", "- ", "= ."]

# characters that Unicode normalisation (NFC/NFKC) or case folding maps onto characters of the lexicon
LOOKALIKE = {";": "\u037e", "K": "\u212a", ",": "\uff0c", "(": "\uff08", ")": "\uff09", ".": "\uff0e", "|": "\uff5c", "[": "\uff3b",
             "]": "\uff3d", "A": "\uff21", "a": "\uff41", "0": "\uff10", "1": "\uff11", "-": "\uff0d", ":": "\uff1a", "!": "\uff01",
             "_": "\uff3f", "'": "\uff07", "X": "\uff38", "=": "\uff1d"}

KINDS = [
    "lookalike", "script_line",
    "tok_delete", "tok_insert", "tok_dup", "tok_swap", "trunc_boundary", "trunc_mid_token",
    "foreign_char", "unterminated_quote", "trailing_garbage", "drop_final_dot",
    "doubled_separator", "unbalanced_bracket", "char_delete", "char_replace",
    "comment_at_eof", "tok_replace",
]


def _spans(text):
    try:
        toks = tokenize(text)
    except PlSyntaxError:
        return []
    return [(t.pos, t.pos + len(t.text), t.kind, t.text) for t in toks]


def _one(kind, text, sp, rng):
    """Return corrupted text for `kind`, or None if not applicable."""
    n = len(sp)
    if kind == "tok_delete":
        if not n:
            return None
        s, e, _, _ = sp[rng.randrange(n)]
        return text[:s] + text[e:]
    if kind == "tok_insert":
        tok = rng.choice(INSERT_POOL)
        if n and rng.random() < 0.9:
            i = rng.randrange(n)
            at = sp[i][0] if rng.random() < 0.5 else sp[i][1]
        else:
            at = rng.randrange(len(text) + 1)
        pad = " " if rng.random() < 0.5 else ""
        return text[:at] + pad + tok + pad + text[at:]
    if kind == "tok_dup":
        if not n:
            return None
        s, e, _, t = sp[rng.randrange(n)]
        pad = " " if rng.random() < 0.7 else ""
        return text[:e] + pad + t + text[e:]
    if kind == "tok_swap":
        if n < 2:
            return None
        i = rng.randrange(n - 1)
        s1, e1, _, t1 = sp[i]
        s2, e2, _, t2 = sp[i + 1]
        if t1 == t2:
            return None
        return text[:s1] + t2 + text[e1:s2] + t1 + text[e2:]
    if kind == "tok_replace":
        if not n:
            return None
        s, e, _, _ = sp[rng.randrange(n)]
        return text[:s] + rng.choice(INSERT_POOL) + text[e:]
    if kind == "trunc_boundary":
        if not n:
            return None
        i = rng.randrange(n)
        return text[:sp[i][0]] if rng.random() < 0.5 else text[:sp[i][1]]
    if kind == "trunc_mid_token":
        long_toks = [x for x in sp if x[1] - x[0] >= 2]
        if not long_toks:
            return None
        s, e, _, _ = rng.choice(long_toks)
        return text[:rng.randrange(s + 1, e)]
    if kind == "script_line":
        # text dressed up as a script: an interpreter line (or just its first two characters) in front
        return rng.choice(["#!/usr/bin/env yldpc\n", "#!", "#! ", "#!yldpc -d\n", "#!\n"]) + text
    if kind == "lookalike":
        pos = [i for i, ch in enumerate(text) if ch in LOOKALIKE]
        if not pos:
            return None
        at = rng.choice(pos)
        return text[:at] + LOOKALIKE[text[at]] + text[at + 1:]
    if kind == "foreign_char":
        at = rng.randrange(len(text) + 1)
        return text[:at] + rng.choice(FOREIGN_CHARS) + text[at:]
    if kind == "unterminated_quote":
        if rng.random() < 0.5 or not n:
            return text + rng.choice(["'unterminated", " 'unterminated", "\n'x y z\n", "'"])
        s = sp[rng.randrange(n)][0]
        return text[:s] + "'" + text[s:]
    if kind == "trailing_garbage":
        sep = rng.choice(["", " ", "\n"])
        return text + sep + rng.choice(TRAILING_GARBAGE)
    if kind == "drop_final_dot":
        dots = [x for x in sp if x[2] == "."]
        if not dots:
            return None
        s, e, _, _ = dots[-1]
        return text[:s] + text[e:]
    if kind == "doubled_separator":
        seps = [x for x in sp if x[3] in (",", ";", ".", "->", ":-", "|")]
        if not seps:
            return None
        s, e, _, t = rng.choice(seps)
        pad = " " if rng.random() < 0.3 else ""
        return text[:e] + pad + t + text[e:]
    if kind == "unbalanced_bracket":
        br = [x for x in sp if x[3] in ("(", ")", "[", "]")]
        if br and rng.random() < 0.6:
            s, e, _, _ = rng.choice(br)
            return text[:s] + text[e:]
        if not n:
            return None
        i = rng.randrange(n)
        at = sp[i][0] if rng.random() < 0.5 else sp[i][1]
        return text[:at] + rng.choice(["(", ")", "[", "]"]) + text[at:]
    if kind == "char_delete":
        if not text:
            return None
        at = rng.randrange(len(text))
        return text[:at] + text[at + 1:]
    if kind == "char_replace":
        if not text:
            return None
        at = rng.randrange(len(text))
        c = rng.choice("abzXY_09 .,;()[]|'%\\-+=<>!:/\n" + "".join(FOREIGN_CHARS))
        if c == text[at]:
            return None
        return text[:at] + c + text[at + 1:]
    if kind == "comment_at_eof":
        return text + rng.choice(["% trailing", " % trailing", "\n% trailing", "%"])
    raise ValueError(kind)


def corruptions(text, rng, n):
    """Yield n (kind, corrupted_text); kinds are cycled so that every kind is exercised."""
    if not isinstance(rng, random.Random):
        rng = random.Random(rng)
    sp = _spans(text)
    produced = 0
    attempts = 0
    order = list(KINDS)
    while produced < n and attempts < 20 * n + 50:
        if attempts % len(order) == 0:
            rng.shuffle(order)
        kind = order[attempts % len(order)]
        attempts += 1
        c = _one(kind, text, sp, rng)
        if c is None or c == text:
            continue
        produced += 1
        yield kind, c
