"""s_compiler_common -- plumbing shared by the bounded compiler stand-ins
s_c11.py / s_c12.py / s_c18.py / s_c19.py.  Pure stdlib + yldprolog.

Which tree is tested: env var YLD_REPO_SRC (default /repo/src).  It is put in front of sys.path
before yldprolog is imported; subprocesses get PYTHONPATH=$YLD_REPO_SRC and run
`/venv/bin/python -m yldprolog.compiler`.

  SRC, PY, HERE               the selected source tree, the interpreter, this directory
  make_ctx(...)               compiler options object (see CompilerContext in compiler.py)
  try_compile(text, ctx)      {"status":"ok","code":...} | {"status":"reject","exc":..,"msg":..}
  case_clauses(case)          all clauses of a gen.Case (program + later consults + queries as clauses)
  family_texts(seed, n, fams) n source texts from gen families, round-robin
  rename_variables(text, rng) consistent injective renaming of the VARIABLE tokens to odd names
  respell_numerals(text, rng) NUMERAL tokens re-spelled with leading zeros
  quote_atom(s)               quoted source token for the atom named s (s without backslashes)
  pmap(fn, items, procs)      ordered multiprocessing map (falls back to a plain loop)
  scratch() / cleanup()       one /tmp/scmp-* directory per process tree, removed at the end
  sub_env(hashseed=None)      environment for subprocesses
  cli(run, replay)            the common command line:  run <seed> <count> | replay <file.json>
"""

import hashlib
import json
import os
import random
import shutil
import sys
import tempfile
import warnings

warnings.simplefilter("ignore")          # SyntaxWarning noise from compile() of generated code under test

HERE = os.path.dirname(os.path.abspath(__file__))
SRC = os.environ.get('YLD_REPO_SRC', '/repo/src')
PY = '/venv/bin/python'
if HERE not in sys.path:
    sys.path.insert(0, HERE)
sys.path.insert(0, SRC)

import g4reader  # noqa: E402
import gen       # noqa: E402
import terms     # noqa: E402


# ------------------------------------------------------------------------------ compiler
class Ctx(object):
    """options object in the shape of yldprolog.compiler.CompilerContext"""

    def __init__(self, debug_filename=False, debug_parser=False, debug_generator=False,
                 current_source_file='', outf=None):
        self.debug_filename = debug_filename
        self.debug_parser = debug_parser
        self.debug_generator = debug_generator
        self.current_source_file = current_source_file
        self.outf = outf


def make_ctx(**kw):
    return Ctx(**kw)


def try_compile(text, ctx=None):
    """Run the library compiler on a source text.  Any exception counts as "the compiler does
    not accept this input"; the exception class is reported so that callers can tell a
    CompilerError from a crash."""
    from yldprolog.compiler import compile_prolog_from_string
    old = sys.getrecursionlimit()
    try:
        code = compile_prolog_from_string(text, ctx if ctx is not None else Ctx())
    except BaseException as e:                          # noqa: B902  (RecursionError, MemoryError ...)
        if isinstance(e, (KeyboardInterrupt, SystemExit)):
            raise
        return {"status": "reject", "exc": type(e).__name__, "msg": str(e)[:300]}
    finally:
        sys.setrecursionlimit(old)
    if not isinstance(code, str):
        return {"status": "reject", "exc": "NotAString", "msg": repr(code)[:200]}
    return {"status": "ok", "code": code}


# ------------------------------------------------------------------------------ programs
def case_clauses(case, with_queries=True):
    """every clause a gen.Case would consult, in order, plus (optionally) one clause
    q<i>(Vars..) :- Query per query so that the query bodies get compiled too."""
    clauses = list(case.program)
    for prog, _overwrite in case.more:
        clauses.extend(prog)
    if with_queries:
        for i, q in enumerate(case.queries or ()):
            vs = terms.vars_of(q)
            clauses.append((terms.fun("q%d" % i, *vs), q))
    return clauses


def case_text(case, with_queries=True):
    return terms.to_source(case_clauses(case, with_queries))


def family_texts(seed, count, families=("F1", "F2", "F3"), with_queries=True):
    """`count` (id, text) pairs, round-robin over the families, deterministic per seed"""
    per = count // len(families) + 1
    iters = [iter(gen.cases(f, seed, per)) for f in families]
    out = []
    i = 0
    while len(out) < count and iters:
        it = iters[i % len(iters)]
        try:
            c = next(it)
        except StopIteration:
            iters.remove(it)
            continue
        try:
            out.append((c.id, case_text(c, with_queries)))
        except ValueError:
            pass                                          # a term the grammar cannot spell
        i += 1
    return out


ODD_VARIABLE_NAMES = [
    "True", "False", "None", "ATOM_NIL", "__debug__", "True_", "False_", "None_", "ATOM_NIL_",
    "__debug___", "True__", "None___", "__builtins__", "__import__", "__name__", "__class__",
    "__file__", "__doc__", "_x", "X1", "L1", "L2", "Arg1", "Arg2", "DoBreak", "CutIf1", "_1", "__",
    "___", "Query", "Atom", "Variable", "Unify", "Functor", "Makelist", "Listpair", "_l1", "_arg1",
    "_doBreak", "_cutIf1", "_x1", "Truex", "NoneType", "Exception", "NotImplemented", "Ellipsis",
    "X", "Y", "Zz", "A_b_c", "V0", "_G1", "Self", "Yield", "Return", "Break", "Pass", "If", "For",
    "_0", "_query", "_atom", "_variable", "_unify", "__x__", "X_", "X__",
]


def rename_variables(text, rng, p=1.0):
    """Replace every named VARIABLE token (not `_`) by an odd-looking name; the same old name
    always gets the same new name and different old names get different new names, so the
    program means the same (variables are clause-local).  With probability 1-p a name is kept."""
    toks = g4reader.tokenize(text)
    old = []
    for t in toks:
        if t.kind == "VARIABLE" and t.text != "_" and t.text not in old:
            old.append(t.text)
    pool = list(ODD_VARIABLE_NAMES)
    rng.shuffle(pool)
    mapping = {}
    used = set()
    for name in old:
        if rng.random() < p and pool:
            new = pool.pop()
        else:
            new = name
        while new in used or (new != name and new in old):
            new = new + "_q"
        mapping[name] = new
        used.add(new)
    out = []
    pos = 0
    for t in toks:
        if t.kind == "VARIABLE" and t.text in mapping:
            out.append(text[pos:t.pos])
            out.append(mapping[t.text])
            pos = t.pos + len(t.text)
    out.append(text[pos:])
    return "".join(out)


def respell_numerals(text, rng, p=0.7):
    toks = g4reader.tokenize(text)
    out = []
    pos = 0
    for t in toks:
        if t.kind == "NUMERAL" and rng.random() < p:
            out.append(text[pos:t.pos])
            out.append("0" * rng.choice([1, 1, 2, 3, 8]) + t.text)
            pos = t.pos + len(t.text)
    out.append(text[pos:])
    return "".join(out)


def quote_atom(s):
    """quoted source token of the atom named s.  The reader deletes every backslash, so a name
    with a backslash cannot be written; quotes are written \\' ."""
    if "\\" in s:
        raise ValueError("atom names with a backslash cannot be written")
    return "'" + s.replace("'", "\\'") + "'"


def sha(s):
    return hashlib.sha256(s.encode("utf-8", "surrogatepass")).hexdigest()


# ------------------------------------------------------------------------------ processes
def pmap(fn, items, procs=8, chunksize=None):
    items = list(items)
    if procs <= 1 or len(items) < 4:
        return [fn(x) for x in items]
    import multiprocessing
    if chunksize is None:
        chunksize = max(1, min(16, len(items) // (procs * 4)))
    with multiprocessing.Pool(procs) as pool:
        return list(pool.imap(fn, items, chunksize))


_scratch = None


def scratch():
    global _scratch
    if _scratch is None:
        _scratch = tempfile.mkdtemp(prefix='/tmp/scmp-')
    return _scratch


def cleanup():
    global _scratch
    if _scratch is not None:
        shutil.rmtree(_scratch, ignore_errors=True)
        _scratch = None


def sub_env(hashseed=None):
    env = dict(os.environ)
    env["PYTHONPATH"] = SRC
    env.pop("PYTHONHASHSEED", None)
    if hashseed is not None:
        env["PYTHONHASHSEED"] = str(hashseed)
    return env


# ------------------------------------------------------------------------------ command line
def report(evaluations, nontrivial, rule, failures, samples, **extra):
    failures = list(failures)
    d = {"evaluations": evaluations, "distinct_nontrivial": nontrivial, "rule": rule,
         "failures": failures[:20], "failure_count": len(failures), "samples": samples[:4]}
    d.update(extra)
    return d


def cli(run, replay, argv=None):
    """run(seed, count) -> report dict ;  replay(scenario) -> (ok, detail)"""
    argv = sys.argv[1:] if argv is None else argv
    try:
        if len(argv) == 3 and argv[0] == "run":
            d = run(int(argv[1]), int(argv[2]))
            sys.stdout.write(json.dumps(d) + "\n")
            return 0
        if len(argv) == 2 and argv[0] == "replay":
            with open(argv[1], encoding="utf8") as f:
                sc = json.load(f)
            if isinstance(sc, dict) and "scenario" in sc:
                sc = sc["scenario"]
            ok, detail = replay(sc)
            sys.stdout.write(json.dumps({"ok": bool(ok), "detail": detail}) + "\n")
            return 0 if ok else 1
        sys.stderr.write("usage: %s run <seed> <count> | replay <file.json>\n" % sys.argv[0])
        return 2
    finally:
        cleanup()
