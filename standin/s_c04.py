"""s_c04 - bounded stand-in for "Engine instances are isolated; interleaved queries do not interfere".

  python s_c04.py run <seed> <count>      python s_c04.py replay <file.json>

Cases: scenario i (seed = <seed>) draws a variant and its data:
 sequential / interleaved / threads (together ~70%): two histories A and B of <= 6 operations, each on its own YP():
   load <program text> (gen F1 programs and the compiled programs of gen F4; overwrite drawn), assertz / asserta /
   retract (abandoned after k answers) / retractall through the API, register <native fact table>, clear, atom,
   start <qid goal> (create a query generator), next <qid>, close <qid>, drop <qid> (forget it), run <goal> (all
   answers, at most 12), bounded <goal limit> (yp.evaluate_bounded; not in the threads variant).
   sequential = all of A then all of B (and B's observations are compared, then the other way round);
   interleaved = a drawn merge of the two step lists (queries of one engine stay suspended while the other engine works);
   threads = one thread per engine, step i of A and step i of B released together by a barrier.
   Oracle: the same history run alone on a fresh engine in a fresh state: the list of observations (answer of every
   next / run / retract, "END", exceptions as (type, text)) and the final dump (all-variable query, <= 12 answers, of
   every predicate a history mentions, plus sys.getrecursionlimit()) must be identical.
 threads_bounded (~10%): as threads, but A's step is evaluate_bounded(q, projection, limit) whose projection function
   - called while the limit is lowered - lets B's step run to completion before it returns (deterministic overlap);
   B runs len/2 on a 40 element list (needs more frames than A's limit).
 many_queries (3 fixed scenarios): ONE engine, 150 / 400 / 1000 queries of a two-goal clause started and left suspended after their first
   answer(s), then all resumed to the end in reverse order: each gives exactly the four answers it gives alone.
 two_queries (~20%): ONE engine with an F1 / F2 program, two (sometimes three) of its queries (or the same query twice)
   over disjoint variables (in ~60% over dynamic facts, some with variables, asserted beforehand through the API), no
   database change while they run, next() calls merged in a drawn order; each query must yield exactly the
   answers (and end) it yields when run alone.
non-trivial = two-engine variants: each history observed at least one answer (in a step or in its final dump) and the
steps really alternate (or run on two threads); two_queries: both queries have an answer and control switches between them while both are suspended.
"""
import random
import re
import sys
import threading

import s_common as S
from s_common import (E, gen, T, Acc, digest, goal_to_source, case_source, prep_query, RefLimit, is_exc, canon,
                      show)

RULE = __doc__.split('Cases:', 1)[1].strip()
CAP = 12
A_, B_, C_ = T.atom('a'), T.atom('b'), T.atom('c')
_HEX = re.compile(r'0x[0-9a-fA-F]+')


def norm_exc(e):
    return ['EXC', type(e).__name__, _HEX.sub('0x?', str(e))[:160]]


def jans(a):
    return S.jsonable(a)


# ------------------------------------------------------------------ one engine executing a history
class EngineRun(object):
    def __init__(self, hold=None):
        self.real = S.RealEngine()
        self.yp = self.real.yp
        self.gens = {}
        self.obs = []
        self.keys = []
        self.hold = hold

    def note_keys(self, term):
        try:
            k = T.name_arity(term)
        except ValueError:
            return
        if k not in self.keys and k[0] not in ('=', '\\=', 'findall', 'call', 'once', 'assertz', 'asserta', 'retract',
                                               'retractall'):
            self.keys.append(k)

    def note_goal(self, goal):
        tag = goal[0]
        if tag == 'call':
            t = goal[1]
            if t[0] in ('atom', 'fun'):
                self.note_keys(t)
                if t[0] == 'fun' and t[1] in ('assertz', 'asserta', 'retract', 'retractall', 'once', 'call'):
                    if t[2][0][0] in ('atom', 'fun'):
                        self.note_keys(t[2][0])
        elif tag in (',', ';', '->'):
            self.note_goal(goal[1])
            self.note_goal(goal[2])
        elif tag == '\\+':
            self.note_goal(goal[1])

    def step(self, op):
        kind = op[0]
        try:
            o = getattr(self, 'op_' + kind)(*op[1:])
        except Exception as e:             # noqa: every exception is an observation
            if isinstance(e, S.Timeout):
                raise
            o = norm_exc(e)
        self.obs.append([kind, o])

    # -- operations
    def op_load(self, src, overwrite):
        self.real.consult(src, overwrite=overwrite)
        return 'ok'

    def op_assertz(self, term):
        term = S.untuple(term)
        self.note_keys(term)
        self.real.assertz(term)
        return 'ok'

    def op_asserta(self, term):
        term = S.untuple(term)
        self.note_keys(term)
        self.real.asserta(term)
        return 'ok'

    def op_retract(self, term, k):
        term = S.untuple(term)
        self.note_keys(term)
        return jans(self.real.retract(term, k))

    def op_retractall(self, term):
        term = S.untuple(term)
        self.note_keys(term)
        return jans(self.real.retractall(term))

    def op_register(self, name, rows):
        rows = [tuple(S.untuple(t) for t in r) for r in rows]
        self.real.register_facts(name, rows)
        k = (name, len(rows[0]) if rows else 0)
        if k not in self.keys:
            self.keys.append(k)
        return 'ok'

    def op_clear(self):
        self.real.clear()
        return 'ok'

    def op_atom(self, name):
        a = self.yp.atom(name)
        return [a.name(), a is self.yp.atom(name)]

    def op_start(self, qid, goal):
        goal = S.untuple(goal)
        self.note_goal(goal)
        name, eargs, evars = prep_query(self.real, goal)
        self.gens[qid] = (self.yp.query(name, eargs), evars)
        return 'started'

    def op_next(self, qid):
        g = self.gens.get(qid)
        if g is None:
            return 'no such query'
        try:
            next(g[0])
        except StopIteration:
            return 'END'
        return jans(S.snap(g[1]))

    def op_close(self, qid):
        g = self.gens.pop(qid, None)
        if g is not None:
            g[0].close()
        return 'closed'

    def op_drop(self, qid):
        self.gens.pop(qid, None)
        S.collect()
        return 'dropped'

    def op_run(self, goal):
        goal = S.untuple(goal)
        self.note_goal(goal)
        name, eargs, evars = prep_query(self.real, goal)
        out = []
        q = self.yp.query(name, eargs)
        try:
            for _ in q:
                out.append(jans(S.snap(evars)))
                if len(out) >= CAP:
                    break
        except Exception as e:
            out.append(norm_exc(e))
        finally:
            q.close()
        return out

    def op_bounded(self, goal, limit, hold=False):
        goal = S.untuple(goal)
        self.note_goal(goal)
        name, eargs, evars = prep_query(self.real, goal)
        state = {'held': False}

        def proj(_x):
            if hold and self.hold is not None and not state['held']:
                state['held'] = True
                self.hold()
            return jans(S.snap(evars))
        try:
            r = self.yp.evaluate_bounded(self.yp.query(name, eargs), proj, limit)
        finally:
            if hold and self.hold is not None and not state['held']:
                state['held'] = True
                self.hold()
        return r[:CAP]

    # -- the end
    def final(self):
        for qid in sorted(self.gens):
            try:
                self.gens[qid][0].close()
            except Exception as e:
                self.obs.append(['final close', norm_exc(e)])
        self.gens = {}
        dump = {}
        for name, ar in self.keys:
            args = tuple(('var', 'V%d' % i) for i in range(ar))
            t = ('fun', name, args) if ar else ('atom', name)
            dump['%s/%d' % (name, ar)] = jans(self.real.answers(('call', t), max_answers=CAP))
        dump['recursionlimit'] = sys.getrecursionlimit()
        return dump


def load_keys(run, history):
    """every predicate defined by a loaded text is part of the final dump"""
    for op in history:
        if op[0] == 'load':
            for m in re.finditer(r"^([a-z][A-Za-z0-9_]*)(\(([^)]*)\))?(?= :-|\.)", op[1], re.M):
                name = m.group(1)
                # arity: count top level commas of the head's argument text
                ar = 0
                if m.group(2):
                    ar = _arity(op[1][m.start(2):])
                if (name, ar) not in run.keys:
                    run.keys.append((name, ar))


def _arity(text):
    depth = 0
    n = 1
    for ch in text:
        if ch in '([':
            depth += 1
        elif ch in ')]':
            depth -= 1
            if depth == 0:
                return n
        elif ch == ',' and depth == 1:
            n += 1
    return n


def precompile(history):
    for op in history:
        if op[0] == 'load':
            try:
                S.compile_source(op[1])
            except Exception:
                pass


def solo(history):
    sys.setrecursionlimit(S.BASE_RECURSION)
    r = EngineRun()
    load_keys(r, history)
    for op in history:
        r.step(op)
    return r.obs, r.final()


def diff_obs(who, got, want):
    go, gf = got
    wo, wf = want
    for i, (a, b) in enumerate(zip(go, wo)):
        if a != b:
            return 'engine %s, step %d: observed %s, alone it is %s' % (who, i, _short(a), _short(b))
    if len(go) != len(wo):
        return 'engine %s: %d observations, alone %d' % (who, len(go), len(wo))
    for k in wf:
        if gf.get(k) != wf[k]:
            return 'engine %s, final dump of %s: %s, alone it is %s' % (who, k, _short(gf.get(k)), _short(wf[k]))
    return None


def _short(x):
    s = repr(x)
    return s if len(s) < 300 else s[:300] + '...'


# ------------------------------------------------------------------ variants with two engines
def run_two(sc):
    """-> (ok, detail, nontrivial)"""
    ha, hb = sc['A'], sc['B']
    variant = sc['variant']
    precompile(ha)
    precompile(hb)
    want_a = solo(ha)
    want_b = solo(hb)
    sys.setrecursionlimit(S.BASE_RECURSION)
    if variant in ('sequential', 'interleaved'):
        ra, rb = EngineRun(), EngineRun()
        load_keys(ra, ha)
        load_keys(rb, hb)
        ia = ib = 0
        for who in sc['order']:
            if who == 0:
                ra.step(ha[ia])
                ia += 1
            else:
                rb.step(hb[ib])
                ib += 1
        # finals also alternate: A's dump while B's generators are still suspended
        got_a = (ra.obs, ra.final())
        got_b = (rb.obs, rb.final())
    else:
        got_a, got_b = run_threads(ha, hb, variant == 'threads_bounded')
    sys.setrecursionlimit(S.BASE_RECURSION)
    answers_a = any(_has_answer(o) for o in want_a[0]) or any(v for k, v in want_a[1].items() if k != 'recursionlimit')
    answers_b = any(_has_answer(o) for o in want_b[0]) or any(v for k, v in want_b[1].items() if k != 'recursionlimit')
    order = sc.get('order') or []
    alternates = variant.startswith('threads') or sum(1 for x, y in zip(order, order[1:]) if x != y) >= (1 if variant == 'sequential' else 2)
    nontrivial = answers_a and answers_b and alternates
    d = diff_obs('A', got_a, want_a) or diff_obs('B', got_b, want_b)
    if d:
        return False, d, nontrivial
    return True, 'ok', nontrivial


def _has_answer(o):
    kind, v = o
    if kind == 'next':
        return isinstance(v, list) and v[:1] != ['EXC']
    if kind in ('run', 'bounded', 'retract'):
        return isinstance(v, list) and len(v) > 0
    return False


def run_threads(ha, hb, bounded_hold):
    """step i of both histories is released by a barrier; -> (got_a, got_b).  With bounded_hold, a step of A that is
    ['bounded', goal, limit, True] keeps evaluate_bounded open (inside its projection function) until B's step of the
    same index is finished."""
    n = max(len(ha), len(hb))
    barrier = threading.Barrier(2, timeout=30)
    inside = [threading.Event() for _ in range(n + 1)]
    done = [threading.Event() for _ in range(n + 1)]
    cur = {'i': 0}
    results = {}
    errors = []

    def hold():
        i = cur['i']
        inside[i].set()
        done[i].wait(30)

    def body(who, hist, run):
        try:
            load_keys(run, hist)
            for i in range(n):
                barrier.wait()
                if who == 'A':
                    cur['i'] = i
                holding = bounded_hold and i < len(ha) and ha[i][0] == 'bounded' and len(ha[i]) > 3 and ha[i][3]
                if who == 'B' and holding:
                    inside[i].wait(30)
                if i < len(hist):
                    run.step(hist[i])
                if who == 'B' and holding:
                    done[i].set()
            barrier.wait()
            results[who] = (run.obs, run.final())
        except Exception as e:             # noqa
            errors.append('%s: %r' % (who, e))
            try:
                barrier.abort()
            except Exception:
                pass
            for ev in done + inside:
                ev.set()

    ra, rb = EngineRun(hold=hold), EngineRun()
    ta = threading.Thread(target=body, args=('A', ha, ra))
    tb = threading.Thread(target=body, args=('B', hb, rb))
    ta.start()
    tb.start()
    ta.join(60)
    tb.join(60)
    if errors or 'A' not in results or 'B' not in results:
        raise RuntimeError('thread harness: %s' % (errors or 'thread did not finish'))
    return results['A'], results['B']


# ------------------------------------------------------------------ variant: queries suspended side by side in ONE engine
def run_queries(sc):
    """-> (ok, detail, nontrivial)"""
    goals = [S.untuple(g) for g in sc['goals']]
    loads = sc['loads']

    def engine():
        real = S.RealEngine()
        for src, ow in loads:
            real.consult(src, overwrite=ow)
        for t in sc.get('facts', []):
            real.assertz(S.untuple(t))
        return real

    def alone(goal):
        real = engine()
        name, eargs, evars = prep_query(real, goal)
        out = []
        q = real.yp.query(name, eargs)
        try:
            for _ in q:
                out.append(S.snap(evars))
                if len(out) >= CAP:
                    break
        except Exception as e:
            out.append(tuple(norm_exc(e)))
        finally:
            q.close()
        return out
    want = [alone(g) for g in goals]
    real = engine()
    qs = []
    for g in goals:
        name, eargs, evars = prep_query(real, g)
        qs.append([real.yp.query(name, eargs), evars, [], False])
    switches = 0
    last = None
    for who in sc['order']:
        if who == -1:
            try:
                real.consult('c04_down(X) :- c04_down(s(X)).\n', overwrite=True)
                lim_before = sys.getrecursionlimit()
                real.yp.evaluate_bounded(real.yp.query('c04_down', [real.yp.atom('z')]), lambda x: x, 400)
                if sys.getrecursionlimit() != lim_before:
                    return False, 'evaluate_bounded left the recursion limit at %d (was %d)' % (sys.getrecursionlimit(), lim_before), True
            except Exception as e:      # noqa
                return False, 'aborted evaluate_bounded of an unrelated query raised %s: %s' % (type(e).__name__, e), True
            continue
        q = qs[who]
        if q[3] or len(q[2]) >= CAP:
            continue
        if last is not None and last != who and not qs[last][3] and qs[last][2]:
            switches += 1
        last = who
        try:
            next(q[0])
            q[2].append(S.snap(q[1]))
        except StopIteration:
            q[3] = True
        except Exception as e:
            q[2].append(tuple(norm_exc(e)))
            q[3] = True
        # the other suspended queries still show their own current answer
        for j, o in enumerate(qs):
            if j != who and o[2] and not o[3] and not is_exc(o[2][-1]):
                now = S.snap(o[1])
                if now != o[2][-1]:
                    return False, ('after a step of query %d the variables of suspended query %d show %s, its current answer is %s'
                                   % (who, j, S.show_ans(now), S.show_ans(o[2][-1]))), True
    for q in qs:
        q[0].close()
    nontrivial = all(w and not is_exc(w[0]) for w in want[:2]) and switches >= 2
    for j, q in enumerate(qs):
        got, w = q[2], want[j]
        if got != w[:len(got)]:
            return False, 'query %d interleaved gives %s, alone %s' % (j, show(got), show(w)), nontrivial
        if q[3] and len(got) != len(w) and not (got and is_exc(got[-1])):
            return False, 'query %d ended after %d answers, alone it has %d' % (j, len(got), len(w)), nontrivial
    return True, 'ok', nontrivial


# ------------------------------------------------------------------ scenario generation
_pool_cache = {}


def program_pool(seed, n):
    key = (seed, n)
    if key not in _pool_cache:
        progs = []
        for case in gen.cases('F1', seed, n):
            if not S.uses_db(case):
                progs.append(dict(kind='F1', src=T.to_source(case.program), queries=[q for q in case.queries
                                                                                    if not S.excluded_query('', goal_to_source(q))],
                                  heads=[h for h, _b in case.program]))
        for case in gen.cases('F4', seed, n):
            if case.history is None:
                src = case_source(case)
                src = '\n'.join(l for l in src.split('\n') if not l.startswith('%')) + '\n'
                progs.append(dict(kind='F4', src=src, queries=list(case.queries), heads=[]))
        two = []
        for fam in ('F1', 'F2'):
            for case in gen.cases(fam, seed, n):
                if not S.uses_db(case):
                    qs_ = [q for q in case.queries if not S.excluded_query('', goal_to_source(q))]
                    if len(qs_) >= 1:
                        two.append(dict(loads=[[T.to_source(case.program), True]] + [[T.to_source(p), ow] for p, ow in case.more],
                                        queries=qs_, id=case.id))
        _pool_cache.clear()
        _pool_cache[key] = (progs, two)
    return _pool_cache[key]


def db_term(rng):
    X = T.var('X')
    c = rng.choice([A_, B_, T.int_(0), T.int_(1)])
    return rng.choice([T.fun('p', c), T.fun('p', c), T.fun('p', X), T.fun('r', c, rng.choice([A_, T.int_(1)])),
                       T.atom('flag'), T.fun('s', T.fun('f', X)), T.fun('q', c)])


def draw_goal(rng, prog):
    r = rng.random()
    if prog['queries'] and r < 0.6:
        return rng.choice(prog['queries'])
    if r < 0.8:
        X = T.var('X')
        return rng.choice([T.call(T.fun('p', X)), T.call(T.fun('r', X, T.var('Y'))), T.call(T.fun('q', X)),
                           T.call(T.fun('retract', T.fun('p', X))), T.call(T.atom('flag'))])
    return gen._f4_goal(rng)


def draw_history(rng, progs, allow_bounded):
    prog = rng.choice(progs)
    ops = [['load', prog['src'], True]]
    opened = []
    nq = 0
    for _ in range(rng.randint(2, 5)):
        r = rng.random()
        if opened and r < 0.32:
            ops.append(['next', rng.choice(opened)])
        elif r < 0.5:
            nq += 1
            ops.append(['start', nq, S.jsonable(draw_goal(rng, prog))])
            opened.append(nq)
        elif r < 0.6:
            ops.append([rng.choice(['assertz', 'assertz', 'asserta']), S.jsonable(db_term(rng))])
        elif r < 0.66:
            ops.append(['retract', S.jsonable(db_term(rng)), rng.choice([None, 1, 0])])
        elif r < 0.70:
            ops.append(['retractall', S.jsonable(db_term(rng))])
        elif r < 0.75:
            if prog['heads'] and rng.random() < 0.6:
                h = rng.choice(prog['heads'])
                name, ar = T.name_arity(h)
            else:
                name, ar = rng.choice([('p', 1), ('r', 2), ('nat', 1)])
            if ar == 0:
                name, ar = 'p', 1
            rows = [[S.jsonable(rng.choice([A_, B_, T.int_(1), T.fun('f', C_)])) for _ in range(ar)] for _ in range(rng.randint(1, 3))]
            ops.append(['register', name, rows])
        elif r < 0.79:
            ops.append(['clear'])
        elif r < 0.82:
            ops.append(['atom', rng.choice(['a', 'zz', '[]', 'p'])])
        elif r < 0.87 and opened:
            qid = rng.choice(opened)
            opened.remove(qid)
            ops.append([rng.choice(['close', 'drop']), qid])
        elif r < 0.91:
            other = rng.choice(progs)
            ops.append(['load', other['src'], rng.random() < 0.5])
        elif r < 0.96 or not allow_bounded:
            ops.append(['run', S.jsonable(draw_goal(rng, prog))])
        else:
            ops.append(['bounded', S.jsonable(draw_goal(rng, prog)), rng.choice([150, 200, 400])])
    return ops[:6]


def _renumber(ops):
    return [[op[0], op[1] + 10] + list(op[2:]) if op[0] in ('start', 'next', 'close', 'drop') else op for op in ops]


LEN_SRC = 'len([],z).\nlen([_|T],s(N)) :- len(T,N).\nnat(z).\nnat(s(X)) :- nat(X).\n'


def run_many(sc):
    """MANY simultaneously suspended queries of one engine (each over its own variables): every one still produces the answers it
    produces alone - there is no bound on how many may be open"""
    from yldprolog.compiler import compile_prolog_from_string
    real = S.RealEngine()
    yp = real.yp
    yp.load_script_from_string(compile_prolog_from_string('a(1). a(2).\nt(X, Y) :- a(X), a(Y).\nu(X) :- t(X, _), t(_, X).\n'))
    want = [(1, 1), (1, 2), (2, 1), (2, 2)]
    open_ = []
    probs = []
    try:
        for j in range(sc['n']):
            X, Y = yp.variable(), yp.variable()
            q = yp.query('t', [X, Y])
            got = []
            for _ in range(sc['take']):
                next(q)
                got.append((E.to_python(X), E.to_python(Y)))
            if got != want[:sc['take']]:
                probs.append('query #%d (with %d others suspended) starts with %s' % (j, j, got))
                break
            open_.append((q, X, Y, got))
        # all of them are suspended now: run them to the end in reverse order of creation
        for j, (q, X, Y, got) in reversed(list(enumerate(open_))):
            for _ in q:
                got.append((E.to_python(X), E.to_python(Y)))
            if got != want:
                probs.append('query #%d resumed among %d suspended ones gives %s' % (j, len(open_), got))
                break
    except Exception as e:      # noqa: an exception is an observation here
        probs.append('with %d queries suspended: %s: %s' % (len(open_), type(e).__name__, str(e)[:100]))
    finally:
        for q, _x, _y, _g in open_:
            q.close()
    return not probs, '; '.join(probs) or 'ok', True


def scenario(seed, i, count):
    if i in (3, 7, 11):
        return dict(driver='s_c04', variant='many_queries', seed=seed, index=i, n={3: 150, 7: 400, 11: 1000}[i], take={3: 1, 7: 2, 11: 1}[i])
    rng = random.Random('c04/%d/%d' % (seed, i))
    progs, two = program_pool(seed, max(20, min(count, 300)))
    r = rng.random()
    if r < 0.2 and two:
        c = rng.choice(two)
        k = 2 if rng.random() < 0.8 else 3
        goals = [rng.choice(c['queries']) for _ in range(k)]
        if rng.random() < 0.2:
            goals[1] = goals[0]
        facts = []
        if rng.random() < 0.6:
            # dynamic facts (some with variables) asserted through the API before the queries start
            X, Y = T.var('X'), T.var('Y')
            cands = [T.fun('p', X), T.fun('p', A_), T.fun('p', T.fun('f', X)), T.fun('r', X, X), T.fun('r', A_, X),
                     T.fun('r', X, T.fun('f', Y)), T.fun('s', T.fun('g', X, X)), T.fun('p', B_), T.fun('r', B_, C_)]
            facts = [rng.choice(cands) for _ in range(rng.randint(2, 5))]
            P, Q, R = T.var('P'), T.var('Q'), T.var('R')
            qc = [T.call(T.fun('p', P)), T.call(T.fun('r', P, Q)), T.call(T.fun('r', P, A_)), T.call(T.fun('s', T.fun('g', P, Q))),
                  T.conj(T.call(T.fun('p', P)), T.eq(P, T.fun('f', Q)), T.call(T.fun('p', R))),
                  T.conj(T.call(T.fun('r', P, Q)), T.eq(P, B_), T.call(T.fun('r', R, Q))),
                  T.conj(T.call(T.fun('p', P)), T.call(T.fun('p', Q)))]
            goals = [rng.choice(qc) for _ in range(k)]
        order = [rng.randrange(k) for _ in range(rng.randint(4, 30))]
        if rng.random() < 0.35:
            # -1: while the queries are suspended, another (unrelated, endlessly recursive) query of the SAME engine is run
            # through evaluate_bounded and cut off by the depth limit (one thread; the limit is restored before the others resume)
            order.insert(rng.randint(1, len(order)), -1)
        return dict(driver='s_c04', variant='two_queries', seed=seed, index=i, case_id=c['id'], loads=c['loads'],
                    facts=S.jsonable(facts), facts_text=[T.term_to_source(f) for f in facts],
                    goals=S.jsonable(goals), goals_text=[goal_to_source(g) for g in goals], order=order)
    # evaluate_bounded's interpreter-wide recursion limit is explicitly outside the statement of C04:
    # the threads_bounded variant is kept for replay but no longer generated
    if False and r < 0.3:
        limit = rng.choice([60, 80, 100])
        n = rng.choice([40, 60])
        # B prepares its query first (so that only the ENGINE works while A's limit is in force) ...
        hb = [['load', LEN_SRC, True],
              ['start', 1, S.jsonable(T.call(T.fun('len', T.mklist([A_] * n), T.var('P'))))],
              ['next', 1]]
        # ... and A's third step is the evaluate_bounded that is held open while B's third step runs
        ha = [['load', LEN_SRC, True], ['atom', 'a'],
              ['bounded', S.jsonable(T.call(T.fun('nat', T.var('P')))), limit, True]]
        if rng.random() < 0.5:
            ha = ha + _renumber(draw_history(rng, progs, False)[1:3])
            hb = hb + _renumber(draw_history(rng, progs, False)[1:3])
        return dict(driver='s_c04', variant='threads_bounded', seed=seed, index=i, A=ha, B=hb)
    variant = rng.choice(['sequential', 'interleaved', 'interleaved', 'interleaved', 'threads', 'threads'])
    ha = draw_history(rng, progs, variant != 'threads')
    hb = draw_history(rng, progs, variant != 'threads')
    if rng.random() < 0.15:
        hb = [list(op) for op in ha]          # the same history on both engines
    sc = dict(driver='s_c04', variant=variant, seed=seed, index=i, A=ha, B=hb)
    if variant == 'sequential':
        sc['order'] = ([0] * len(ha) + [1] * len(hb)) if rng.random() < 0.5 else ([1] * len(hb) + [0] * len(ha))
    elif variant == 'interleaved':
        order = [0] * len(ha) + [1] * len(hb)
        rng.shuffle(order)
        sc['order'] = order
    return sc


def run_scenario(sc):
    if sc['variant'] == 'many_queries':
        return run_many(sc)
    if sc['variant'] == 'two_queries':
        return run_queries(sc)
    return run_two(sc)


def describe(sc):
    """short text form for the samples"""
    def op_text(op):
        if op[0] == 'load':
            return 'load(%d chars, overwrite=%s)' % (len(op[1]), op[2])
        if op[0] in ('start', 'run', 'bounded'):
            g = op[2] if op[0] == 'start' else op[1]
            rest = op[3:] if op[0] == 'start' else op[2:]
            return '%s %s %s' % (op[0], op[1] if op[0] == 'start' else '', goal_to_source(S.untuple(g))) + (' %s' % rest if rest else '')
        if op[0] in ('assertz', 'asserta', 'retract', 'retractall'):
            return '%s(%s)%s' % (op[0], T.term_to_source(S.untuple(op[1])), '' if len(op) < 3 else ' take %s' % op[2])
        return ' '.join(map(str, op))
    d = {k: v for k, v in sc.items() if k not in ('A', 'B', 'loads', 'goals')}
    for k in ('A', 'B'):
        if k in sc:
            d[k] = [op_text(op) for op in sc[k]]
    return d


def worker(args):
    seed, count, part, parts = args
    acc = Acc()
    for i in range(count):
        if i % parts != part:
            continue
        sc = scenario(seed, i, count)
        try:
            ok, detail, nt = S.with_timeout(60, run_scenario, sc)
        except S.Timeout:
            acc.skip('timeout')
            continue
        key = {k: v for k, v in sc.items() if k not in ('seed', 'index')}
        acc.evaluation(digest(key) if nt else None)
        if not ok:
            acc.fail((i,), sc, detail, cls='%s: %s' % (sc['variant'], re.sub(r'\d+', '#', detail)[:70]))
        elif nt:
            acc.sample((i,), describe(sc))
    return acc.pack()


def run(seed, count):
    return S.merge(S.fan_out(worker, seed, count), RULE)


def replay(sc):
    ok, detail, _ = run_scenario(sc)
    return ok, detail


if __name__ == '__main__':
    S.cli(run, replay)
