#!/usr/bin/env python3
"""Plain-assert tests for g4reader / corrupt.   Run:  /venv/bin/python test_g4reader.py
(also collectable by pytest).  The last group cross-checks against the real ANTLR parser via
recog_diff (skipped when yldprolog/antlr4 cannot be imported)."""

import os
import random
import sys

sys.path.insert(0, os.path.dirname(os.path.abspath(__file__)))

import g4reader as g                                    # noqa: E402
from g4reader import tokenize, recognise, parse_program, PlSyntaxError   # noqa: E402
import corrupt                                          # noqa: E402


def kinds(s):
    return [t.kind for t in tokenize(s)]


def texts(s):
    return [t.text for t in tokenize(s)]


def lexerr(s):
    try:
        tokenize(s)
    except PlSyntaxError as exc:
        return exc
    return None


def A(name):
    return ("atom", name)


def C(name):
    return ("call", ("atom", name))


def body(s):
    prog = parse_program(s)
    assert len(prog) == 1, prog
    return prog[0][1]


def head(s):
    return parse_program(s)[0][0]


def all_three(s):
    r = (g.recognise(s), g.recognise_full_earley(s), g.recognise_descent(s))
    assert r[0] == r[1] == r[2], (s, r)
    return r[0]


# ------------------------------------------------------------------------------------------
# tokenizer
# ------------------------------------------------------------------------------------------

def test_tok_literals_and_order():
    assert kinds("foo(X) :- bar, baz ; q -> r.") == [
        "ATOM", "(", "VARIABLE", ")", ":-", "ATOM", ",", "ATOM", ";", "ATOM", "->", "ATOM", "."]
    assert kinds("\\+ a") == ["\\+", "ATOM"]
    assert kinds("[H|T]") == ["LBRACK", "VARIABLE", "|", "VARIABLE", "RBRACK"]
    assert kinds("foo/2") == ["ATOM", "/", "NUMERAL"]


def test_tok_keywords_vs_atoms():
    assert kinds("true fail !") == ["TRUE", "FAIL", "CUT"]
    assert kinds("truex true_ true1 failing") == ["ATOM"] * 4
    assert kinds("True Fail") == ["VARIABLE", "VARIABLE"]


def test_tok_variables():
    assert kinds("X Xs _ _x _1 X_1 A1b") == ["VARIABLE"] * 7
    # LCLETTER contains '_' but VARIABLE is defined first: never an ATOM
    assert kinds("_foo") == ["VARIABLE"]
    assert kinds("a_b aB a1") == ["ATOM"] * 3


def test_tok_numerals():
    assert kinds("0 007 123") == ["NUMERAL"] * 3
    assert texts("12ab") == ["12", "ab"]
    assert texts("12Ab") == ["12", "Ab"]
    assert g.numeral_spellings("p(007, 1). q(10).") == ["007", "1", "10"]


def test_tok_operators_longest_match():
    assert texts("X=Y") == ["X", "=", "Y"]
    assert texts("X==Y") == ["X", "==", "Y"]
    assert texts("X\\==Y") == ["X", "\\==", "Y"]
    assert texts("X\\=Y") == ["X", "\\=", "Y"]
    assert texts("X=<Y") == ["X", "=<", "Y"]
    assert texts("X>=Y") == ["X", ">=", "Y"]
    assert texts("X<=Y") == ["X", "<", "=", "Y"]
    assert texts("X=>Y") == ["X", "=", ">", "Y"]
    assert texts("X===Y") == ["X", "==", "=", "Y"]
    assert kinds("- + -> ->> --") == ["UNOP", "UNOP", "->", "->", "BINOP", "UNOP", "UNOP"]
    assert texts("a:-\\+b") == ["a", ":-", "\\+", "b"]
    assert texts("a:--b") == ["a", ":-", "-", "b"]
    assert texts("\\++a") == ["\\+", "+", "a"]


def test_tok_errors():
    for bad in ["#", "$", '"', "@", "a : b", "\\", "a \\ b", "&", "*", "^", "~", "`", "{", "}", "?",
                "a \x0c b", "a \x0b b", "a\xa0b", "\xe9", "caf\xe9", "λ", "\x00"]:
        assert lexerr(bad) is not None, bad
    e = lexerr("foo(a).\n  #")
    assert (e.pos, e.line, e.col) == (10, 2, 2)


def test_tok_positions():
    t = tokenize("a :- b,\n   c.")
    assert [(x.text, x.pos, x.line, x.col) for x in t] == [
        ("a", 0, 1, 0), (":-", 2, 1, 2), ("b", 5, 1, 5), (",", 6, 1, 6), ("c", 11, 2, 3), (".", 12, 2, 4)]
    t = tokenize("'a\nb' c")
    assert (t[1].text, t[1].line, t[1].col) == ("c", 2, 3)


def test_tok_whitespace_and_comments():
    assert kinds("a.\t\r\n b.") == ["ATOM", ".", "ATOM", "."]
    assert kinds("a. % comment . ( ' [ \n b.") == ["ATOM", ".", "ATOM", "."]
    assert kinds("% c\r b.") == ["ATOM", "."]                 # CR alone terminates a comment
    assert kinds("% c1\n% c2\n") == []
    assert kinds("%\n") == []
    # non-greedy: the comment stops at the FIRST newline
    assert kinds("% c\n a \n") == ["ATOM"]


def test_tok_comment_at_eof_is_an_error():
    assert lexerr("foo. % no newline") is not None
    assert lexerr("%") is not None
    assert lexerr("foo. % ok\n") is None
    assert lexerr("foo. % ok\r") is None
    assert not recognise("foo(a).\n% trailing comment")
    assert recognise("foo(a).\n% trailing comment\n")


def test_tok_strings():
    assert texts("'abc'") == ["'abc'"]
    assert texts("''") == ["''"]
    assert texts("'a b' 'c'") == ["'a b'", "'c'"]
    assert texts("'it\\'s'") == ["'it\\'s'"]                  # 'it\'s'
    assert texts("'a%b'") == ["'a%b'"]                        # % inside quotes is no comment
    assert texts("'a\nb'") == ["'a\nb'"]                      # newline allowed inside
    assert texts("'a\"b'") == ["'a\"b'"]
    assert texts("'\\n'") == ["'\\n'"]                        # backslash + letter: two plain chars
    assert texts("'a\\\\\\'b'") == ["'a\\\\\\'b'"]            # 'a\\\'b'
    assert texts("'\xe9λ'") == ["'\xe9λ'"]          # ~'\'' matches any character
    assert kinds("'abc'(x)") == ["STRING", "(", "ATOM", ")"]


def test_tok_strings_backslash_before_closing_quote():
    # 'a\'  : the quote after the backslash is BOTH a possible end and a possible escaped quote;
    # the scan goes on, reaches end of input, falls back to the last accepting position.
    assert texts("'a\\'") == ["'a\\'"]
    assert texts("'a\\\\'") == ["'a\\\\'"]                     # 'a\\'
    assert texts("'\\'") == ["'\\'"]
    # ...but if ANY later quote exists the longest match swallows everything up to it
    e = lexerr("'a\\' , 'b'")                                  # 'a\' , 'b'  -> STRING, b, then lone quote
    assert e is not None and e.pos == 9
    assert texts("'a\\\\' foo 'b") == ["'a\\\\' foo '", "b"]
    e = lexerr("p('a\\\\'). q('b').")                         # p('a\\'). q('b').  -> p ( STRING b, lone quote
    assert e is not None and e.pos == 14
    assert texts("'a\\'b'") == ["'a\\'b'"]
    assert texts("'a\\''") == ["'a\\''"]                       # 'a\''  escaped quote then closing quote
    assert texts("'a\\'' x") == ["'a\\''", "x"]
    assert texts("'' ''") == ["''", "''"]
    assert lexerr("'''") is not None                            # '' then unterminated '


def test_tok_unterminated():
    assert lexerr("'abc") is not None
    assert lexerr("foo('abc).") is not None
    e = lexerr("foo(a). 'unterminated")
    assert e.pos == 8 and "unterminated" in e.msg
    assert lexerr("'") is not None


def test_unquote():
    assert g.unquote("'abc'") == "abc"
    assert g.unquote("'it\\'s'") == "it's"
    assert g.unquote("'a\\\\b'") == "ab"                        # every backslash is deleted
    assert g.unquote("'a\\nb'") == "anb"
    assert g.unquote("''") == ""


# ------------------------------------------------------------------------------------------
# recogniser
# ------------------------------------------------------------------------------------------

ACCEPT = [
    "", " \n\t\r", "% c\n", "foo.", "foo(a).", "foo(a) :- bar(a).", ":- foo.", ":- foo(a, b).",
    ":- true.", ":- !.", "foo :- true.", "foo :- fail.", "foo :- !.", "foo :- a, !, b.",
    "foo :- \\+ a.", "foo :- \\+ \\+ a.", "foo :- (a).", "foo :- ((a, b)).", "foo :- (a ; b) -> c.",
    "foo :- a -> b ; c.", "foo().", "foo( ).", "p([]).", "p([a]).", "p([a, b]).", "p([H|T]).",
    "p([a, b|T]).", "p([a,|T]).", "p([[]|T]).", "p(X) :- X = a.", "p(X) :- X = Y = Z.",
    "p(X) :- =(X, a).", "p(X) :- \\==(X, a).", "p :- - a.", "p(- 1).", "p(+ - 1).", "p((a)).",
    "p(foo/2).", "p('a b').", "'a b'.", "'a b'(c).", "3.", "3(x).", "X.", "X :- Y.", "[a].", "[].",
    "true.", "fail.", "!.", "true :- true.", "a = b.", "a = b :- c = d.", "X = (a) .",
    "foo(a).foo(b).", "foo(a). % c\nfoo(b).", "p(a=b).", "p(a = b, c = d).", "p :- a = b, c.",
    "p :- (a = b).", "p :- ((a) = (b)).", "p :- ([a]).", "p(- (1)).", "p :- \\+ (a, b), c.",
    "p :- - - a.", "p(_ , _).", "p :- X == Y -> true ; fail.", "p('') :- ''.",
]

REJECT = [
    ".", "foo", "foo(a)", "foo(a) :- .", "foo(a) :- bar(a)", "foo :- .", ":- .", ":- a, b.", ":- a :- b.",
    ":- \\+ a.", ":- (a).x", "foo(a) :- b(X),, c(X).", "foo(a). ) garbage", "foo(a). foo",
    "foo(a). 'unterminated", "foo(a). #$@ foo(b).", "foo :- (a ; b.", "foo :- a ; b).", "foo :- a ;; b.",
    "foo :- a ; .", "foo :- , a.", "foo :- a -> .", "foo :- -> a.", "foo :- \\+ .", "foo(a)..", "foo(a,).",
    "foo(,a).", "foo(a b).", "foo((a, b)).", "p([a|b]).", "p([a|T|U]).", "p([|T]).", "p([a,b).", "p(a].",
    "p([a|[]]).", "p([a|_]) :- .", "p(X) :- X = .", "p(X) :- = X.", "p(X) :- X = = Y.", "p(foo/bar).",
    "p(foo/X).", "p(X/2).", "p('a'/2).", "p(3/2).", "foo :- a :- b.", "foo :- a. b", "foo(a) :- b, .",
    "foo :- (a, b), .", "foo :- ().", "foo :- ( ).", "p(()).", "X Y.", "foo bar.", "1 2.", "foo(a)(b).",
    "foo :- a | b.", "foo | bar.", "p :- a , b ->.", "p(-).", "p(- ).", "p(a, - ).", "p :- !(a).",
    "p :- true(a).", "p(true).", "p(fail).", "p(!).", "p([true]).", "p :- X = true.",
    "foo(a). % comment without newline", "foo(a) :- bar(a). #", "p(\"s\").", "p(a:b).", "p(a*b).",
    "p(1.5).", "p(a) :- b(1.0).", "[a|T].x", "p([a,,b]).", "p(a;b).", "p(a->b).", "p(\\+ a).",
    "p :- \\+.", "p :- a \\+ b.", "p ::- a.", "p :- - .", "?- foo.", "p --> q.",
]


def test_accept():
    for s in ACCEPT:
        assert all_three(s), s
        parse_program(s)


def test_reject():
    for s in REJECT:
        assert not all_three(s), s
        try:
            parse_program(s)
        except PlSyntaxError:
            pass
        else:
            raise AssertionError("parse_program accepted %r" % s)


def test_true_is_not_a_term():
    # TRUE/FAIL/CUT are tokens of simplepredicate only; quoted they are ordinary atoms
    assert not recognise("p(true).")
    assert recognise("p('true').")
    assert recognise("p :- true.")
    assert not recognise("p :- true = X.")
    assert recognise("p(truex).")


def test_full_stop_needs_no_following_whitespace():
    assert recognise("a.b.c.")
    assert len(parse_program("a.b.c.")) == 3


# ------------------------------------------------------------------------------------------
# trees
# ------------------------------------------------------------------------------------------

def test_precedence():
    assert body("a :- b, c -> d ; e.") == (";", ("->", (",", C("b"), C("c")), C("d")), C("e"))
    assert body("a :- b ; c -> d , e.") == (";", C("b"), ("->", C("c"), (",", C("d"), C("e"))))
    assert body("a :- b -> c ; d -> e ; f.") == (";", ("->", C("b"), C("c")), (";", ("->", C("d"), C("e")), C("f")))
    assert body("a :- b , c ; d , e.") == (";", (",", C("b"), C("c")), (",", C("d"), C("e")))
    assert body("a :- b -> c , d -> e.") == ("->", C("b"), ("->", (",", C("c"), C("d")), C("e")))


def test_right_associativity():
    assert body("a :- b ; c ; d.") == (";", C("b"), (";", C("c"), C("d")))
    assert body("a :- b , c , d.") == (",", C("b"), (",", C("c"), C("d")))
    assert body("a :- b -> c -> d.") == ("->", C("b"), ("->", C("c"), C("d")))
    assert body("a :- b , c , d , e.") == (",", C("b"), (",", C("c"), (",", C("d"), C("e"))))


def test_negation_binds_tightest():
    assert body("a :- \\+ b, c.") == (",", ("\\+", C("b")), C("c"))
    assert body("a :- \\+ b ; c.") == (";", ("\\+", C("b")), C("c"))
    assert body("a :- \\+ b -> c.") == ("->", ("\\+", C("b")), C("c"))
    assert body("a :- b, \\+ c ; d.") == (";", (",", C("b"), ("\\+", C("c"))), C("d"))
    assert body("a :- \\+ \\+ b.") == ("\\+", ("\\+", C("b")))
    assert body("a :- \\+ (b, c).") == ("\\+", (",", C("b"), C("c")))
    assert body("a :- \\+ (b, c), d.") == (",", ("\\+", (",", C("b"), C("c"))), C("d"))


def test_parentheses():
    assert body("a :- (b, c), d.") == (",", (",", C("b"), C("c")), C("d"))
    assert body("a :- (b ; c), d.") == (",", (";", C("b"), C("c")), C("d"))
    assert body("a :- b, (c ; d).") == (",", C("b"), (";", C("c"), C("d")))
    assert body("a :- ((b)).") == C("b")
    assert body("a :- (b -> c ; d), e.") == (",", (";", ("->", C("b"), C("c")), C("d")), C("e"))
    assert body("a :- (true), (!), (fail).") == (",", ("true",), (",", ("cut",), ("fail",)))


def test_control_tokens():
    assert body("a :- true.") == ("true",)
    assert body("a :- fail.") == ("fail",)
    assert body("a :- !.") == ("cut",)
    assert body("a.") == ("true",)
    assert body("a :- 'true'.") == C("true")


def test_terms():
    assert head("foo.") == A("foo")
    assert head("foo(a, X, 1).") == ("fun", "foo", (A("a"), ("var", "X"), ("int", 1)))
    assert head("foo().") == ("fun", "foo", ())
    assert head("p(_).") == ("fun", "p", (("var", "_"),))
    assert head("p(007).") == ("fun", "p", (("int", 7),))
    assert head("p(f(g(x))).") == ("fun", "p", (("fun", "f", (("fun", "g", (A("x"),)),)),))
    assert head("p((a)).") == ("fun", "p", (A("a"),))
    assert head("p(foo/2).") == ("fun", "p", (("fun", "/", (A("foo"), ("int", 2))),))
    assert head("3(x).") == ("fun", "3", (A("x"),))
    assert head("'a b'(x).") == ("fun", "a b", (A("x"),))


def test_operators_in_terms():
    X, Y, Z = ("var", "X"), ("var", "Y"), ("var", "Z")
    assert body("p :- X = Y.") == ("call", ("fun", "=", (X, Y)))
    assert body("p :- =(X, Y).") == ("call", ("fun", "=", (X, Y)))
    assert body("p :- X \\== Y.") == ("call", ("fun", "\\==", (X, Y)))
    assert body("p :- X = Y = Z.") == ("call", ("fun", "=", (("fun", "=", (X, Y)), Z)))        # left assoc
    assert body("p :- - X = Y.") == ("call", ("fun", "=", (("fun", "-", (X,)), Y)))             # UNOP tighter
    assert body("p :- X = - Y = Z.") == ("call", ("fun", "=", (("fun", "=", (X, ("fun", "-", (Y,)))), Z)))
    assert body("p :- X = (Y = Z).") == ("call", ("fun", "=", (X, ("fun", "=", (Y, Z)))))
    assert body("p :- - - X.") == ("call", ("fun", "-", (("fun", "-", (X,)),)))
    assert body("p :- X = -1.") == ("call", ("fun", "=", (X, ("fun", "-", (("int", 1),)))))
    assert body("p :- X = a, Y = b.") == (",", ("call", ("fun", "=", (X, A("a")))), ("call", ("fun", "=", (Y, A("b")))))
    assert head("a = b.") == ("fun", "=", (A("a"), A("b")))


def test_lists():
    nil = A("[]")

    def cons(h, t):
        return ("fun", ".", (h, t))
    T = ("var", "T")
    assert head("p([]).") == ("fun", "p", (nil,))
    assert head("p([a]).") == ("fun", "p", (cons(A("a"), nil),))
    assert head("p([a,b]).") == ("fun", "p", (cons(A("a"), cons(A("b"), nil)),))
    assert head("p([H|T]).") == ("fun", "p", (cons(("var", "H"), T),))
    assert head("p([a,b|T]).") == ("fun", "p", (cons(A("a"), cons(A("b"), T)),))
    assert head("p([a,|T]).") == ("fun", "p", (cons(A("a"), T),))
    assert head("p([[a]|T]).") == ("fun", "p", (cons(cons(A("a"), nil), T),))
    assert head("p([a = b, - c]).") == ("fun", "p", (cons(("fun", "=", (A("a"), A("b"))), cons(("fun", "-", (A("c"),)), nil)),))
    assert head("p([a|_]).") == ("fun", "p", (cons(A("a"), ("var", "_")),))


def test_quoted_atoms():
    assert head("p('hello world').") == ("fun", "p", (A("hello world"),))
    assert head("p('it\\'s').") == ("fun", "p", (A("it's"),))
    assert head("p('a\\\\b').") == ("fun", "p", (A("ab"),))
    assert head("p('').") == ("fun", "p", (A(""),))
    assert head("p('% no comment').") == ("fun", "p", (A("% no comment"),))
    assert head("'Foo'.") == A("Foo")
    assert head("p('[]').") == ("fun", "p", (A("[]"),))


def test_comments_and_layout():
    src = "% header\nfoo(a). % one\n\n%two\nfoo(b) :- % mid\n   bar, % x\n baz.\n"
    prog = parse_program(src)
    assert prog == [(("fun", "foo", (A("a"),)), ("true",)),
                    (("fun", "foo", (A("b"),)), (",", C("bar"), C("baz")))]


def test_directives():
    prog = parse_program(":- initialization(main).\nfoo.\n:- bar.")
    assert prog[0] == ("directive", ("call", ("fun", "initialization", (A("main"),))))
    assert prog[1] == (A("foo"), ("true",))
    assert prog[2] == ("directive", C("bar"))
    assert parse_program(":- !.") == [("directive", ("cut",))]
    assert g.clause_keys(":- initialization(main).\nfoo.\n:- bar.") == [("foo", 0)]


def test_clause_keys():
    assert g.clause_keys("foo(a). bar. foo(b). foo(a,b). 'x y'(1). a = b.") == [
        ("foo", 1), ("bar", 0), ("foo", 2), ("x y", 1), ("=", 2)]
    assert g.clause_keys("") == []
    assert g.clause_keys("X. 1. [a]. true. foo.") == [("foo", 0)]


def test_noncallable_and_hazards():
    for s in ["X.", "1.", "[a].", "[].", "foo :- X.", "foo :- a, 1.", "foo :- [a|T].", ":- X.",
              "foo :- (X).", "foo/2.", "true.", "! :- a.", "foo :- \\+ X."]:
        assert recognise(s) and g.noncallable_goals(s), s
    for s in ["foo.", "foo :- a, b.", "'[]'.", "foo :- 'X'.", "p(X, 1, [a]).", "- a.", "a = b.", "foo :- X = 1."]:
        assert recognise(s) and not g.noncallable_goals(s), s
    assert g.hazards("3(x).") == {"numeral_functor"}
    assert g.hazards("p(foo/2).") == {"slash_term"}
    assert g.hazards("true.") == {"special_head"}
    assert "quoted_head" in g.hazards("'a b'(c).")
    assert g.hazards("foo(a) :- bar.") == set()


def test_special_heads():
    assert parse_program("true.") == [(("true",), ("true",))]
    assert parse_program("! :- a.") == [(("cut",), C("a"))]
    assert parse_program("'true'.") == [(A("true"), ("true",))]


def test_error_position():
    try:
        parse_program("foo(a).\nbar(b) :- baz,, qux.")
    except PlSyntaxError as exc:
        assert exc.line == 2 and exc.col == 14, (exc.line, exc.col)
    else:
        raise AssertionError
    try:
        parse_program("foo(a) :- bar")
    except PlSyntaxError as exc:
        assert "end of input" in exc.msg
    else:
        raise AssertionError


def test_deep_and_long():
    deep = "p(" + "f(" * 200 + "x" + ")" * 200 + ")."
    assert g.recognise(deep) and g.recognise_descent(deep)
    longlist = "p([" + ",".join("a%d" % i for i in range(300)) + "])."
    assert g.recognise(longlist) and g.recognise_descent(longlist)
    conj = "p :- " + ", ".join("g%d" % i for i in range(40)) + "."
    assert g.recognise(conj) and g.recognise_descent(conj)
    parens = "p :- " + "(" * 60 + "a, b" + ")" * 60 + "."
    assert g.recognise(parens) and g.recognise_descent(parens)
    assert not g.recognise("p :- " + "(" * 60 + "a, b" + ")" * 59 + ".")


# ------------------------------------------------------------------------------------------
# corrupt
# ------------------------------------------------------------------------------------------

def test_corruptions():
    src = "foo(a).\nfoo(X) :- bar(X, [a|T]), \\+ baz ; 'q r'(X).\n"
    rng = random.Random(7)
    out = list(corrupt.corruptions(src, rng, 400))
    assert len(out) == 400
    seen_kinds = set(k for k, _ in out)
    assert seen_kinds == set(corrupt.KINDS), set(corrupt.KINDS) - seen_kinds
    assert all(t != src for _, t in out)
    rejected = sum(1 for _, t in out if not recognise(t))
    assert rejected > 200
    # deterministic for a given seed
    assert out == list(corrupt.corruptions(src, random.Random(7), 400))
    # every text gets the same verdict from both implementations
    for _, t in out:
        assert g.recognise(t) == g.recognise_descent(t) == g.recognise_full_earley(t), t
    # works on the empty program too
    assert len(list(corrupt.corruptions("", random.Random(1), 20))) > 0


# ------------------------------------------------------------------------------------------
# against the real ANTLR parser
# ------------------------------------------------------------------------------------------

def test_against_real_antlr():
    try:
        import recog_diff
        recog_diff._load_real()
    except ImportError as exc:                     # pragma: no cover
        print("SKIP test_against_real_antlr:", exc)
        return
    lex_cases = ["'a\\'b'", "'a\\\\'", "'a\\'", "'a\\' , 'b'", "'a\\\\' foo 'b", "foo. % eof", "%", "% c\r a.",
                 "X=<Y", "a:--b", "_foo.", "true_.", "'''", "'a\\''", "p('a\\\\'). q('b')."]
    for s in ACCEPT + REJECT + lex_cases:
        ok, tree, why = recog_diff.strict_antlr(s)
        assert ok == recognise(s), (s, ok, why)
        if ok:
            assert recog_diff.compare_trees(s, tree) == [], (s, recog_diff.compare_trees(s, tree))
    tree_cases = [
        "a :- b, c -> d ; e.", "a :- b ; c ; d.", "a :- \\+ b, c.", "a :- b -> c -> d.", "a :- b , c , d.",
        "a :- b -> c ; d -> e ; f.", "a :- \\+ b -> c ; d.", "a :- (b , c) , d.", "a :- b ; \\+ c , d.",
        "a :- b -> c , d -> e.", "p :- X = Y = Z.", "p :- - X = Y.", "p :- X = - Y = Z.", "p([a,|T]).",
        "p([a,b|T], [], [x]).", "p('it\\'s', 'a\\\\b').", "p :- \\+ (\\+ a, b) ; c -> d.",
    ]
    for s in tree_cases:
        ok, tree, why = recog_diff.strict_antlr(s)
        assert ok and recognise(s), s
        assert recog_diff.compare_trees(s, tree) == [], (s, recog_diff.compare_trees(s, tree))
    # token-level comparison with the real lexer
    r = recog_diff._load_real()
    L = r["prologLexer"]
    names = {i: lit for i, lit in enumerate(g.LITERALS, 1)}            # T__0..T__9 = types 1..10
    for nm in ["TRUE", "FAIL", "CUT", "VARIABLE", "ATOM", "NUMERAL", "UNOP", "BINOP", "STRING", "LBRACK", "RBRACK"]:
        names[getattr(L, nm)] = nm
    assert sorted(names) == list(range(1, 22))
    for s in ACCEPT + lex_cases + ["X=<Y==Z\\==W>=V", "a:-b;c->d.", "foo/2 [H|T] - + ! true fail truex"]:
        if lexerr(s) is not None:
            continue
        lexer = r["prologLexer"](r["InputStream"](s))
        real = []
        for t in lexer.getAllTokens():
            real.append((names[t.type], t.text, t.start, t.line, t.column))
        mine = [tuple(t) for t in tokenize(s)]
        assert real == mine, (s, real, mine)


def _run_all():
    n = 0
    for name, fn in sorted(globals().items()):
        if name.startswith("test_") and callable(fn):
            fn()
            n += 1
            print("ok", name)
    print("%d test functions, %d accept + %d reject strings" % (n, len(ACCEPT), len(REJECT)))


if __name__ == "__main__":
    _run_all()
