"""s_c09 - `X = Y` and `X \\= Y` as goals agree with the engine's unification on EVERY pair of terms, including the pairs whose
unifier would be cyclic (Prolog without occurs check: `X = f(X)` succeeds because unify(X, f(X)) does).

  s_c09.py run <seed> <count>      s_c09.py replay <file>

For every ordered pair (t1, t2) of a small term universe (atoms, an int, a str spelled like an atom, variables, f/1, g/2, lists,
the same variable on both sides): number of answers of unify(t1, t2), of query('=', [t1, t2]), of query('\\=', [t1, t2]) and of
the compiled goals `t :- A = B.` / `t :- A \\= B.` called with the two terms; only answers are counted (a cyclic term is never
expanded).  Expected: #(=) == #unify in {0, 1}, #(\\=) == 1 - #unify, no exception, all variables unbound afterwards.
"""
import itertools
import json
import os
import random
import sys

sys.path.insert(0, os.environ.get('YLD_REPO_SRC', '/repo/src'))
from yldprolog import engine  # noqa
from yldprolog.compiler import compile_prolog_from_string  # noqa

SHAPES = ['a', 'b', '7', '7.0', "'a'", 'X', 'Y', 'f(X)', 'f(Y)', 'f(a)', 'g(X,Y)', 'g(X,X)', 'g(a,X)', 'g(Y,f(Y))', '[X]', '[a|X]', '[X|Y]', '[]',
          'f(f(X))', 'g(f(X),X)']
SRC = "eq(A, B) :- A = B.\nne(A, B) :- A \\= B.\n"
# the same goals in other clause contexts: (predicate, clause, first argument wrapped in w/1 ?, expected: same as / opposite of unify)
CONTEXTS = [('eqn', 'eqn(w(A), B) :- A = B.', True, True),                  # left side occurs only nested in a head argument
            ('eqc', 'eqc(w(A), B) :- A = B, true.', True, True),            # ... as a non-last goal of a conjunction
            ('eqr', 'eqr(A, w(B)) :- true, A = B.', False, True),           # right side nested, = as last goal
            ('eqv', 'eqv(A, B) :- X = A, X = B.', False, True),             # through a clause variable that is new in the first goal
            ('eqd', 'eqd(A, B) :- ( A = B ; fail ).', False, True),
            ('eql', 'eql([A|_], B) :- A = B, true.', 'list', True),
            ('nen', 'nen(w(A), B) :- A \\= B, true.', True, False),
            ('nev', 'nev(A, B) :- X = A, X \\= B.', False, False)]
SRC += '\n'.join(c[1] for c in CONTEXTS) + '\n'


def build(yp, shape, env):
    s = shape.strip()
    if s == '7':
        return 7
    if s == '7.0':
        return 7.0                      # equal to 7 for Python, hence for unify, = and \\=: not a different constant
    if s == "'a'":
        return 'a'                      # a Python str constant, not an atom
    if s == '[]':
        return yp.ATOM_NIL
    if s.startswith('['):
        inner = s[1:-1]
        if '|' in inner:
            h, t = inner.split('|')
            return yp.listpair(build(yp, h, env), build(yp, t, env))
        return yp.makelist([build(yp, x, env) for x in inner.split(',')]) if inner else yp.ATOM_NIL
    if '(' in s:
        name, rest = s.split('(', 1)
        rest = rest[:-1]
        args, depth, cur = [], 0, ''
        for ch in rest:
            if ch == ',' and depth == 0:
                args.append(cur)
                cur = ''
            else:
                depth += ch == '('
                depth -= ch == ')'
                cur += ch
        args.append(cur)
        return yp.functor(name, [build(yp, a, env) for a in args])
    if s[0].isupper():
        if s not in env:
            env[s] = yp.variable()
        return env[s]
    return yp.atom(s)


class _Ctx:
    debug_filename = False
    debug_parser = False
    debug_generator = False
    current_source_file = 's_c09'


FA_TEMPLATES = ['[X|T]', '[X,T]', 'g(X,T)', 'T', 'g([X|T])', '[T|X]', 'g(T,T)']


def run_findall_copy(sc):
    """findall(Template, item(X), L) with a free variable T in the template: every collected instance has its OWN copy of T - after
    T is bound none of them has changed, and no two share it (through the API and from a compiled clause)"""
    yp = engine.YP()
    for c in ('a', 'b'):
        yp.assert_fact(yp.atom('item'), [yp.atom(c)])
    env = {}
    tmpl = build(yp, sc['template'], env)
    X, T = env.get('X', yp.variable()), env['T']
    L = yp.variable()
    probs = []
    n = 0

    def t_positions(inst, pattern):
        # walk instance and pattern together, collect what stands where the pattern has T
        out = []

        def rec(i, p_):
            i = engine.get_value(i)
            if p_ is T:
                out.append(i)
            elif isinstance(p_, engine.Functor) and isinstance(i, engine.Functor) and len(i._args) == len(p_._args):
                for a, b in zip(i._args, p_._args):
                    rec(a, b)
        rec(inst, pattern)
        return out
    goal = yp.functor('item', [X])
    if sc.get('compiled'):
        yp.load_script_from_string(compile_prolog_from_string('fa(L, T) :- findall(%s, item(X), L).\n' % sc['template'], _Ctx))
        q = yp.query('fa', [L, T])
    else:
        q = yp.query('findall', [tmpl, goal, L])
    for _ in q:
        n += 1
        for _ in engine.unify(T, yp.atom('z')):
            lst = engine.get_value(L)
            insts = []
            while isinstance(lst, engine.Functor) and lst._name == '.' and len(lst._args) == 2:
                insts.append(lst._args[0])
                lst = engine.get_value(lst._args[1])
            if len(insts) != 2:
                probs.append('%d instances collected, expected 2' % len(insts))
            seen = []
            for inst in insts:
                for v in t_positions(inst, tmpl):
                    if not isinstance(v, engine.Variable):
                        probs.append('an instance of %s changed when T was bound afterwards' % sc['template'])
                    elif any(v is w for w in seen) and sc['template'] != 'g(T,T)':
                        probs.append('two instances of %s share one variable' % sc['template'])
                    seen.append(v)
    if n != 1:
        probs.append('findall has %d answers, expected 1' % n)
    return not probs, '; '.join(sorted(set(probs))) or 'ok'


def run_findall_true(sc):
    """whether a goal delivers an answer as True or as False is irrelevant to findall/3 (and to call/N, once/1): all answers are collected"""
    yp = engine.YP()
    pattern = sc['yields']

    def pt(x):
        for c, y in zip('abc', pattern):
            for _ in engine.unify(x, yp.atom(c)):
                yield y
    yp.register_function('pt', pt)
    X, L = yp.variable(), yp.variable()
    probs = []
    got = [engine.to_python(L) for _ in yp.query('findall', [X, yp.functor('pt', [X]), L])]
    if got != [['a', 'b', 'c']]:
        probs.append('findall(X, pt(X), L) with answers delivered as %s gives %r' % (pattern, got))
    got = [engine.to_python(X) for _ in yp.query('call', [yp.functor('pt', [X])])]
    if got != ['a', 'b', 'c']:
        probs.append('call(pt(X)) with answers delivered as %s gives %r' % (pattern, got))
    got = [engine.to_python(X) for _ in yp.query('once', [yp.functor('pt', [X])])]
    if got != ['a']:
        probs.append('once(pt(X)) gives %r' % (got,))
    return not probs, '; '.join(probs) or 'ok'


def run(sc):
    if sc.get('kind') == 'findall_true':
        return run_findall_true(sc)
    if sc.get('kind') == 'findall_copy':
        return run_findall_copy(sc)
    yp = engine.YP()
    yp.load_script_from_string(compile_prolog_from_string(SRC, _Ctx))
    probs = []

    def count(mk):
        env = {}
        t1, t2 = build(yp, sc['t1'], env), build(yp, sc['t2'], env)
        try:
            n = sum(1 for _ in mk(t1, t2))
        except RecursionError:
            return 'recursion', env
        except Exception as e:      # noqa
            return 'raised %s: %s' % (type(e).__name__, e), env
        return n, env
    nu, env = count(lambda a, b: engine.unify(a, b))
    if nu not in (0, 1):
        return True, 'skipped (unify itself: %s)' % (nu,)
    for what, mk, want in (('=', lambda a, b: yp.query('=', [a, b]), nu), ('\\=', lambda a, b: yp.query('\\=', [a, b]), 1 - nu),
                           ('compiled A = B', lambda a, b: yp.query('eq', [a, b]), nu),
                           ('compiled A \\= B', lambda a, b: yp.query('ne', [a, b]), 1 - nu)):
        n, env = count(mk)
        if n != want:
            probs.append('%s on (%s, %s): %s answer(s), unify has %d' % (what, sc['t1'], sc['t2'], n, nu))
        if any(v._is_bound for v in env.values()):
            probs.append('%s on (%s, %s): a variable is still bound afterwards' % (what, sc['t1'], sc['t2']))
    for pred, clause, wrap, same in CONTEXTS:
        def mk(a, b, pred=pred, wrap=wrap):
            if wrap == 'list':
                a = yp.listpair(a, yp.variable())
            elif pred == 'eqr':
                b = yp.functor('w', [b])
            elif wrap:
                a = yp.functor('w', [a])
            return yp.query(pred, [a, b])
        n, env = count(mk)
        want = nu if same else 1 - nu
        if n != want:
            probs.append('compiled `%s` on (%s, %s): %s answer(s), unify has %d' % (clause, sc['t1'], sc['t2'], n, nu))
        if any(v._is_bound for v in env.values()):
            probs.append('compiled `%s` on (%s, %s): a variable is still bound afterwards' % (clause, sc['t1'], sc['t2']))
    return not probs, '; '.join(probs) or 'ok'


def scenarios(seed, count):
    out = [dict(t1=a, t2=b) for a, b in itertools.product(SHAPES, SHAPES)]
    out += [dict(kind='findall_copy', template=t, compiled=c, t1='-', t2=t) for t in FA_TEMPLATES for c in (False, True)]
    out += [dict(kind='findall_true', yields=list(y), t1='-', t2=str(y)) for y in itertools.product((True, False), repeat=3)]
    random.Random(seed).shuffle(out)
    return out[:count]


def main():
    if sys.argv[1] == 'replay':
        sc = json.load(open(sys.argv[2]))
        sc = sc.get('scenario', sc)
        ok, detail = run(sc)
        print(json.dumps(dict(ok=ok, detail=detail)))
        sys.exit(0 if ok else 1)
    seed, count = int(sys.argv[2]), int(sys.argv[3])
    fails, n, nontriv = [], 0, set()
    scs = scenarios(seed, count)
    for sc in scs:
        ok, detail = run(sc)
        n += 1
        if sc['t1'] != sc['t2']:
            nontriv.add(json.dumps(sc, sort_keys=True))
        if not ok and len(fails) < 20:
            fails.append(dict(scenario=sc, detail=detail))
    print(json.dumps(dict(evaluations=n, distinct_nontrivial=len(nontriv), failures=fails, failure_count=len(fails), samples=scs[:3],
                          exhaustive=count >= len(SHAPES) ** 2 + 2 * len(FA_TEMPLATES) + 8,
                          rule='all ordered pairs of %d term shapes (incl. pairs whose unifier is cyclic): answers of =, \\=, compiled = and \\= '
                               '(in the clause contexts eq, ne, %s) counted against the engine\'s unify; plus findall/3 with a free variable in the template (7 templates, API and compiled): instances are fresh copies; non-trivial = the two shapes differ'
                               % (len(SHAPES), ', '.join(c[0] for c in CONTEXTS)))))


if __name__ == '__main__':
    main()
