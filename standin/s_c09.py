"""s_c09 - `X = Y` and `X \\= Y` as goals agree with the engine's unification on EVERY pair of terms, including the pairs whose
unifier would be cyclic (Prolog without occurs check: `X = f(X)` succeeds because unify(X, f(X)) does).

  s_c09.py run <seed> <count>      s_c09.py replay <file>

For every ordered pair (t1, t2) of a small term universe (atoms, an int, a str spelled like an atom, variables, f/1, g/2, lists,
the same variable on both sides): number of answers of unify(t1, t2), of query('=', [t1, t2]), of query('\\=', [t1, t2]) and of
the compiled goals `t :- A = B.` / `t :- A \\= B.` called with the two terms; only answers are counted (a cyclic term is never
expanded).  Expected: #(=) == #unify in {0, 1}, #(\\=) == 1 - #unify, no exception, all variables unbound afterwards.
"""
import itertools
import json
import os
import random
import sys

sys.path.insert(0, os.environ.get('YLD_REPO_SRC', '/repo/src'))
from yldprolog import engine  # noqa
from yldprolog.compiler import compile_prolog_from_string  # noqa

SHAPES = ['a', 'b', '7', "'a'", 'X', 'Y', 'f(X)', 'f(Y)', 'f(a)', 'g(X,Y)', 'g(X,X)', 'g(a,X)', 'g(Y,f(Y))', '[X]', '[a|X]', '[X|Y]', '[]',
          'f(f(X))', 'g(f(X),X)']
SRC = "eq(A, B) :- A = B.\nne(A, B) :- A \\= B.\n"
# the same goals in other clause contexts: (predicate, clause, first argument wrapped in w/1 ?, expected: same as / opposite of unify)
CONTEXTS = [('eqn', 'eqn(w(A), B) :- A = B.', True, True),                  # left side occurs only nested in a head argument
            ('eqc', 'eqc(w(A), B) :- A = B, true.', True, True),            # ... as a non-last goal of a conjunction
            ('eqr', 'eqr(A, w(B)) :- true, A = B.', False, True),           # right side nested, = as last goal
            ('eqv', 'eqv(A, B) :- X = A, X = B.', False, True),             # through a clause variable that is new in the first goal
            ('eqd', 'eqd(A, B) :- ( A = B ; fail ).', False, True),
            ('eql', 'eql([A|_], B) :- A = B, true.', 'list', True),
            ('nen', 'nen(w(A), B) :- A \\= B, true.', True, False),
            ('nev', 'nev(A, B) :- X = A, X \\= B.', False, False)]
SRC += '\n'.join(c[1] for c in CONTEXTS) + '\n'


def build(yp, shape, env):
    s = shape.strip()
    if s == '7':
        return 7
    if s == "'a'":
        return 'a'                      # a Python str constant, not an atom
    if s == '[]':
        return yp.ATOM_NIL
    if s.startswith('['):
        inner = s[1:-1]
        if '|' in inner:
            h, t = inner.split('|')
            return yp.listpair(build(yp, h, env), build(yp, t, env))
        return yp.makelist([build(yp, x, env) for x in inner.split(',')]) if inner else yp.ATOM_NIL
    if '(' in s:
        name, rest = s.split('(', 1)
        rest = rest[:-1]
        args, depth, cur = [], 0, ''
        for ch in rest:
            if ch == ',' and depth == 0:
                args.append(cur)
                cur = ''
            else:
                depth += ch == '('
                depth -= ch == ')'
                cur += ch
        args.append(cur)
        return yp.functor(name, [build(yp, a, env) for a in args])
    if s[0].isupper():
        if s not in env:
            env[s] = yp.variable()
        return env[s]
    return yp.atom(s)


class _Ctx:
    debug_filename = False
    debug_parser = False
    debug_generator = False
    current_source_file = 's_c09'


def run(sc):
    yp = engine.YP()
    yp.load_script_from_string(compile_prolog_from_string(SRC, _Ctx))
    probs = []

    def count(mk):
        env = {}
        t1, t2 = build(yp, sc['t1'], env), build(yp, sc['t2'], env)
        try:
            n = sum(1 for _ in mk(t1, t2))
        except RecursionError:
            return 'recursion', env
        except Exception as e:      # noqa
            return 'raised %s: %s' % (type(e).__name__, e), env
        return n, env
    nu, env = count(lambda a, b: engine.unify(a, b))
    if nu not in (0, 1):
        return True, 'skipped (unify itself: %s)' % (nu,)
    for what, mk, want in (('=', lambda a, b: yp.query('=', [a, b]), nu), ('\\=', lambda a, b: yp.query('\\=', [a, b]), 1 - nu),
                           ('compiled A = B', lambda a, b: yp.query('eq', [a, b]), nu),
                           ('compiled A \\= B', lambda a, b: yp.query('ne', [a, b]), 1 - nu)):
        n, env = count(mk)
        if n != want:
            probs.append('%s on (%s, %s): %s answer(s), unify has %d' % (what, sc['t1'], sc['t2'], n, nu))
        if any(v._is_bound for v in env.values()):
            probs.append('%s on (%s, %s): a variable is still bound afterwards' % (what, sc['t1'], sc['t2']))
    for pred, clause, wrap, same in CONTEXTS:
        def mk(a, b, pred=pred, wrap=wrap):
            if wrap == 'list':
                a = yp.listpair(a, yp.variable())
            elif pred == 'eqr':
                b = yp.functor('w', [b])
            elif wrap:
                a = yp.functor('w', [a])
            return yp.query(pred, [a, b])
        n, env = count(mk)
        want = nu if same else 1 - nu
        if n != want:
            probs.append('compiled `%s` on (%s, %s): %s answer(s), unify has %d' % (clause, sc['t1'], sc['t2'], n, nu))
        if any(v._is_bound for v in env.values()):
            probs.append('compiled `%s` on (%s, %s): a variable is still bound afterwards' % (clause, sc['t1'], sc['t2']))
    return not probs, '; '.join(probs) or 'ok'


def scenarios(seed, count):
    out = [dict(t1=a, t2=b) for a, b in itertools.product(SHAPES, SHAPES)]
    random.Random(seed).shuffle(out)
    return out[:count]


def main():
    if sys.argv[1] == 'replay':
        sc = json.load(open(sys.argv[2]))
        sc = sc.get('scenario', sc)
        ok, detail = run(sc)
        print(json.dumps(dict(ok=ok, detail=detail)))
        sys.exit(0 if ok else 1)
    seed, count = int(sys.argv[2]), int(sys.argv[3])
    fails, n, nontriv = [], 0, set()
    scs = scenarios(seed, count)
    for sc in scs:
        ok, detail = run(sc)
        n += 1
        if sc['t1'] != sc['t2']:
            nontriv.add(json.dumps(sc, sort_keys=True))
        if not ok and len(fails) < 20:
            fails.append(dict(scenario=sc, detail=detail))
    print(json.dumps(dict(evaluations=n, distinct_nontrivial=len(nontriv), failures=fails, failure_count=len(fails), samples=scs[:3],
                          exhaustive=count >= len(SHAPES) ** 2,
                          rule='all ordered pairs of %d term shapes (incl. pairs whose unifier is cyclic): answers of =, \\=, compiled = and \\= '
                               '(in the clause contexts eq, ne, %s) counted against the engine\'s unify; non-trivial = the two shapes differ'
                               % (len(SHAPES), ', '.join(c[0] for c in CONTEXTS)))))


if __name__ == '__main__':
    main()
