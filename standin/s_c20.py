"""Bounded stand-in for C20 "Python predicates are interchangeable with compiled ones".

    python s_c20.py run <seed> <count>      python s_c20.py replay <file.json>

Scenario JSON (terms / goals / clauses are the tuples of terms.py as JSON lists)
    {"family": "F1"|"F2"|"F3", "case_id": str,
     "program": [clause...], "more": [[[clause...], overwrite]...], "queries": [goal...],      (from gen.py)
     "swap": [{"name","arity","rows":[[term..]..],"style":"inferred"|"explicit"|"variadic",
               "yields":"true"|"false"|"mixed"|"none"} ...],         fact predicates replaced by natives
     "contexts": [clause...], "ctx_queries": [goal...],               extra rules wrapping the swapped predicates
     "dyn": [["assertz"|"asserta", term]...],                         dynamic facts added for phase 2
     "argcheck": {"templates":[term..], "caller": "api"|"compiled"|"call"|"once"|"findall", "split": j, "style": s},
     "exc": {"query": name, "succ": [ints], "event": n, "exc_class": c, "style": s}}
"""

import itertools
import random
import sys

import s_res_common as common
from s_res_common import tup, untup

import gen                                                           # noqa: E402
from terms import (NIL, TRUE, CUT, atom, int_, var, fun, call, eq, conj, mklist, to_source, name_arity,   # noqa: E402
                   answer_to_source, goal_to_source, term_to_source, vars_of, canon, map_vars)
from ref_interp import RefEngine, RefLimit                           # noqa: E402
import real_engine                                                   # noqa: E402
from real_engine import RealEngine, compile_source, _from_engine     # noqa: E402
from yldprolog.engine import YP, YPException, Atom, Variable, Functor, get_value, unify   # noqa: E402

RULE = (
    "C20: a gen.py program (family F1 pure SLD / F2 control constructs / F3 meta-calls) is run three ways: reference "
    "interpreter with everything compiled (REF), real engine with everything compiled (BASE), real engine with a "
    "random non-empty subset of its fact predicates removed from the source and registered instead as python "
    "generator functions (nested `for .. in unify(arg_i, value_i)` loops over the rows, fresh variables per use) "
    "(SWAP); registration style per predicate: inferred arity (function with exactly k parameters), explicit "
    "arity=k, or variadic arity=-1 with *args; yielded value True / False / alternating / None. For every query of "
    "the case and for extra context rules around each swapped predicate s (\\+ s, dom(A), \\+ s(A,..), ( s -> R=yes "
    "; R=no ), s then !, ! then s, call(s,Args..), G = s(..), call(G,Rest..), once(s), findall(t(Args), s, L), "
    "s, s, ( s ; s ), \\+ \\+ s, findall over once) the ordered canon answer lists must satisfy SWAP == BASE and "
    "SWAP == REF (1 evaluation per query and phase); phase 2 repeats all queries after asserta/assertz of extra "
    "dynamic facts for the swapped name/arity on all three (facts come first). Excluded (counted in `extra`): "
    "reference step/answer limits, BASE ending in RecursionError/Timeout, and the two classes difftest.py excludes "
    "(a unification that builds a cyclic term; call/N of a control construct such as call('!')). Argument check "
    "(1 evaluation): a recording native called from the API / a compiled clause / call/N / once / findall receives "
    "exactly the caller's terms in call order (count, types Atom/Variable/Functor/int, structure up to renaming, "
    "identity for atoms and for the query's own variable objects). Exception check (1 evaluation): a native "
    "raising a unique exception object (custom Exception, YPException, RuntimeError, KeyError, ValueError) at a "
    "chosen enter/resume event inside conjunction, negation, findall, once, if-then-else condition, call/N, cut and "
    "nestings of them: the consumer's except clause receives that very object, exactly the answers of a dry run "
    "up to that event were delivered before, and afterwards every query variable is unbound and the engine still "
    "answers. distinct_nontrivial = distinct (program, swap set, style/yield choice, query, phase) with a non-empty "
    "expected answer list whose evaluation reaches a swapped predicate (the native was entered at least once), plus "
    "distinct argument and exception scenarios in which the native was entered."
)

MAX_ANSWERS = 60
STEP_LIMIT = 20000
DOM = [atom("a"), atom("b"), atom("c"), int_(0), int_(1), int_(2), int_(3)]


# ------------------------------------------------------------------ generation
def _two_arity_case(rng):
    """one predicate name with two arities (edge/2 and edge/3), used by rules of the same script"""
    from terms import int_
    A_, B_, C_ = atom("a"), atom("b"), atom("c")
    X, Y, W, P, Q, R = var("X"), var("Y"), var("W"), var("P"), var("Q"), var("R")
    program = [gen.fact(fun("edge", A_, B_)), gen.fact(fun("edge", B_, C_)), gen.fact(fun("edge", A_, B_, int_(1))),
               gen.fact(fun("edge", B_, C_, int_(2))), gen.fact(fun("edge", A_, C_, int_(5))),
               gen.fact(fun("edge_2", A_)), gen.fact(fun("edge_2", C_)), gen.fact(fun("utf_8", B_, C_)),
               (fun("hop", X, Y), call(fun("edge", X, Y))), (fun("cost", X, Y, W), call(fun("edge", X, Y, W))),
               (fun("both", X, Y, W), conj(call(fun("edge", X, Y)), call(fun("edge", X, Y, W))))]
    queries = [call(fun("edge_2", P)), call(fun("utf_8", P, Q)),
               call(fun("hop", P, Q)), call(fun("cost", P, Q, R)), call(fun("edge", P, Q)), call(fun("edge", P, Q, R)),
               call(fun("both", P, Q, R))]
    return gen.Case("F1", "two-arities-%d" % rng.randint(0, 9), program, queries)


def _base_case(rng):
    if rng.random() < 0.12:
        return "F1", _two_arity_case(rng)
    family = rng.choice(["F1", "F1", "F2", "F3", "F3"])
    gseed = rng.randint(0, 10 ** 9)
    for case in gen.cases(family, gseed, 1):
        return family, case
    return family, None


def _ground(t):
    return not vars_of(t, include_anon=True)


def _contexts(rng, key, rows, idx):
    """context rules + queries around the predicate key = (name, arity)"""
    name, k = key
    As = [var("A%d" % (i + 1)) for i in range(k)]
    Bs = [var("B%d" % (i + 1)) for i in range(k)]
    s = fun(name, *As)
    sB = fun(name, *Bs)
    R, L, G = var("R"), var("L"), var("G")
    rules, queries = [], []
    kinds = rng.sample(range(13), rng.randint(3, 5))
    const = None
    for r in rows:
        if r and _ground(r[0]):
            const = r[0]
            break
    for j, kind in enumerate(kinds):
        h = "cx%d_%d" % (idx, j)
        if kind == 0:
            rules.append((fun(h, *As[:0]), ("\\+", call(fun(name, *[var("_")] * k)))))
            queries.append(call(atom(h)))
        elif kind == 1 and k >= 1:
            rules.append((fun(h, As[0]), conj(call(fun("dom", As[0])), ("\\+", call(fun(name, As[0], *[var("_")] * (k - 1)))))))
            queries.append(call(fun(h, As[0])))
        elif kind == 2:
            rules.append((fun(h, R, *As), (";", ("->", call(s), eq(R, atom("yes"))), eq(R, atom("no")))))
            queries.append(call(fun(h, R, *As)))
            if const is not None:
                queries.append(call(fun(h, R, const, *As[1:])))
        elif kind == 3 and k >= 1:
            rules.append((fun(h, As[0], R), conj(call(fun("dom", As[0])),
                                                 (";", ("->", call(fun(name, As[0], *[var("_")] * (k - 1))), eq(R, atom("yes"))),
                                                  eq(R, atom("no"))))))
            queries.append(call(fun(h, As[0], R)))
        elif kind == 4:
            rules.append((fun(h, *As), conj(call(s), CUT)))
            rules.append((fun(h, *As), call(s)))
            queries.append(call(fun(h, *As)))
        elif kind == 5:
            rules.append((fun(h, *As), conj(CUT, call(s))))
            rules.append((fun(h, *As), call(s)))
            queries.append(call(fun(h, *As)))
        elif kind == 6:
            j2 = rng.randint(0, k)
            if j2 == k or rng.random() < 0.5:
                rules.append((fun(h, *As), call(fun("call", fun(name, *As[:j2]), *As[j2:]))))
            else:
                rules.append((fun(h, *As), conj(eq(G, fun(name, *As[:j2])), call(fun("call", G, *As[j2:])))))
            queries.append(call(fun(h, *As)))
            if const is not None:
                queries.append(call(fun(h, const, *As[1:])))
        elif kind == 7:
            rules.append((fun(h, *As), call(fun("once", s))))
            queries.append(call(fun(h, *As)))
        elif kind == 8:
            rules.append((fun(h, L), call(fun("findall", fun("t", *As) if k else atom("x"), s, L))))
            queries.append(call(fun(h, L)))
        elif kind == 9 and len(rows) <= 4:
            rules.append((fun(h, *(As + Bs)), conj(call(s), call(sB))))
            queries.append(call(fun(h, *(As + Bs))))
        elif kind == 10:
            rules.append((fun(h, *As), (";", call(s), call(s))))
            queries.append(call(fun(h, *As)))
        elif kind == 11:
            rules.append((fun(h, *As), conj(("\\+", ("\\+", call(s))), call(s))))
            queries.append(call(fun(h, *As)))
        elif kind == 12:
            rules.append((fun(h + "o", *As), call(fun("once", s))))
            rules.append((fun(h, L), call(fun("findall", fun("t", *As) if k else atom("x"), fun(h + "o", *As), L))))
            queries.append(call(fun(h, L)))
    return rules, queries


_ARG_POOL = [atom("a"), var("X"), fun("f", var("Y")), mklist([int_(1), atom("b")]), int_(7), atom("q q"),
             fun("g", var("X"), fun("h", var("Z"))), var("_"), NIL, var("Z"), mklist([atom("c")], var("Y")), int_(0),
             var("W")]
_EXC_QUERIES = ["x_conj", "x_neg", "x_findall", "x_once", "x_ite", "x_call", "x_cut", "x_nest1", "x_nest2", "x_nest3",
                "x_nest4", "boom"]


def make_scenario(seed, i):
    rng = random.Random(seed * 1000003 + i * 15485863 + 20)
    family, case = _base_case(rng)
    sc = {"family": family, "case_id": case.id if case else "", "program": [], "more": [], "queries": [], "swap": [],
          "contexts": [], "ctx_queries": [], "dyn": []}
    if case is not None:
        fp = gen.fact_predicates(case.program)
        for extra, _ow in case.more:
            for c in extra:
                fp.pop(name_arity(c[0]), None)
        keys = sorted(fp)
        if keys:
            chosen = [k for k in keys if rng.random() < 0.55] or [rng.choice(keys)]
            sc["program"] = case.program
            sc["more"] = [[p, ow] for p, ow in case.more]
            sc["queries"] = case.queries
            ctx_rules = [((fun("dom", d)), TRUE) for d in DOM]
            ctx_q = []
            for idx, k in enumerate(chosen):
                sc["swap"].append({"name": k[0], "arity": k[1], "rows": [list(r) for r in fp[k]],
                                   "style": rng.choice(["inferred", "explicit", "variadic", "inferred-decorated", "inferred-method", "inferred-default", "partial", "callable-object"]),
                                   "yields": rng.choice(["true", "false", "mixed", "none"]),
                                   # the function's constants are atoms of ANOTHER engine (module-level constants made before a
                                   # clear(), Atom objects of a helper engine): atoms are equal by name, whoever made them
                                   "atoms": rng.choice(["own", "own", "foreign"]),
                                   # the same function object also serves a second predicate name
                                   "alias": rng.random() < 0.3})
                if idx < 2:
                    rules, qs = _contexts(rng, k, fp[k], idx)
                    ctx_rules += rules
                    ctx_q += qs
                if rng.random() < 0.7:
                    for _ in range(rng.randint(1, 2)):
                        args = [rng.choice(DOM + [atom("dyn")]) for _ in range(k[1])]
                        sc["dyn"].append([rng.choice(["assertz", "asserta"]), fun(k[0], *args)])
            # a variadic registration serves every arity of its name: with two arities of one name swapped, register per arity
            names_ = [x["name"] for x in sc["swap"]]
            for x in sc["swap"]:
                if names_.count(x["name"]) > 1 and x["style"] == "variadic":
                    x["style"] = rng.choice(["inferred", "explicit"])
            sc["contexts"] = ctx_rules
            sc["ctx_queries"] = ctx_q
    m = rng.randint(1, 5)
    sc["argcheck"] = {"templates": [rng.choice(_ARG_POOL) for _ in range(m)],
                      "caller": rng.choice(["api", "compiled", "compiled", "call", "call", "once", "findall"]),
                      "split": rng.randint(0, m), "style": rng.choice(["inferred", "explicit", "variadic", "inferred-decorated", "inferred-method", "inferred-default", "partial", "callable-object"])}
    sc["exc"] = {"query": rng.choice(_EXC_QUERIES), "succ": sorted(rng.sample([1, 2, 3], rng.randint(0, 3))),
                 "event": rng.randint(0, 7), "exc_class": rng.choice(["custom", "yp", "runtime", "key", "value"]),
                 "style": rng.choice(["inferred", "explicit", "variadic", "inferred-decorated", "inferred-method", "inferred-default", "partial", "callable-object"])}
    # the Python predicates are registered before (True) or after the script is loaded: the order is the user's choice
    sc["register_first"] = rng.random() < 0.5
    sc["dyn_first"] = bool(sc["dyn"]) and rng.random() < 0.35
    return untup(sc)


# ---------------------------------------------------------------------- natives
_FOREIGN = []


def make_native(real, rows, arity, style, yields, counter=None, atoms="own"):
    """a python GENERATOR FUNCTION equivalent to the facts `rows` of name/arity: for every row (fresh variables per
    use) it unifies its arguments one by one in nested for-loops and yields once per solution.
    style inferred/explicit -> exactly `arity` positional parameters; variadic -> *args."""
    rows = [tuple(r) for r in rows]
    state = {"n": 0}

    def fresh_rows():
        if counter is not None:
            counter[0] += 1
        out = []
        src = real
        if atoms == "foreign":
            if not _FOREIGN:
                _FOREIGN.append(RealEngine())
            src = _FOREIGN[0]
        for row in rows:
            vm = {}
            out.append([src.to_engine(t, vm) for t in row])
        return out

    def nextval():
        state["n"] += 1
        if yields == "true":
            return True
        if yields == "false":
            return False
        if yields == "none":
            return None
        return state["n"] % 2 == 1

    if style == "variadic":
        head = "def native(*args):\n  if len(args) != %d:\n    return\n" % arity
        ref = lambda i: "args[%d]" % i          # noqa: E731
    else:
        head = "def native(%s):\n" % ",".join("arg%d" % (i + 1) for i in range(arity))
        ref = lambda i: "arg%d" % (i + 1)       # noqa: E731
    body = "  for row in fresh_rows():\n"
    ind = "    "
    for i in range(arity):
        body += "%sfor l%d in unify(%s, row[%d]):\n" % (ind, i + 1, ref(i), i)
        ind += "  "
    body += "%syield nextval()\n" % ind
    env = {"unify": unify, "fresh_rows": fresh_rows, "nextval": nextval, "len": len}
    exec(head + body, env)
    return env["native"]


def _traced(f):
    """an ordinary well-behaved decorator (functools.wraps): the decorated function presents f's signature"""
    import functools

    @functools.wraps(f)
    def wrapper(*args, **kwargs):
        return f(*args, **kwargs)
    return wrapper


def register(real, name, f, arity, style):
    if style == "inferred":
        real.yp.register_function(name, f)
    elif style == "inferred-default":
        # the arity is the number of parameters of the function, with or without default values
        if arity == 0:
            real.yp.register_function(name, f)
        else:
            ps = ["a%d" % (i + 1) for i in range(arity)]
            env = {"f": f}
            exec("def pred(%s=None):\n    return f(%s)\n" % (",".join(ps), ",".join(ps)), env)
            real.yp.register_function(name, env["pred"])
    elif style == "partial":
        import functools
        real.yp.register_function(name, functools.partial(f), arity=arity)
    elif style == "callable-object":
        ps = ",".join("a%d" % (i + 1) for i in range(arity))
        env = {}
        exec("class Pred:\n  def __init__(self, f):\n    self.f = f\n  def __call__(self%s):\n    return self.f(%s)\n"
             % ("," + ps if ps else "", ps), env)
        real.yp.register_function(name, env["Pred"](f), arity=arity)
    elif style == "inferred-method":
        # a bound method of an object that nothing else refers to (the registration is what keeps the predicate alive)
        ps = ",".join("a%d" % (i + 1) for i in range(arity))
        env = {}
        exec("class Holder:\n  def __init__(self, f):\n    self.f = f\n  def pred(self%s):\n    return self.f(%s)\n"
             % ("," + ps if ps else "", ps), env)
        real.yp.register_function(name, env["Holder"](f).pred)
        import gc
        gc.collect()
    elif style == "inferred-decorated":
        # arity inferred from the number of function arguments, as documented: the function's (visible) signature
        real.yp.register_function(name, _traced(f))
    elif style == "explicit":
        real.yp.register_function(name, f, arity=arity)
    else:
        real.yp.register_function(name, f, arity=-1)


def wrap_params(f, arity, style):
    """function with the parameter list that the registration style needs, delegating to f(args_tuple)"""
    if style == "variadic":
        def native(*args):
            return f(args)
        return native
    ps = ",".join("arg%d" % (i + 1) for i in range(arity))
    env = {"f": f}
    exec("def native(%s):\n  yield from f((%s))\n" % (ps, ps + "," if arity else ""), env)
    return env["native"]


# -------------------------------------------------------------------- answers
def _norm(answers):
    return [("EXC", a[1]) if a and a[0] == "EXC" else a for a in answers]


def _is_exc(a):
    return bool(a) and a[0] == "EXC"


def _same(exp, obs):
    if exp == obs:
        return True
    if exp and obs and _is_exc(exp[-1]) and _is_exc(obs[-1]):
        return exp[:-1] == obs[:-1]
    return False


def _real_answers(real, q):
    try:
        return _norm(common.timed(real.answers, q, max_answers=MAX_ANSWERS))
    except common.Timeout as e:
        return [("EXC", "Timeout")]


def _has_control_call(x):
    """call/N (or findall/once) of a control construct such as call('!'): excluded by difftest.py as well"""
    if isinstance(x, tuple):
        if len(x) == 2 and x[0] == "atom" and x[1] in ("!", ",", ";", "->", "\\+"):
            return True
        return any(_has_control_call(y) for y in x)
    return False


def _show(a):
    return [answer_to_source(x) if not (x and x[0] == "EXC") else "EXC " + str(x[1]) for x in a]


# ------------------------------------------------------------------ part 1: swap
def run_swap(sc, out):
    program = [tup(c) for c in sc["program"]]
    more = [([tup(c) for c in p], ow) for p, ow in sc["more"]]
    contexts = [tup(c) for c in sc["contexts"]]
    queries = [tup(q) for q in sc["queries"]] + [tup(q) for q in sc["ctx_queries"]]
    swap = sc["swap"]
    if not swap:
        return
    keys = set((s["name"], s["arity"]) for s in swap)

    ref = RefEngine()
    ref.check_sto = True
    ref.consult(program)
    for p, ow in more:
        ref.consult(p, overwrite=ow)
    ref.consult(contexts)

    def load(real, prog):
        real.consult(prog)
        for p, ow in more:
            real.consult(p, overwrite=ow)
        real.consult(contexts)
    base = RealEngine()
    swp = RealEngine()
    entered = [0]
    try:
        if sc.get("dyn_first"):
            # the dynamic facts are there BEFORE anything is loaded or registered: defining a predicate (either way) leaves them alone
            for how, t in sc["dyn"]:
                for eng in (ref, base, swp):
                    getattr(eng, how)(tup(t))
        common.timed(load, base, program)
        stripped = gen.strip_predicates(program, keys)
        if sc.get("register_first"):
            for s in swap:
                f = make_native(swp, [tup(r) for r in s["rows"]], s["arity"], s["style"], s["yields"], entered, s.get("atoms", "own"))
                register(swp, s["name"], f, s["arity"], s["style"])
                if s.get("alias") and s["style"] in ("explicit", "variadic", "inferred"):
                    swp.yp.register_function("zz_alias_" + s["name"], f, {"explicit": s["arity"], "variadic": -1}.get(s["style"]))
        common.timed(load, swp, stripped if stripped else [((atom("zz__none")), TRUE)])
    except Exception as e:
        out["extra"]["consult_failed"] = out["extra"].get("consult_failed", 0) + 1
        out["ev"] += 1
        out["fails"].append("consult raised %s: %s" % (type(e).__name__, str(e)[:200]))
        return
    for s in ([] if sc.get("register_first") else swap):
        f = make_native(swp, [tup(r) for r in s["rows"]], s["arity"], s["style"], s["yields"], entered, s.get("atoms", "own"))
        register(swp, s["name"], f, s["arity"], s["style"])
        if s.get("alias") and s["style"] in ("explicit", "variadic", "inferred"):
            swp.yp.register_function("zz_alias_" + s["name"], f, {"explicit": s["arity"], "variadic": -1}.get(s["style"]))
    desc = "; ".join("%s/%d as %s native yielding %s" % (s["name"], s["arity"], s["style"], s["yields"]) for s in swap)
    pkey = common.digest([sc["program"], sc["more"], sc["contexts"], swap])

    for phase in (1, 2):
        if phase == 2:
            if not sc["dyn"] or sc.get("dyn_first"):
                break
            for how, t in sc["dyn"]:
                t = tup(t)
                for eng in (ref, base, swp):
                    getattr(eng, how)(t)
        for qi, q in enumerate(queries):
            try:
                exp = _norm(ref.answers(q, max_answers=MAX_ANSWERS, step_limit=STEP_LIMIT))
            except RefLimit:
                out["extra"]["skipped_ref_limit"] = out["extra"].get("skipped_ref_limit", 0) + 1
                continue
            sto = bool(ref.sto)
            b = _real_answers(base, q)
            before = entered[0]
            o = _real_answers(swp, q)
            reached = entered[0] > before
            if b and _is_exc(b[-1]) and b[-1][1] in ("RecursionError", "Timeout"):
                out["extra"]["skipped_base_limit"] = out["extra"].get("skipped_base_limit", 0) + 1
                continue
            if sto:
                out["extra"]["excluded_sto"] = out["extra"].get("excluded_sto", 0) + 1
                continue
            if _has_control_call(q) or (_has_control_call(tuple(contexts) + tuple(c for p, _ in more for c in p)) and not _same(exp, b)):
                out["extra"]["excluded_call_of_control_construct"] = out["extra"].get("excluded_call_of_control_construct", 0) + 1
                continue
            out["ev"] += 1
            if exp and reached:
                out["nontrivial"].append(common.digest([pkey, qi, phase]))
            qs = goal_to_source(q)
            if o != b:
                out["fails"].append("phase %d ?- %s with %s: all-compiled real engine %s, with natives %s (reference %s)" % (
                    phase, qs, desc, _show(b), _show(o), _show(exp)))
            elif not _same(exp, o):
                out["fails"].append("phase %d ?- %s with %s: reference %s, real engine with natives %s%s" % (
                    phase, qs, desc, _show(exp), _show(o),
                    " [the all-compiled real engine differs from the reference in the same way]" if b == o else ""))
            elif out["sample"] is None and exp and reached and phase == 2 and qi >= len(sc["queries"]):
                out["sample"] = {"case": sc["case_id"], "natives": desc, "phase": phase, "query": qs,
                                 "rule": [to_source([c]).strip() for c in contexts if c[0][1] == q[1][1]][:2],
                                 "answers": _show(o)[:6], "dynamic_facts": [[h, term_to_source(tup(t))] for h, t in sc["dyn"]]}


# ------------------------------------------------------- part 2: argument check
def _anon(terms):
    n = [0]

    def f(v):
        if v[1] == "_":
            n[0] += 1
            return ("var", "_anon%d" % n[0])
        return v
    return tuple(map_vars(t, f) for t in terms)


def run_argcheck(sc, out):
    ac = sc["argcheck"]
    templates = [tup(t) for t in ac["templates"]]
    m = len(templates)
    caller = ac["caller"]
    real = RealEngine()
    yp = real.yp
    calls = []
    qvars = {}      # ("var", name) -> Variable object of the query

    def rec(args):
        names = {}
        snap = tuple(_from_engine(a, names, 0) for a in args)
        snapq = tuple(_from_engine(qvars[v], names, 0) for v in sorted(qvars))
        calls.append((list(args), canon(snap + snapq)))
        yield False
    register(real, "rec", wrap_params(rec, m, ac["style"]), m, ac["style"])
    hv = vars_of(tuple(templates))
    head = fun("ac", *hv)
    goal_t = fun("rec", *templates)
    out["ev"] += 1
    try:
        if caller == "api":
            vm = {}
            eargs = [real.to_engine(t, vm) for t in templates]
            for v in hv:
                qvars[v] = vm[v]
            n = sum(1 for _ in yp.query("rec", eargs))
            direct = eargs
        else:
            j = min(ac["split"], m)
            if caller == "compiled":
                body = call(goal_t)
            elif caller == "call":
                body = call(fun("call", fun("rec", *templates[:j]), *templates[j:]))
            elif caller == "once":
                body = call(fun("once", goal_t))
            else:
                body = call(fun("findall", atom("x"), goal_t, var("Lfa")))
            real.consult([(head, body)])
            vm = {}
            eargs = [real.to_engine(v, vm) for v in hv]
            for v in hv:
                qvars[v] = vm[v]
            n = sum(1 for _ in yp.query("ac", eargs))
            direct = None
    except Exception as e:
        out["fails"].append("argcheck (%s, %s): raised %s: %s" % (caller, ac["style"], type(e).__name__, str(e)[:200]))
        return
    what = "argcheck caller=%s style=%s goal %s" % (caller, ac["style"], term_to_source(goal_t))
    if n != 1 or len(calls) != 1:
        out["fails"].append("%s: %d answers, native entered %d times (expected 1, 1)" % (what, n, len(calls)))
        return
    got, snap = calls[0]
    out["nontrivial"].append(common.digest(["arg", ac]))
    if len(got) != m:
        out["fails"].append("%s: native received %d arguments instead of %d" % (what, len(got), m))
        return
    want = canon(_anon(tuple(templates)) + tuple(sorted(qvars)))
    if snap != want:
        out["fails"].append("%s: native received %r (followed by the query variables), expected %r" % (what, snap, want))
        return
    for i, (t, g) in enumerate(zip(templates, got)):
        tag = t[0]
        ok = True
        if tag == "atom":
            ok = isinstance(g, Atom) and (g is yp.atom(t[1]) or (t == NIL and g is yp.ATOM_NIL))
        elif tag == "int":
            ok = type(g) is int and g == t[1]
        elif tag == "fun":
            ok = isinstance(g, Functor) and g._name == t[1] and len(g._args) == len(t[2])
        elif tag == "var":
            ok = isinstance(g, Variable) and not g._is_bound
            if ok and t[1] != "_":
                ok = g is qvars[t]          # the very variable object the consumer built
        if ok and direct is not None:
            ok = g is direct[i]
        if not ok:
            out["fails"].append("%s: argument %d is %s %s, expected the caller's term %s (type / identity)" % (
                what, i + 1, type(g).__name__, g, term_to_source(t)))
            return


# ------------------------------------------------------ part 3: exception check
class Boom(Exception):
    pass


_EXC_CLASSES = {"custom": Boom, "yp": YPException, "runtime": RuntimeError, "key": KeyError, "value": ValueError}

_EXC_SRC = """
n(1). n(2). n(3).
x_conj(A) :- n(A), boom(A).
x_neg(A) :- n(A), \\+ boom(A).
nb(A) :- n(A), boom(A).
x_findall(L) :- findall(A, nb(A), L).
x_once(A) :- once(nb(A)).
x_ite(A, R) :- n(A), ( boom(A) -> R = y ; R = n ).
x_call(A) :- n(A), call(boom, A).
x_cut(A) :- nb(A), !.
x_cut(A) :- n(A).
x_nest1(L) :- findall(p(A, R), x_ite(A, R), L).
x_nest2(A) :- once(x_neg(A)).
x_nest2(A) :- x_conj(A).
x_nest3(R) :- ( \\+ x_conj(_) -> R = none ; x_findall(R) ).
xor(B) :- x_call(B) ; nb(B).
x_nest4(A, L) :- nb(A), findall(B, xor(B), L), \\+ x_once(9).
"""
_EXC_ARITY = {"x_conj": 1, "x_neg": 1, "x_findall": 1, "x_once": 1, "x_ite": 2, "x_call": 1, "x_cut": 1, "x_nest1": 1,
              "x_nest2": 1, "x_nest3": 1, "x_nest4": 2, "boom": 1}


def run_exc(sc, out):
    ex = sc["exc"]
    succ = set(ex["succ"])
    qname = ex["query"]
    ar = _EXC_ARITY[qname]
    out["ev"] += 1

    def attempt(raise_at, exc_obj):
        """returns (answers delivered, events seen, caught exception or None, variables, engine)"""
        real = RealEngine()
        real.consult(_EXC_SRC)
        events = []
        delivered = []

        def boom(args):
            def event(kind):
                events.append((kind, len(delivered)))
                if raise_at is not None and len(events) - 1 == raise_at:
                    raise exc_obj
            event("enter")
            v = get_value(args[0])
            if isinstance(v, Variable):
                for x in (1, 2, 3):
                    if x in succ:
                        for _l in unify(v, x):
                            yield False
                            event("resume")
            elif v in succ:
                yield True
                event("resume")
        register(real, "boom", wrap_params(boom, 1, ex["style"]), 1, ex["style"])
        vs = [real.yp.variable() for _ in range(ar)]
        caught = None
        try:
            for _ in real.yp.query(qname, vs):
                names = {}
                delivered.append(canon(tuple(_from_engine(v, names, 0) for v in vs)))
        except BaseException as e:       # noqa: the consumer's except clause
            if isinstance(e, common.Timeout):
                raise
            caught = e
        return delivered, events, caught, vs, real

    what = "exception check ?- %s(..) boom succeeds for %s, style %s" % (qname, sorted(succ), ex["style"])
    try:
        dry, events, caught, vs, _real = common.timed(attempt, None, None)
    except Exception as e:
        out["fails"].append("%s: dry run raised %s: %s" % (what, type(e).__name__, str(e)[:200]))
        return
    if caught is not None:
        out["fails"].append("%s: dry run raised %s: %s" % (what, type(caught).__name__, str(caught)[:200]))
        return
    if events:
        out["nontrivial"].append(common.digest(["exc", ex]))
    cls = _EXC_CLASSES[ex["exc_class"]]
    exc_obj = cls("unique exception object")
    at = ex["event"]
    try:
        got, ev2, caught, vs, real = common.timed(attempt, at, exc_obj)
    except Exception as e:
        out["fails"].append("%s: run raised %s: %s" % (what, type(e).__name__, str(e)[:200]))
        return
    if at >= len(events):
        # the event never happens: no exception, same answers
        if caught is not None or got != dry:
            out["fails"].append("%s: no raise scheduled, but got %r / %s instead of %s" % (what, caught, _show(got), _show(dry)))
        return
    kind, ndelivered = events[at]
    what += ", %s raised at event %d (%s, after %d answers)" % (cls.__name__, at, kind, ndelivered)
    if caught is None:
        out["fails"].append("%s: the exception did not reach the consumer (answers %s)" % (what, _show(got)))
        return
    if caught is not exc_obj:
        out["fails"].append("%s: the consumer caught %s %r, not the raised object" % (what, type(caught).__name__, caught))
        return
    if got != dry[:ndelivered]:
        out["fails"].append("%s: answers before the exception %s, expected %s" % (what, _show(got), _show(dry[:ndelivered])))
        return
    bound = [i for i, v in enumerate(vs) if v._is_bound or get_value(v) is not v]
    if bound:
        out["fails"].append("%s: query variables %s are still bound after the exception" % (what, bound))
        return
    # the engine is still usable, and nothing stays bound inside: the same query, natives now quiet
    try:
        def again():
            def quiet(args):
                v = get_value(args[0])
                if isinstance(v, Variable):
                    for x in (1, 2, 3):
                        if x in succ:
                            for _l in unify(v, x):
                                yield False
                elif v in succ:
                    yield False
            register(real, "boom", wrap_params(quiet, 1, ex["style"]), 1, ex["style"])
            vs2 = [real.yp.variable() for _ in range(ar)]
            res = []
            for _ in real.yp.query(qname, vs2):
                names = {}
                res.append(canon(tuple(_from_engine(v, names, 0) for v in vs2)))
            return res
        res = common.timed(again)
        if res != dry:
            out["fails"].append("%s: the same query afterwards gives %s instead of %s" % (what, _show(res), _show(dry)))
    except Exception as e:
        out["fails"].append("%s: the same query afterwards raised %s: %s" % (what, type(e).__name__, str(e)[:200]))


# ------------------------------------------------------------------------ main
def run_scenario(sc):
    out = {"ev": 0, "fails": [], "nontrivial": [], "sample": None, "extra": {}}
    run_swap(sc, out)
    run_argcheck(sc, out)
    run_exc(sc, out)
    return {"evaluations": out["ev"], "failures": out["fails"][:8], "nontrivial": out["nontrivial"],
            "sample": out["sample"], "extra": out["extra"]}


if __name__ == "__main__":
    common.main(sys.modules[__name__])
