#!/usr/bin/env python3
"""recog_diff -- differential test: g4reader (independent recogniser/reader of prolog.g4)
versus (1) ANTLR in STRICT mode, (2) the real compiler, (3) the real parse trees.

    /venv/bin/python recog_diff.py --seed N --count N --out result.json [--jobs J]

Valid programs: /repo/tests/data/*.prolog, /repo/examples/**/*.{prolog,pl}, and random
grammar-derived programs (built-in generator, every grammar alternative is reachable and
coverage is checked).  Every valid program and every single-edit corruption of it
(corrupt.corruptions) is evaluated:

  R  g4reader.recognise(text)            Earley over the literal grammar       (the oracle)
  R2 g4reader.recognise_descent(text)    second implementation, must equal R
  R3 g4reader.recognise_full_earley(text) unsegmented Earley (on a sample), must equal R
  S  strict ANTLR: raising error listeners on lexer and parser, BailErrorStrategy,
     parser.program(), then LA(1) must be EOF                                  must equal R
  C  yldprolog.compiler.compile_prolog_from_string(text) returns without exception AND the set
     of `def <name>_<arity>(` in the output equals g4reader.clause_keys(text)

accept_mismatch = R != C.  At the pinned commit the compiler is known to accept invalid text
(ANTLR default error recovery, no EOF check) so "R rejects, C accepts" is expected and is reported
by class; "R accepts, C fails" is classified with g4reader.hazards and the exception type.
For texts accepted by both R and S the clause trees of g4reader.parse_program are compared with
the real parse (YPPrologVisitor result classes; operator skeleton straight from the parse tree
contexts when the visitor raises CompilerError).

This file (and test_g4reader.py) are the only ones allowed to import yldprolog/antlr4.
"""

import argparse
import contextlib
import glob
import io
import json
import multiprocessing
import os
import random
import re
import sys
import time

sys.path.insert(0, os.path.dirname(os.path.abspath(__file__)))
sys.setrecursionlimit(20000)

import g4reader                      # noqa: E402
from corrupt import corruptions, KINDS   # noqa: E402

RULE = ("accept: g4reader.recognise(text) [text in L(program EOF) of prolog.g4]  ==  "
        "(compile_prolog_from_string(text) returns without exception AND "
        "{(name,arity) of every '^def <name>_<arity>(' line} == set(g4reader.clause_keys(text))); "
        "strict: g4reader.recognise == recognise_descent == strict ANTLR "
        "(raising listeners + BailErrorStrategy + LA(1)==EOF after program()); "
        "tree: g4reader.parse_program clause trees == real ANTLR parse through YPPrologVisitor")

# ======================================================================================
# real side (ANTLR / yldprolog) -- imported lazily so that --help works without them
# ======================================================================================

_real = {}


def _load_real():
    if _real:
        return _real
    import antlr4
    from antlr4 import InputStream, CommonTokenStream, Token
    from antlr4.error.ErrorListener import ErrorListener
    from antlr4.error.ErrorStrategy import BailErrorStrategy
    from antlr4.error.Errors import ParseCancellationException
    from yldprolog.prologLexer import prologLexer
    from yldprolog.prologParser import prologParser
    from yldprolog import yp_prolog_visitor as V
    from yldprolog.compiler import compile_prolog_from_string, CompilerContext
    from yldprolog.errors import CompilerError

    class StrictError(Exception):
        pass

    class Raising(ErrorListener):
        def syntaxError(self, recognizer, offendingSymbol, line, column, msg, e):
            raise StrictError("%d:%d %s" % (line, column, msg))

    _real.update(locals())
    return _real


def strict_antlr(text):
    """(accepted, tree or None, reason)"""
    r = _load_real()
    lexer = r["prologLexer"](r["InputStream"](text))
    lexer.removeErrorListeners()
    lexer.addErrorListener(r["Raising"]())
    stream = r["CommonTokenStream"](lexer)
    parser = r["prologParser"](stream)
    parser.removeErrorListeners()
    parser.addErrorListener(r["Raising"]())
    parser._errHandler = r["BailErrorStrategy"]()
    try:
        stream.fill()                      # lex everything first: any lexical error raises
        tree = parser.program()
    except r["StrictError"] as exc:
        return False, None, "listener: %s" % exc
    except r["ParseCancellationException"] as exc:
        return False, None, "bail: %s" % type(exc.args[0]).__name__ if exc.args else "bail"
    if parser.getTokenStream().LA(1) != r["Token"].EOF:
        return False, None, "input left after program()"
    return True, tree, ""


def real_lex(text):
    """("ok", [(kind, text, start)]) or ("err", line, col) from the real lexer alone"""
    r = _load_real()
    L = r["prologLexer"]
    names = {i: lit for i, lit in enumerate(g4reader.LITERALS, 1)}
    for nm in ("TRUE", "FAIL", "CUT", "VARIABLE", "ATOM", "NUMERAL", "UNOP", "BINOP", "STRING", "LBRACK", "RBRACK"):
        names[getattr(L, nm)] = nm

    class Pos(r["ErrorListener"]):
        def syntaxError(self, recognizer, offendingSymbol, line, column, msg, e):
            raise r["StrictError"]((line, column))
    lexer = L(r["InputStream"](text))
    lexer.removeErrorListeners()
    lexer.addErrorListener(Pos())
    try:
        toks = lexer.getAllTokens()
    except r["StrictError"] as exc:
        return ("err",) + tuple(exc.args[0])
    return "ok", [(names[t.type], t.text, t.start, t.line, t.column) for t in toks]


def my_lex(text):
    try:
        return "ok", [tuple(t) for t in g4reader.tokenize(text)]
    except g4reader.PlSyntaxError as exc:
        return "err", exc.line, exc.col


_DEF_RE = re.compile(r"^def (.*)_(\d+)\((?:arg\d+(?:,arg\d+)*)?\):$", re.M)


def real_compile(text):
    """("ok", set of (name, arity)) or (exception type name, message)"""
    r = _load_real()
    err = io.StringIO()
    try:
        with contextlib.redirect_stderr(err):
            out = r["compile_prolog_from_string"](text)
    except r["CompilerError"] as exc:
        return "CompilerError", str(exc)[:200]
    except RecursionError:
        return "RecursionError", ""
    except Exception as exc:                               # noqa: BLE001
        return type(exc).__name__, str(exc)[:200]
    return "ok", sorted(set((m.group(1), int(m.group(2))) for m in _DEF_RE.finditer(out)))


# ---- real parse tree -> g4reader tuple format ---------------------------------------------

SLASH = ("slashterm",)        # the visitor has no tree for ATOM '/' NUMERAL (returns None)


def _conv_term(t):
    V = _real["V"]
    if t is None:
        return SLASH
    if isinstance(t, V.Atom):
        return ("atom", t.value)
    if isinstance(t, V.NumeralTerm):
        return ("int", int(t.num))
    if isinstance(t, V.AnonymousVariableTerm):
        return ("var", "_")
    if isinstance(t, V.VariableTerm):
        return ("var", t.varname)
    if isinstance(t, V.Functor):
        n = t.name
        name = n.value if isinstance(n, V.Atom) else n.num
        return ("fun", name, tuple(_conv_term(a) for a in t.args))
    if isinstance(t, V.ListTerm):
        tail = ("atom", "[]")
        for item in reversed(t.items):
            tail = ("fun", ".", (_conv_term(item), tail))
        return tail
    if isinstance(t, V.ListPairTerm):
        return ("fun", ".", (_conv_term(t.head), _conv_term(t.tail)))
    raise TypeError(type(t))


def _conv_goal(g):
    V = _real["V"]
    if isinstance(g, V.TruePredicate):
        return ("true",)
    if isinstance(g, V.FailPredicate):
        return ("fail",)
    if isinstance(g, V.CutPredicate):
        return ("cut",)
    if isinstance(g, V.Predicate):
        f = g.functor
        return ("call", _conv_term(f))
    if isinstance(g, V.ConjunctionPredicate):
        return (",", _conv_goal(g.lhs), _conv_goal(g.rhs))
    if isinstance(g, V.DisjunctionPredicate):
        return (";", _conv_goal(g.lhs), _conv_goal(g.rhs))
    if isinstance(g, V.IfThenPredicate):
        return ("->", _conv_goal(g.condition), _conv_goal(g.action))
    if isinstance(g, V.NegationPredicate):
        return ("\\+", _conv_goal(g.pred))
    raise TypeError(type(g))


def _norm_mine(x):
    """g4reader tree -> comparable form: slash terms become SLASH; a 0-ary compound foo() and the
    atom foo are both Functor(foo, []) after visitTermpredicate, so in goal position they are
    identified."""
    if not isinstance(x, tuple):
        return x
    if x[0] == "fun" and x[1] == "/" and len(x[2]) == 2 and x[2][0][0] == "atom" and x[2][1][0] == "int":
        return SLASH
    if x[0] == "call":
        t = _norm_mine(x[1])
        if t[0] == "atom":
            t = ("fun", t[1], ())
        return ("call", t)
    if x[0] == "fun":
        return ("fun", x[1], tuple(_norm_mine(a) for a in x[2]))
    return tuple(_norm_mine(a) for a in x)


def _skeleton_ctx(ctx):
    """operator skeleton of a real PredicateexpressionContext, leaves = '*'"""
    if ctx.simplepredicate() is not None:
        return "*"
    subs = ctx.predicateexpression()
    if ctx.op is not None:
        if ctx.op.text == "\\+":
            return ("\\+", _skeleton_ctx(subs[0]))
        return (ctx.op.text, _skeleton_ctx(subs[0]), _skeleton_ctx(subs[1]))
    return _skeleton_ctx(subs[0])


def _skeleton_mine(g):
    if g[0] in (",", ";", "->"):
        return (g[0], _skeleton_mine(g[1]), _skeleton_mine(g[2]))
    if g[0] == "\\+":
        return ("\\+", _skeleton_mine(g[1]))
    return "*"


def compare_trees(text, tree):
    """list of mismatch descriptions (empty = all clause trees agree)"""
    r = _load_real()
    V = r["V"]
    mine = g4reader.parse_program(text)
    cods = tree.clauseordirective()
    problems = []
    if len(cods) != len(mine):
        return ["clause count: real %d, g4reader %d" % (len(cods), len(mine))]
    for idx, (cod, m) in enumerate(zip(cods, mine)):
        if cod.clause() is None:
            if m[0] != "directive":
                problems.append("#%d: real directive, g4reader clause" % idx)
            continue
        if m[0] == "directive" and len(m) == 2 and cod.clause() is not None:
            problems.append("#%d: real clause, g4reader directive" % idx)
            continue
        cl = cod.clause()
        visitor = V.YPPrologVisitor(r["CompilerContext"])
        head, body = m
        try:
            c = visitor.visitClause(cl)
        except r["CompilerError"]:
            # not callable somewhere: compare operator skeleton only
            pe = cl.predicateexpression()
            real_sk = _skeleton_ctx(pe) if pe is not None else "*"
            if real_sk != _skeleton_mine(body):
                problems.append("#%d skeleton: real %r g4reader %r" % (idx, real_sk, _skeleton_mine(body)))
            continue
        real_head = _conv_goal(c.head)
        my_head = _norm_mine(("call", head)) if len(head) > 1 else head
        real_body = _conv_goal(c.body)
        my_body = _norm_mine(body)
        if real_head != my_head:
            problems.append("#%d head: real %r g4reader %r" % (idx, real_head, my_head))
        if real_body != my_body:
            problems.append("#%d body: real %r g4reader %r" % (idx, real_body, my_body))
    return problems


# ======================================================================================
# random grammar-derived programs
# ======================================================================================

ALTERNATIVES = [
    "clause.fact", "clause.rule", "directive",
    "pe.simple", "pe.not", "pe.and", "pe.ifthen", "pe.or", "pe.paren",
    "sp.true", "sp.fail", "sp.cut", "sp.term",
    "term.atom", "term.functor", "term.slash", "term.var", "term.unop", "term.binop",
    "term.binop_prefix", "term.paren", "term.list", "term.listpair", "term.listpair_comma",
    "term.listpair_comma_empty", "termlist.empty", "termlist.one", "termlist.many",
    "atom.ATOM", "atom.NUMERAL", "atom.STRING",
    "lex.comment_lf", "lex.comment_cr", "lex.tab", "lex.crlf", "lex.anon_var", "lex.underscore_var",
    "lex.string_escaped_quote", "lex.string_backslash", "lex.string_percent", "lex.string_newline",
    "lex.glued",
]

_ATOMS = ["a", "b", "c", "foo", "bar", "baz", "p", "q", "r", "x1", "fooBar", "a_b", "truex",
          "failing", "t", "f", "member", "append"]
_VARS = ["X", "Y", "Z", "Xs", "T", "H", "_", "_x", "_G1", "Acc", "X_1"]
_NUMS = ["0", "1", "2", "42", "007", "10", "123456789"]
_UNOPS = ["-", "+"]
_BINOPS = ["=", "\\=", "==", "\\==", "<", ">", "=<", ">="]
_PLAIN = "abcxyz XYZ019_%.,()[]|:-;!\"#$@\n\t/"


class Gen:
    """Random derivations of the grammar.  tame=True restricts to what the compiler is supposed
    to handle (callable heads/goals, ATOM functor names, no ATOM/NUMERAL term) so that C is
    comparable; tame=False derives anything."""

    def __init__(self, rng, tame, cover):
        self.rng = rng
        self.tame = tame
        self.cover = cover

    def hit(self, alt):
        self.cover[alt] = self.cover.get(alt, 0) + 1

    def string_tok(self):
        self.hit("atom.STRING")
        rng = self.rng
        body = []
        for _ in range(rng.randrange(0, 6)):
            k = rng.random()
            if k < 0.6:
                c = rng.choice(_PLAIN)
                if c == "%":
                    self.hit("lex.string_percent")
                if c == "\n":
                    self.hit("lex.string_newline")
                body.append(c)
            elif k < 0.8:
                body.append("\\'")
                self.hit("lex.string_escaped_quote")
            else:
                body.append("\\" + rng.choice("abn\\x"))        # backslash never last in body
                if body[-1] == "\\\\":
                    body[-1] = "\\\\x"
                self.hit("lex.string_backslash")
        return "'" + "".join(body) + "'"

    def atom(self, callable_only=False):
        rng = self.rng
        k = rng.random()
        if k < 0.7 or (self.tame and callable_only and k < 0.85):
            self.hit("atom.ATOM")
            return [rng.choice(_ATOMS)]
        if k < 0.85 and not callable_only:
            self.hit("atom.NUMERAL")
            return [rng.choice(_NUMS)]
        if self.tame and callable_only:
            # quoted names are legal but produce non-identifier def lines: keep identifier-like
            self.hit("atom.STRING")
            return ["'" + rng.choice(_ATOMS) + "'"]
        return [self.string_tok()]

    def var(self):
        v = self.rng.choice(_VARS)
        if v == "_":
            self.hit("lex.anon_var")
        elif v[0] == "_":
            self.hit("lex.underscore_var")
        return v

    def termlist(self, d):
        rng = self.rng
        k = rng.random()
        if k < 0.15:
            self.hit("termlist.empty")
            return []
        if k < 0.5:
            self.hit("termlist.one")
            return self.term(d + 1)
        self.hit("termlist.many")
        out = self.term(d + 1)
        for _ in range(rng.randrange(1, 4)):
            out += [","] + self.term(d + 1)
        return out

    def functor(self, d, callable_only=False):
        self.hit("term.functor")
        if self.tame:
            self.hit("atom.ATOM")
            name = [self.rng.choice(_ATOMS)]
        else:
            name = self.atom()
        return name + ["("] + self.termlist(d) + [")"]

    def term(self, d, callable_only=False):
        """callable_only (tame mode): atom or compound, as required of heads and goals"""
        rng = self.rng
        deep = d >= 4
        while True:
            k = rng.randrange(10)
            if k == 0:
                self.hit("term.atom")
                return self.atom(callable_only)
            if k == 1 and not deep:
                return self.functor(d, callable_only)
            if k == 2:
                if self.tame:
                    continue
                self.hit("term.slash")
                return [rng.choice(_ATOMS), "/", rng.choice(_NUMS)]
            if k == 3:
                if self.tame and callable_only:
                    continue
                self.hit("term.var")
                return [self.var()]
            if k == 4 and not deep:
                self.hit("term.unop")
                return [rng.choice(_UNOPS)] + self.term(d + 1)
            if k == 5 and not deep:
                self.hit("term.binop")
                return self.term(d + 1) + [rng.choice(_BINOPS)] + self.term(d + 1)
            if k == 6 and not deep:
                self.hit("term.binop_prefix")
                return [rng.choice(_BINOPS), "("] + self.term(d + 1) + [","] + self.term(d + 1) + [")"]
            if k == 7 and not deep:
                self.hit("term.paren")
                return ["("] + self.term(d + 1, callable_only) + [")"]
            if k == 8:
                if self.tame and callable_only:
                    continue
                self.hit("term.list")
                return ["["] + (self.termlist(d) if not deep else []) + ["]"]
            if k == 9 and not deep:
                if self.tame and callable_only:
                    continue
                out = ["["] + self.term(d + 1)
                j = rng.random()
                if j < 0.4:
                    self.hit("term.listpair")
                elif j < 0.85:
                    self.hit("term.listpair_comma")
                    tl = self.termlist(d)
                    while not tl:
                        tl = self.termlist(d)
                    out += [","] + tl
                else:
                    self.hit("term.listpair_comma_empty")
                    out += [","]
                return out + ["|", self.var(), "]"]

    def simplepredicate(self, d, head=False):
        rng = self.rng
        k = rng.random()
        if not (self.tame and head):
            if k < 0.08:
                self.hit("sp.true")
                return ["true"]
            if k < 0.14:
                self.hit("sp.fail")
                return ["fail"]
            if k < 0.22:
                self.hit("sp.cut")
                return ["!"]
        self.hit("sp.term")
        if self.tame and head:
            # heads: plain atom or compound with ATOM name (what the compiler is meant to take)
            if rng.random() < 0.3:
                self.hit("term.atom")
                self.hit("atom.ATOM")
                return [rng.choice(_ATOMS)]
            self.hit("term.functor")
            self.hit("atom.ATOM")
            return [rng.choice(_ATOMS), "("] + self.termlist(d) + [")"]
        return self.term(d, callable_only=True)

    def pe(self, d):
        rng = self.rng
        if d >= 5:
            self.hit("pe.simple")
            return self.simplepredicate(d)
        k = rng.random()
        if k < 0.40:
            self.hit("pe.simple")
            return self.simplepredicate(d)
        if k < 0.48:
            self.hit("pe.not")
            return ["\\+"] + self.pe(d + 1)
        if k < 0.68:
            self.hit("pe.and")
            return self.pe(d + 1) + [","] + self.pe(d + 1)
        if k < 0.78:
            self.hit("pe.ifthen")
            return self.pe(d + 1) + ["->"] + self.pe(d + 1)
        if k < 0.90:
            self.hit("pe.or")
            return self.pe(d + 1) + [";"] + self.pe(d + 1)
        self.hit("pe.paren")
        return ["("] + self.pe(d + 1) + [")"]

    def clauseordirective(self):
        k = self.rng.random()
        if k < 0.45:
            self.hit("clause.fact")
            return self.simplepredicate(1, head=True) + ["."]
        if k < 0.92:
            self.hit("clause.rule")
            return self.simplepredicate(1, head=True) + [":-"] + self.pe(0) + ["."]
        self.hit("directive")
        return [":-"] + self.simplepredicate(1) + ["."]

    def program_tokens(self):
        toks = []
        for _ in range(self.rng.randrange(0, 6) if self.rng.random() < 0.9 else self.rng.randrange(6, 15)):
            toks += self.clauseordirective()
        return toks

    def render(self, toks):
        """token texts -> source text with random layout; guaranteed (checked with the
        tokenizer) to lex back to exactly `toks`."""
        rng = self.rng
        style = rng.random()
        parts = []
        used = []
        for i, t in enumerate(toks):
            parts.append(t)
            if i + 1 == len(toks):
                break
            k = rng.random()
            if style < 0.25:
                sep, tag = " ", None                     # plain single spaces
            elif k < 0.35:
                sep, tag = "", "lex.glued"
            elif k < 0.75:
                sep, tag = " ", None
            elif k < 0.80:
                sep, tag = "\t", "lex.tab"
            elif k < 0.86:
                sep, tag = "\n", None
            elif k < 0.90:
                sep, tag = "\r\n", "lex.crlf"
            elif k < 0.95:
                sep, tag = " % a 'comment' with % and . , ( [ \\ \n", "lex.comment_lf"
            else:
                sep, tag = "%c\r", "lex.comment_cr"
            if sep == "":
                # glue only if the pair lexes back to itself in isolation and in context
                try:
                    pair = [x.text for x in g4reader.tokenize(t + toks[i + 1])]
                except g4reader.PlSyntaxError:
                    pair = None
                if pair != [t, toks[i + 1]]:
                    sep, tag = " ", None
            parts.append(sep)
            if tag:
                used.append(tag)
        text = "".join(parts)
        if toks:
            text += rng.choice(["", "\n", " ", "\n% end\n", "\r\n"])
        else:
            text = rng.choice(["", "\n", "% only a comment\n", "  \t\r\n"])
        try:
            back = [x.text for x in g4reader.tokenize(text)]
        except g4reader.PlSyntaxError:
            back = None
        if back != toks:
            text = " ".join(toks) + "\n"
            back = [x.text for x in g4reader.tokenize(text)]
            assert back == toks, (toks, back)
            used = []
        for tag in used:
            self.hit(tag)
        return text


# hand-written seeds: one per construct, so that coverage never depends on luck
SEED_PROGRAMS = [
    "", "\n", "% just a comment\n",
    "foo.", "foo(a).", "foo(a,b) :- bar(a), baz(b).", ":- initialization(main).", ":- foo.",
    "a :- b, c -> d ; e.", "a :- b ; c ; d.", "a :- b -> c -> d.", "a :- b , c , d.",
    "a :- \\+ b, c.", "a :- \\+ \\+ b.", "a :- \\+ (b, c) ; d.", "a :- (b ; c), (d -> e).",
    "a :- ((b)).", "a :- (b).", "a :- true, fail, !.", "a :- !.", "a :- b -> c ; d -> e ; f.",
    "p([]).", "p([a]).", "p([a,b,c]).", "p([H|T]).", "p([a,b|T]).", "p([a,|T]).", "p([[a],[b|T]]).",
    "p(X) :- X = 1.", "p(X) :- X \\= 1, X == 2, X \\== 3, X < 4, X > 5, X =< 6, X >= 7.",
    "p(X) :- =(X, 1).", "p(X) :- X = - 1.", "p(X) :- X = + Y.", "p :- - a.", "p(X) :- X = (a).",
    "p(X) :- X = Y = Z.", "p(- - 1).", "p(foo/2).", ":- import('', [sub/1]).", "p('hello world').",
    "p('it\\'s').", "p('').", "'quoted head'(a).", "p('a % not a comment').", "p('multi\nline').",
    "p(_).", "p(_, _x, X_1).", "p(007).", "3(x).", "'f'(x).", "foo().", "foo( ) :- bar( ).",
    "foo(a).\nfoo(b).\nbar(X) :- foo(X).\n", "foo(a). % trailing comment\n", "% c\r foo.\r\n",
    "a:-b,c;d->e.", "p(X):-X=a.", "p(X) :- X=<3, X>=1.", "p :- a = b, c.", "truex. failx. true_ :- fail_.",
    "p(a = b, c).", "p((a)).", "p([a = b | T]).", "p([- 1, + 2]).", "p(f(g(h(i)))).",
    "X.", "1.", "[a].", "[].", "true.", "fail :- a.", "! .", "foo :- X.", "foo :- 1, [a].", ":- X.",
    "X = Y.", "a = b :- c.", "- a.", "p :- (a , b) , c.", "p :- a , (b , c).", "p :- (a ; b) -> c.",
    "p :- \\+ a -> b ; c.", "p :- a ; \\+ b , c.", "p :- a -> \\+ b.", "p :- \\+ (\\+ a).",
]


# the defect probes named in the task description: every one is NOT in the language
PROBES = [
    "a(X) :- b(X),, c(X).", "foo(a). ) garbage", "foo(a). 'unterminated", "foo(a). #$@ foo(b).",
    "foo :- (a ; b.", "foo(a). foo", "foo(a)", "foo(a). % comment without newline", "foo(a) :- .",
    "foo(a) :- b(X) c(X).", "foo(a) :- b(X)) , c(X).", "foo([a,b).", "foo(a) :- b ;; c.", "foo(a)..",
    "foo(a) :- \"str\".", "foo(a) :- b : c.",
]


def make_valid_programs(rng, n_generated, cover):
    progs = []
    for path in sorted(glob.glob("/repo/tests/data/*.prolog")):
        with open(path, encoding="utf8") as fh:
            progs.append(("file:" + os.path.basename(path), fh.read()))
    for pat in ("/repo/examples/**/*.prolog", "/repo/examples/**/*.pl"):
        for path in sorted(glob.glob(pat, recursive=True)):
            with open(path, encoding="utf8") as fh:
                progs.append(("file:" + path, fh.read()))
    for i, s in enumerate(SEED_PROGRAMS):
        progs.append(("seed:%d" % i, s))
    for i in range(n_generated):
        tame = rng.random() < 0.6
        g = Gen(rng, tame, cover)
        progs.append(("gen:%s:%d" % ("tame" if tame else "wild", i), g.render(g.program_tokens())))
    return progs


# ======================================================================================
# evaluation of one text
# ======================================================================================

def _lex_status(text):
    try:
        g4reader.tokenize(text)
        return None
    except g4reader.PlSyntaxError as exc:
        return exc.msg


def classify_reject(text, kind):
    """class of a text rejected by the recogniser"""
    msg = _lex_status(text)
    if msg is not None:
        if "unterminated" in msg:
            return "lex:unterminated_quote"
        if "comment" in msg:
            return "lex:comment_without_newline_at_eof"
        return "lex:illegal_character"
    toks = g4reader.tokenize(text)
    kinds = [t.kind for t in toks]
    # which segment fails?
    seg = []
    nseg = 0
    for k in kinds:
        seg.append(k)
        if k == ".":
            nseg += 1
            if not g4reader._earley(tuple(seg), "clauseordirective"):
                return "syn:bad_clause"
            seg = []
    if seg:
        return "syn:trailing_tokens_without_full_stop" if nseg else "syn:no_full_stop_at_all"
    return "syn:?"


def evaluate(job):
    origin, kind, text, full_check = job
    res = {"origin": origin, "kind": kind, "text": text}
    try:
        R = g4reader.recognise(text)
        R2 = g4reader.recognise_descent(text)
        R3 = g4reader.recognise_full_earley(text) if full_check else R
    except RecursionError:
        res["error"] = "RecursionError in g4reader"
        return res
    res["R"] = R
    res["internal_agree"] = (R == R2 == R3)
    try:
        S, tree, why = strict_antlr(text)
    except RecursionError:
        S, tree, why = None, None, "RecursionError in ANTLR"
    res["S"] = S
    res["S_why"] = why
    rl, ml = real_lex(text), my_lex(text)
    res["lex_agree"] = (rl == ml)
    if rl != ml:
        res["lex_real"] = repr(rl)[:300]
        res["lex_mine"] = repr(ml)[:300]
    status, info = real_compile(text)
    res["C_status"] = status
    keys = None
    hz = []
    if R:
        keys = sorted(set(g4reader.clause_keys(text)))
        hz = sorted(g4reader.hazards(text))
        res["hazards"] = hz
    if status == "ok":
        defs = [tuple(x) for x in info]
        res["C_defs"] = defs
        C = (keys is not None and defs == keys) if R else True
        res["C_defs_equal"] = (defs == keys) if keys is not None else None
    else:
        res["C_msg"] = info
        C = False
    res["C"] = C
    if R != C:
        if not R:
            res["mismatch_class"] = "R_rejects_C_accepts/" + classify_reject(text, kind)
        elif status != "ok":
            res["mismatch_class"] = "R_accepts_C_raises/%s/%s" % (status, "hazard" if hz else "no_hazard")
        else:
            res["mismatch_class"] = "R_accepts_C_defs_differ/%s" % ("hazard" if hz else "no_hazard")
    elif not R:
        res["reject_class"] = classify_reject(text, kind)
    if R and S and tree is not None:
        try:
            res["tree_problems"] = compare_trees(text, tree)
        except Exception as exc:                                   # noqa: BLE001
            res["tree_problems"] = ["exception in compare_trees: %s: %s" % (type(exc).__name__, exc)]
    return res


def _short(text, limit=400):
    return text if len(text) <= limit else text[:limit] + "...[%d chars]" % len(text)


def main(argv=None):
    ap = argparse.ArgumentParser(description=__doc__, formatter_class=argparse.RawDescriptionHelpFormatter)
    ap.add_argument("--seed", type=int, default=0)
    ap.add_argument("--count", type=int, default=2000, help="approximate number of evaluated texts")
    ap.add_argument("--out", default="result.json")
    ap.add_argument("--jobs", type=int, default=min(8, os.cpu_count() or 1))
    ap.add_argument("--soup", type=int, default=-1, help="number of random token-soup texts (default count/8)")
    ap.add_argument("--examples", type=int, default=12, help="examples kept per mismatch class")
    args = ap.parse_args(argv)

    t0 = time.time()
    rng = random.Random(args.seed)
    cover = {}
    n_generated = max(60, args.count // 30)
    progs = make_valid_programs(rng, n_generated, cover)
    uncovered = [a for a in ALTERNATIVES if not cover.get(a)]

    # corruption budget: files weigh 8x a generated/seed program
    weights = [8 if o.startswith("file:") else 1 for o, _ in progs]
    budget = max(0, args.count - len(progs))
    total_w = sum(weights)
    jobs = []
    seen = set()
    for (origin, text), w in zip(progs, weights):
        if text not in seen:
            seen.add(text)
            jobs.append((origin, "valid", text, True))
        n = int(round(budget * w / total_w))
        for kind, ctext in corruptions(text, rng, n):
            if ctext in seen:
                continue
            seen.add(ctext)
            jobs.append((origin, kind, ctext, len(ctext) < 300))

    for i, ptxt in enumerate(PROBES):
        if ptxt not in seen:
            seen.add(ptxt)
            jobs.append(("probe:%d" % i, "probe", ptxt, True))

    # token soup: short random token sequences, a stress test for recogniser == strict ANTLR on
    # texts that are not near any valid program (a fair share is valid by chance)
    vocab = [".", ":-", "\\+", ",", "->", ";", "(", ")", "/", "|", "true", "fail", "!", "X", "_", "a", "foo",
             "1", "-", "+", "=", "\\==", "<", "'q'", "[", "]"]
    for i in range(args.soup if args.soup >= 0 else args.count // 8):
        n = rng.randrange(1, 10)
        stxt = " ".join(rng.choice(vocab) for _ in range(n)) + rng.choice([" .", " .", " .", ""])
        if stxt not in seen:
            seen.add(stxt)
            jobs.append(("soup:%d" % i, "soup", stxt, True))

    if args.jobs > 1:
        with multiprocessing.Pool(args.jobs) as pool:
            results = pool.map(evaluate, jobs, chunksize=20)
    else:
        results = [evaluate(j) for j in jobs]

    out = {
        "seed": args.seed, "count_requested": args.count, "rule": RULE,
        "evaluations": len(results),
        "valid_programs": sum(1 for r in results if r["kind"] == "valid"),
        "generator_uncovered_alternatives": uncovered,
        "corruption_kinds": {},
    }
    errors = [r for r in results if "error" in r]
    results = [r for r in results if "error" not in r]
    out["evaluation_errors"] = [{"origin": r["origin"], "kind": r["kind"], "text": _short(r["text"]), "error": r["error"]}
                                for r in errors[:20]]

    rejected_texts = set(r["text"] for r in results if r["kind"] in KINDS and not r["R"])
    out["distinct_nontrivial"] = len(rejected_texts)
    out["recogniser_accepts"] = sum(1 for r in results if r["R"])
    out["recogniser_rejects"] = sum(1 for r in results if not r["R"])
    for r in results:
        d = out["corruption_kinds"].setdefault(r["kind"], {"n": 0, "rejected": 0})
        d["n"] += 1
        d["rejected"] += 0 if r["R"] else 1

    # --- the checks that must be clean
    valid_rejected = [r for r in results if r["kind"] == "valid" and not r["R"]]
    internal = [r for r in results if not r["internal_agree"]]
    strict_dis = [r for r in results if r["S"] is None or r["S"] != r["R"]]
    lex_dis = [r for r in results if not r["lex_agree"]]

    def ex(r, extra=()):
        d = {"origin": r["origin"], "kind": r["kind"], "text": _short(r["text"]),
             "recogniser": r["R"], "strict_antlr": r["S"], "strict_why": r["S_why"],
             "compiler": r["C_status"] if r["C_status"] != "ok" else
             ("ok defs=%r" % (r.get("C_defs"),))}
        if r["C_status"] != "ok":
            d["compiler_msg"] = r.get("C_msg")
        if r.get("hazards"):
            d["hazards"] = r["hazards"]
        for k in extra:
            d[k] = r.get(k)
        return d

    out["valid_rejected_count"] = len(valid_rejected)
    out["valid_rejected"] = [ex(r) for r in valid_rejected[:50]]
    out["internal_disagreement_count"] = len(internal)
    out["internal_disagreement"] = [ex(r) for r in internal[:50]]
    out["strict_antlr_compared"] = len(results)
    out["strict_antlr_disagreement_count"] = len(strict_dis)
    out["strict_antlr_disagreement"] = [ex(r) for r in strict_dis[:50]]
    out["lexer_compared"] = len(results)
    out["lexer_disagreement_count"] = len(lex_dis)
    out["lexer_disagreement"] = [ex(r, ("lex_real", "lex_mine")) for r in lex_dis[:30]]
    out["lexer_both_error"] = sum(1 for r in results if r["lex_agree"] and _lex_status(r["text"]) is not None)
    out["strict_antlr_both_accept"] = sum(1 for r in results if r["R"] and r["S"])
    out["strict_antlr_both_reject"] = sum(1 for r in results if not r["R"] and r["S"] is False)

    # --- accept mismatches recogniser vs compiler
    mism = [r for r in results if r["R"] != r["C"]]
    classes = {}
    for r in mism:
        classes.setdefault(r["mismatch_class"], []).append(r)
    out["accept_mismatch_count"] = len(mism)
    out["accept_mismatch_classes"] = {k: len(v) for k, v in sorted(classes.items(), key=lambda kv: -len(kv[1]))}
    out["accept_mismatch_on_valid_count"] = sum(1 for r in mism if r["kind"] == "valid")
    out["accept_mismatch"] = []
    for k, v in sorted(classes.items()):
        v = sorted(v, key=lambda r: len(r["text"]))
        for r in v[:args.examples]:
            out["accept_mismatch"].append(dict(ex(r), **{"class": k}))
    agree_reject = {}
    for r in results:
        if "reject_class" in r:
            agree_reject[r["reject_class"]] = agree_reject.get(r["reject_class"], 0) + 1
    out["both_reject_classes"] = agree_reject
    by_kind = {}
    by_exc = {}
    for r in results:
        if r["R"]:
            continue
        if r["C"]:
            by_kind[r["kind"]] = by_kind.get(r["kind"], 0) + 1
        else:
            by_exc[r["C_status"]] = by_exc.get(r["C_status"], 0) + 1
    out["compiler_accepts_invalid_by_corruption_kind"] = by_kind
    out["compiler_rejects_invalid_by_exception"] = by_exc
    out["probes"] = [ex(r, ("reject_class", "mismatch_class")) for r in results if r["kind"] == "probe"]
    out["compiler_accepts_invalid_count"] = sum(1 for r in mism if not r["R"])
    out["compiler_rejects_invalid_count"] = sum(1 for r in results if not r["R"] and not r["C"])

    # --- trees
    tm = [r for r in results if r.get("tree_problems")]
    out["trees_compared"] = sum(1 for r in results if "tree_problems" in r)
    out["tree_mismatch_count"] = len(tm)
    out["tree_mismatch"] = [dict(ex(r), problems=r["tree_problems"][:5]) for r in tm[:50]]

    srng = random.Random(args.seed + 1)
    out["samples"] = [ex(r, ("reject_class", "mismatch_class")) for r in srng.sample(results, min(40, len(results)))]
    out["seconds"] = round(time.time() - t0, 1)

    with open(args.out, "w", encoding="utf8") as fh:
        json.dump(out, fh, indent=1, ensure_ascii=False)

    brief = {k: out[k] for k in (
        "evaluations", "valid_programs", "distinct_nontrivial", "recogniser_accepts", "recogniser_rejects",
        "valid_rejected_count", "internal_disagreement_count", "strict_antlr_compared",
        "strict_antlr_disagreement_count", "lexer_disagreement_count", "lexer_both_error", "strict_antlr_both_accept", "strict_antlr_both_reject",
        "accept_mismatch_count", "accept_mismatch_on_valid_count", "compiler_accepts_invalid_count",
        "compiler_rejects_invalid_count", "trees_compared", "tree_mismatch_count",
        "generator_uncovered_alternatives", "seconds")}
    print(json.dumps(brief, indent=1))
    print(json.dumps(out["accept_mismatch_classes"], indent=1))
    hard_fail = bool(valid_rejected or internal or strict_dis or lex_dis or tm or errors)
    return 1 if hard_fail else 0


if __name__ == "__main__":
    sys.exit(main())
