"""s_c15 - bounded stand-in for "Answers are fully dereferenced and stay valid after backtracking".

  python s_c15.py run <seed> <count>      python s_c15.py replay <file.json>

Cases: three families, seed = <seed>:
 H (count//2) direct API binding histories: variables V0..Vn, a list of unify(a, b) steps (random terms, chains through
   several variables, variables inside structures; bound outermost first or innermost first) each kept open as a
   suspended generator (nested), probe terms.  An independent model (ref_interp._unify / resolve on tuple terms) says
   what every probe denotes after every step.  After every step, for every probe t: get_value(t), t.get_value(),
   to_python(t), to_python(get_value(t)) must denote the model's value; the structure returned by get_value must hold
   NO bound Variable at any depth (walked without dereferencing) and no Variable at all when the value is ground.
   At drawn steps the probe is also stored with assert_fact / assertz and collected with findall.  Then all generators
   are closed (innermost first): every variable is unbound again, every saved get_value result must still denote what
   it denoted when taken, stored facts and findall results likewise.  Steps that would build a cyclic term are left out.
 P (count//4) programs of gen F1 / F3 (alternating): per query  saved = [[get_value(v) for v in qvars] for _ in q];
   after exhaustion the saved values (walked without dereferencing) must equal the answers seen at the time and the
   reference interpreter's answers, to_python(saved) == to_python at the time == conversion of the reference answer.
 G (rest) generated clauses  p(R) :- <Xi = ti in random order, R = T somewhere>  with the endings answer / findall(T,
   k(K), L) / assertz(st(T)) (bindings also AFTER the findall / assertz: they must not reach the copies); answers, saved
   values and the st/1 facts read after the query finished are compared with the reference interpreter.
L (3 cases) a list of 150 / 400 elements and a 300-deep right-nested term whose outer variable is bound first and whose
   elements are bound afterwards: get_value at the answer holds no Variable at any position and denotes the same term after backtracking.
non-trivial = H: at least one step bound a variable and a probe was resolved through it; P: the query has an answer
with a non-variable binding; G: the query has an answer.
"""
import random
import sys

import s_common as S
from s_common import (VarTracker, E, gen, T, Acc, digest, goal_to_source, case_source, prep_query, build_real,
                      build_ref, RefLimit, is_exc, canon, same_answers, show)
from ref_interp import _unify, resolve

RULE = __doc__.split('Cases:', 1)[1].strip()
A, B, C = T.atom('a'), T.atom('b'), T.atom('c')


# ------------------------------------------------------------------ family H
def h_term(rng, pool, depth):
    r = rng.random()
    if depth <= 0 or r < 0.45:
        r2 = rng.random()
        if r2 < 0.6:
            return rng.choice(pool)
        if r2 < 0.85:
            return rng.choice([A, B, C])
        if r2 < 0.95:
            return T.int_(rng.randint(0, 2))
        return T.NIL
    r2 = rng.random()
    if r2 < 0.35:
        return T.fun('f', h_term(rng, pool, depth - 1))
    if r2 < 0.6:
        return T.fun('g', h_term(rng, pool, depth - 1), h_term(rng, pool, depth - 1))
    if r2 < 0.85:
        return T.mklist([h_term(rng, pool, depth - 1) for _ in range(rng.randint(1, 3))])
    return T.mklist([h_term(rng, pool, depth - 1) for _ in range(rng.randint(1, 2))], rng.choice(pool))


def h_scenario(seed, i):
    rng = random.Random('c15/H/%d/%d' % (seed, i))
    n = rng.randint(2, 7)
    pool = [T.var('V%d' % j) for j in range(n)]
    steps = []
    style = rng.choice(('chain_outer_first', 'chain_inner_first', 'random', 'random', 'mixed'))
    if style.startswith('chain') or style == 'mixed':
        # V0 = f(V1), V1 = g(V2, ..), ... last = ground ; in the drawn order
        chain = []
        for j in range(n - 1):
            shape = rng.randint(0, 3)
            nxt = pool[j + 1]
            t = [nxt, T.fun('f', nxt), T.fun('g', nxt, rng.choice(pool[j + 1:])), T.mklist([A, nxt])][shape]
            chain.append((pool[j], t))
        chain.append((pool[n - 1], rng.choice([A, T.fun('f', B), T.mklist([A, B]), T.int_(1)])))
        if style == 'chain_inner_first':
            chain.reverse()
        elif style == 'mixed':
            rng.shuffle(chain)
        steps = [(b, a) if rng.random() < 0.3 else (a, b) for a, b in chain]
    if style in ('random', 'mixed'):
        for _ in range(rng.randint(1, 5)):
            steps.append((h_term(rng, pool, rng.choice([0, 1, 2])), h_term(rng, pool, rng.choice([0, 1, 2, 3]))))
    probes = [pool[0], T.fun('h', *pool[:min(n, 3)]), h_term(rng, pool, 2), T.mklist(pool[:2])]
    store = sorted(rng.sample(range(len(steps)), min(len(steps), rng.randint(0, 2))))
    return dict(driver='s_c15', family='H', seed=seed, index=i, style=style, nvars=n,
                steps=S.jsonable(steps), probes=S.jsonable(probes), store_at=store,
                store_how=rng.choice(['assert_fact', 'assertz', 'findall']))


def run_h(sc):
    """-> (ok, detail, nontrivial)"""
    n = sc['nvars']
    steps = [(S.untuple(a), S.untuple(b)) for a, b in sc['steps']]
    probes = [S.untuple(p) for p in sc['probes']]
    real = S.RealEngine()
    yp = real.yp
    vm = {}
    pool = [T.var('V%d' % j) for j in range(n)]
    evs = [real.to_engine(v, vm) for v in pool]
    names0 = {}
    for v, e in zip(pool, evs):
        names0[id(e)] = v
    eprobes = [real.to_engine(p, vm) for p in probes]
    yp.assert_fact(yp.atom('yes'), [])
    bind = {}
    opened = []
    saved = []          # (what, engine value, expected tuple term)
    stored = []         # expected canon of st/1 facts, in order
    bags = []           # (saved get_value(L), expected canon)
    nontrivial = False
    probs = []

    def names():
        return dict(names0)

    def check_value(what, val, expect, deref_free=True):
        """val: engine term that must denote `expect` WITHOUT any further dereferencing"""
        try:
            got = S.raw_structure(val, names())
        except RecursionError:
            probs.append('%s: value too deep / cyclic' % what)
            return
        if got != expect:
            probs.append('%s: denotes %s (walked without dereferencing), the model says %s'
                         % (what, T.term_to_source(_printable(got)), T.term_to_source(_printable(expect))))
        elif not S.vars_of(expect) and S.contains_variable(val):
            probs.append('%s: ground value contains a Variable object' % what)

    def check_py(what, f, expect):
        try:
            want = S.py_of(expect)
        except TypeError:
            return
        try:
            got = f()
        except Exception as e:
            probs.append('%s raised %r, expected %r' % (what, e, want))
            return
        if got != want:
            probs.append('%s = %r, expected %r' % (what, got, want))

    VarTracker.start()
    try:
        for si, (a, b) in enumerate(steps):
            trial = dict(bind)
            sto = []
            okm = _unify(a, b, trial, [], sto)
            if sto:
                continue            # would build a cyclic term: step left out
            g = iter(E.unify(real.to_engine(a, vm), real.to_engine(b, vm)))
            try:
                next(g)
                oke = True
                opened.append(g)
            except StopIteration:
                oke = False
            if oke != okm:
                probs.append('step %d: unify %s, the model %s' % (si, 'succeeds' if oke else 'fails', 'succeeds' if okm else 'fails'))
                break
            if okm:
                bind = trial
            for pi, (p, ep) in enumerate(zip(probes, eprobes)):
                expect = resolve(p, bind)
                if expect != p:
                    nontrivial = True
                w = 'after step %d, probe %d' % (si, pi)
                walk = S.from_engine(ep, names())
                if walk != expect:
                    probs.append('%s: the binding graph itself denotes %s, the model %s' % (w, walk, expect))
                    continue
                gv = E.get_value(ep)
                check_value(w + ': get_value(t)', gv, expect)
                if isinstance(ep, E.IUnifiable):
                    check_value(w + ': t.get_value()', ep.get_value(), expect)
                check_py(w + ': to_python(t)', lambda: E.to_python(ep), expect)
                if isinstance(ep, E.IUnifiable):
                    check_py(w + ': t.to_python()', lambda: ep.to_python(), expect)
                check_py(w + ': to_python(get_value(t))', lambda: E.to_python(gv), expect)
                saved.append((w + ': saved get_value(t)', gv, expect))
            if si in sc['store_at'] and not probs:
                ep, expect = eprobes[2], resolve(probes[2], bind)
                how = sc['store_how']
                if how == 'assert_fact':
                    yp.assert_fact(yp.atom('st'), [ep])
                    stored.append(canon((expect,)))
                elif how == 'assertz':
                    for _ in yp.query('assertz', [yp.functor('st', [ep])]):
                        pass
                    stored.append(canon((expect,)))
                else:
                    L = yp.variable()
                    k = 0
                    for _ in yp.query('findall', [ep, yp.atom('yes'), L]):
                        k += 1
                        bags.append((E.get_value(L), canon((T.mklist([expect]),)), 'findall at step %d' % si))
                    if k != 1:
                        probs.append('findall at step %d gave %d answers' % (si, k))
                now = _facts(yp, 'st')
                if now != stored:
                    probs.append('st/1 facts right after storing at step %d: %s, expected %s' % (si, show(now), show(stored)))
            if probs:
                break
        # ---- backtrack everything
        for g in reversed(opened):
            g.close()
        left = VarTracker.bound(evs)
        if left:
            probs.append('%d variable(s) still bound after closing every generator' % len(left))
        if not probs:
            for what, gv, expect in saved:
                check_value(what + ', after backtracking', gv, expect)
                check_py(what + ', after backtracking: to_python', lambda: E.to_python(gv), expect)
                if probs:
                    break
            for gv, expect, what in bags:
                got = canon((S.raw_structure(gv),))
                if got != expect:
                    probs.append('%s: saved bag denotes %s after backtracking, expected %s' % (what, show([got]), show([expect])))
            now = _facts(yp, 'st')
            if now != stored:
                probs.append('st/1 facts after backtracking: %s, expected %s' % (show(now), show(stored)))
            # the caller's own probe terms (the same objects that were converted at every step) reflect the CURRENT bindings -
            # none - again, and the bindings of a second, different history made afterwards
            for j, (ep, p) in enumerate(zip(eprobes, probes)):
                if probs:
                    break
                check_py('probe %d after backtracking: to_python(t)' % j, lambda: E.to_python(ep), p)
                check_value('probe %d after backtracking: get_value(t)' % j, E.get_value(ep), p, deref_free=False)
            if not probs and evs:
                other = T.atom('other_value')
                g2 = iter(E.unify(evs[0], real.to_engine(other, {})))
                try:
                    next(g2)
                    b2 = {}
                    _unify(pool[0], other, b2, [])
                    for j, (ep, p) in enumerate(zip(eprobes, probes)):
                        check_py('probe %d under a new binding of V0: to_python(t)' % j, lambda: E.to_python(ep), resolve(p, b2))
                finally:
                    g2.close()
    finally:
        VarTracker.stop()
    if probs:
        return False, '; '.join(probs[:3]), nontrivial
    return True, 'ok', nontrivial


def _printable(t):
    """variables of the model / names -> writable names"""
    return T.map_vars(t, lambda v: ('var', v[1] if isinstance(v[1], str) and v[1][:1].isupper() or str(v[1]).startswith('_') else 'X%s' % v[1]))


def _facts(yp, name):
    v = yp.variable()
    return [canon((S.from_engine(v),)) for _ in yp.query(name, [v])]


# ------------------------------------------------------------------ family P
def run_p_case(case, fam, seed, count, acc, order, only=None):
    if S.uses_db(case):
        acc.skip('uses assert/retract')
        return (True, 'skipped') if only is not None else None
    src = case_source(case)
    ref = build_ref(case)
    real = build_real(case)
    for qi, goal in enumerate(case.queries):
        if only is not None and only != qi:
            continue
        qs = goal_to_source(goal)
        if S.excluded_query(src, qs):
            acc.skip('call of a control construct')
            continue
        try:
            exp = ref.answers(goal, max_answers=40, step_limit=20000)
        except RefLimit:
            acc.skip('reference limit')
            continue
        if ref.sto:
            acc.skip('STO (cyclic term)')
            continue
        ok, detail, nt = check_query(real, goal, exp)
        if only is not None:
            return ok, detail
        acc.evaluation(digest(src, qs) if nt else None)
        acc.observe(qi, ok, detail)
        if not ok:
            acc.fail((order, qi), dict(driver='s_c15', family=fam, seed=seed, count=count, case_id=case.id, qi=qi,
                                       source=src, query=qs), detail, cls='P: ' + _cls(detail))
        elif nt:
            acc.sample((order, qi), dict(family=fam, id=case.id, source=src, query=qs, answers=show(exp)))
    if only is not None:
        return False, 'query not run'


def check_query(real, goal, exp, cap=40):
    """-> (ok, detail, nontrivial)"""
    name, eargs, evars = prep_query(real, goal)
    saved, at_time, py_time = [], [], []
    VarTracker.start()
    err = None
    q = real.yp.query(name, eargs)
    try:
        for _ in q:
            saved.append([E.get_value(v) for v in evars])
            at_time.append(S.snap(evars))
            try:
                py_time.append([E.to_python(v) for v in evars])
            except TypeError as e:
                py_time.append(('TypeError', str(e)))
            if len(saved) >= cap:
                break
    except Exception as e:
        err = S.exc_entry(e)
    finally:
        q.close()
    left = VarTracker.bound(evars)
    VarTracker.stop()
    observed = at_time + ([err] if err else [])
    if not same_answers(exp, observed):
        return False, 'answers at the time %s, reference %s' % (show(observed), show(exp)), bool(exp)
    if left:
        return False, '%d variable(s) still bound after the enumeration' % len(left), True
    nontrivial = False
    for i, (vals, ans) in enumerate(zip(saved, at_time)):
        names = {}
        got = canon(tuple(S.raw_structure(v, names) for v in vals))
        if got != ans:
            return False, ('answer %d: the saved get_value results denote %s after the enumeration, at the time the answer was %s'
                           % (i, S.show_ans(got), S.show_ans(ans))), True
        if any(t[0] != 'var' for t in ans):
            nontrivial = True
        for v, t in zip(vals, ans):
            if not S.vars_of(t) and S.contains_variable(v):
                return False, 'answer %d: ground value %s contains a Variable object' % (i, S.show_ans((t,))), True
        try:
            want = [S.py_of(t) for t in ans]
        except TypeError:
            if not isinstance(py_time[i], tuple):
                return False, 'answer %d: to_python gave %r for a partial list' % (i, py_time[i]), True
            continue
        if py_time[i] != want:
            return False, 'answer %d: to_python at the time %r, expected %r' % (i, py_time[i], want), True
        after = [E.to_python(v) for v in vals]
        if after != want:
            return False, 'answer %d: to_python of the saved values after the enumeration %r, expected %r' % (i, after, want), True
    return True, 'ok', nontrivial


# ------------------------------------------------------------------ family G
def g_scenario(seed, i):
    rng = random.Random('c15/G/%d/%d' % (seed, i))
    m = rng.randint(2, 5)
    xs = [T.var('X%d' % j) for j in range(m)]
    K = T.var('K')
    binds = []
    for j in range(m):
        later = xs[j + 1:]
        r = rng.random()
        if not later or r < 0.25:
            t = rng.choice([A, B, T.int_(1), T.fun('f', C), T.mklist([A, B])])
        elif r < 0.5:
            t = rng.choice(later)
        elif r < 0.75:
            t = T.fun('f', rng.choice(later))
        else:
            t = T.fun('g', rng.choice(later), rng.choice(later + [A]))
        if rng.random() < 0.85:
            binds.append(T.eq(xs[j], t) if rng.random() < 0.7 else T.eq(t, xs[j]))
    ending = rng.choice(['answer', 'findall', 'findall', 'assert', 'assert'])
    parts = [xs[0], rng.choice(xs), rng.choice(xs)]
    if ending == 'findall' and rng.random() < 0.7:
        parts.append(K)
    tt = rng.choice([xs[0], T.fun('h', *parts), T.mklist(parts[:2]), T.fun('f', xs[0])])
    if ending == 'findall' and K in parts and rng.random() < 0.5:
        tt = T.fun('h', *parts)
    rng.shuffle(binds)
    R = T.var('R')
    if ending == 'answer':
        goals = list(binds)
        goals.insert(rng.randint(0, len(goals)), T.eq(R, tt))
    elif ending == 'findall':
        cut = rng.randint(0, len(binds))
        goals = binds[:cut] + [T.call(T.fun('findall', tt, T.fun('k', K), R))] + binds[cut:]
    else:
        cut = rng.randint(0, len(binds))
        goals = binds[:cut] + [T.call(T.fun('assertz', T.fun('st', tt)))] + binds[cut:] + [T.eq(R, tt)]
    program = [(T.fun('k', T.int_(1)), T.TRUE), (T.fun('k', T.fun('f', T.int_(2))), T.TRUE),
               (T.fun('p', R), T.conj(*goals))]
    return dict(driver='s_c15', family='G', seed=seed, index=i, ending=ending, program=S.jsonable(program),
                source=T.to_source(program))


def run_g(sc):
    program = [(S.untuple(h), S.untuple(b)) for h, b in sc['program']]
    ref = S.RefEngine()
    ref.check_sto = True
    ref.consult(program)
    real = S.RealEngine()
    real.consult(program)
    goal = T.call(T.fun('p', T.var('P')))
    exp = ref.answers(goal, max_answers=20, step_limit=20000)
    if ref.sto:
        return None, 'skipped: cyclic term', False
    ok, detail, _nt = check_query(real, goal, exp)
    if not ok:
        return ok, detail, bool(exp)
    if sc['ending'] == 'assert':
        goal2 = T.call(T.fun('st', T.var('S')))
        exp2 = ref.answers(goal2, max_answers=20, step_limit=20000)
        ok, detail, _nt = check_query(real, goal2, exp2)
        if not ok:
            return False, 'st/1 read after the asserting query finished: ' + detail, True
    return True, 'ok', bool(exp)


# ------------------------------------------------------------------ run / replay
def split(count):
    nh = count // 2
    np_ = count // 4
    return nh, np_, count - nh - np_


def p_cases(seed, np_):
    """F1 and F3 cases alternating: (family, per-family count, case)"""
    n1 = (np_ + 1) // 2
    n3 = np_ // 2
    out = [('F1', n1, c) for c in gen.cases('F1', seed, n1)] + [('F3', n3, c) for c in gen.cases('F3', seed, n3)]
    return out


def run_long(sc):
    """family L: a long list / deep term whose outer variable is bound FIRST and whose elements are bound later, one by one
    (size well beyond any small bound): get_value at the answer holds no variable at any position, and still denotes the same
    list after everything was undone"""
    n, shape = sc['n'], sc['shape']
    yp = E.YP()
    xs = [yp.variable() for _ in range(n)]
    R = yp.variable()
    if shape == 'list':
        outer = yp.makelist(xs)
    else:                       # right-nested f(X0, f(X1, ... end))
        outer = yp.atom('end')
        for x in reversed(xs):
            outer = yp.functor('f', [x, outer])
    opened = []
    probs = []
    try:
        for a, b in [(R, outer)] + [(x, yp.atom('e%d' % i)) for i, x in enumerate(xs)]:
            g = iter(E.unify(a, b))
            next(g)
            opened.append(g)
        gv = E.get_value(R)

        def walk(v):
            """iterative walk WITHOUT dereferencing: the atom names in order, or the position of the first Variable"""
            out = []
            stack = [v]
            while stack:
                t = stack.pop()
                if isinstance(t, E.Variable):
                    return None, len(out)
                if isinstance(t, E.Functor):
                    stack.extend(reversed(t._args))
                elif isinstance(t, E.Atom):
                    out.append(t.name())
            return out, None
        names, at = walk(gv)
        want = [nm for i in range(n) for nm in ['e%d' % i]]
        if names is None:
            probs.append('get_value at the answer still holds a Variable after %d atoms (of %d elements)' % (at, n))
        else:
            got = [x for x in names if x.startswith('e') and x != 'end']
            if got != want:
                probs.append('get_value at the answer denotes %d elements %s..., expected %d' % (len(got), got[:3], n))
        for g in reversed(opened):
            g.close()
        opened = []
        if not probs:
            names2, at2 = walk(gv)
            if names2 != names:
                probs.append('after backtracking the saved value changed (first Variable after %s atoms)' % at2)
    finally:
        for g in reversed(opened):
            g.close()
    return not probs, '; '.join(probs) or 'ok', True


def worker(args):
    seed, count, part, parts = args
    acc = Acc()
    nh, np_, ng = split(count)
    order = 0
    if part == 0:
        for sc in (dict(family='L', n=150, shape='list'), dict(family='L', n=400, shape='list'), dict(family='L', n=300, shape='nest')):
            order += 1
            old = sys.getrecursionlimit()
            sys.setrecursionlimit(20000)
            try:
                ok, detail, nt = S.with_timeout(60, run_long, sc)
            except S.Timeout:
                acc.skip('timeout')
                continue
            finally:
                sys.setrecursionlimit(old)
            acc.evaluation(digest(sc['n'], sc['shape']))
            if not ok:
                acc.fail((order, 0), sc, detail, cls='L: ' + _cls(detail))
    for i in range(nh):
        order += 1
        if i % parts != part:
            continue
        sc = h_scenario(seed, i)
        try:
            ok, detail, nt = S.with_timeout(20, run_h, sc)
        except S.Timeout:
            acc.skip('timeout')
            continue
        acc.evaluation(digest(sc['steps'], sc['probes'], sc['store_at'], sc['store_how']) if nt else None)
        if not ok:
            acc.fail((order, 0), sc, detail, cls='H: ' + _cls(detail))
        elif nt and i >= 2:
            acc.sample((order, 0), dict(sc, steps_text=['%s = %s' % (T.term_to_source(S.untuple(a), True), T.term_to_source(S.untuple(b), True))
                                                        for a, b in sc['steps']]))
    for i, (fam, n, case) in enumerate(p_cases(seed, np_)):
        order += 1
        if i % parts != part:
            continue
        try:
            S.with_timeout(20, run_p_case, case, fam, seed, n, acc, order)
        except S.Timeout:
            acc.skip('timeout')
    for i in range(ng):
        order += 1
        if i % parts != part:
            continue
        sc = g_scenario(seed, i)
        try:
            ok, detail, nt = S.with_timeout(20, run_g, sc)
        except S.Timeout:
            acc.skip('timeout')
            continue
        if ok is None:
            acc.skip(detail)
            continue
        acc.evaluation(digest(sc['source']) if nt else None)
        if not ok:
            acc.fail((order, 0), sc, detail, cls='G: ' + _cls(detail))
        elif nt and i >= 1:
            acc.sample((order, 0), {k: v for k, v in sc.items() if k != 'program'})
    return acc.pack()


def _cls(detail):
    import re
    d = re.sub(r'\d+', '#', detail)
    d = re.sub(r"(denotes|at the time|right after storing at step #:|after backtracking:|results denote) .*", r'\1 ...', d)
    return d[:90]


def run(seed, count):
    return S.merge(S.fan_out(worker, seed, count), RULE)


def replay(sc):
    if sc['family'] == 'L':
        sys.setrecursionlimit(20000)
        ok, detail, _ = run_long(sc)
        return ok, detail
    if sc['family'] == 'H':
        ok, detail, _ = run_h(sc)
        return ok, detail
    if sc['family'] == 'G':
        ok, detail, _ = run_g(sc)
        return ok is not False, detail
    case = S.find_case(sc['family'], sc['seed'], sc['count'], sc['case_id'])
    if case is None:
        return False, 'case not found'
    acc = Acc()         # the queries of a case share one engine: run the whole case, pick the query's outcome
    acc.watch_key = sc['qi']
    run_p_case(case, sc['family'], sc['seed'], sc['count'], acc, 0)
    if acc.watch_result is not None:
        return acc.watch_result
    return run_p_case(case, sc['family'], sc['seed'], sc['count'], Acc(), 0, only=sc['qi'])


if __name__ == '__main__':
    S.cli(run, replay)
