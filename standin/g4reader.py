#!/usr/bin/env python3
"""g4reader -- an independent recogniser and reader for the language of
/repo/src/yldprolog/prolog.g4  (start symbol ``program`` followed by end of input).

Pure standard library.  Does NOT import antlr4 or yldprolog: it is the oracle
against which the real compiler is tested.

Public API
----------
tokenize(text)            -> [Token(kind, text, pos, line, col)]   (PlSyntaxError on lexical error)
recognise(text)           -> bool      Earley recogniser over the LITERAL grammar (left recursion kept)
recognise_full_earley(text)-> bool     same, without the per-clause segmentation/caching
recognise_descent(text)   -> bool      second, independent implementation (memoised end-set descent)
parse_program(text)       -> [clause | ("directive", goal)]   (PlSyntaxError if not in the language)
clause_keys(text)         -> ordered distinct [(name, arity)] of callable clause heads
noncallable_goals(text)   -> bool      some head/goal/directive is in the CF language but not callable
hazards(text)             -> set of str, finer classification (see HAZARDS)
numeral_spellings(text)   -> [str]     raw spelling of every NUMERAL token, source order
unquote(string_token_text)-> str       "strip the outer quotes and delete every backslash"

Tree format (plain tuples)
--------------------------
terms : ("atom",name) ("int",n) ("var",name) ("fun",name,(args...))
        []      -> ("atom","[]")          [a,b] / [H|T] / [a,b|T] -> ("fun",".",(head,tail)) cells
        X = Y   -> ("fun","=",(X,Y))      =(X,Y) -> the same      - t -> ("fun","-",(t,))
        foo/2   -> ("fun","/",(("atom","foo"),("int",2)))   (grammar alternative ATOM '/' NUMERAL)
        3(x)    -> ("fun","3",(x,))       (the grammar allows NUMERAL and STRING as functor names)
        parentheses are transparent.
goals : ("true",) ("fail",) ("cut",) ("call",term) (",",a,b) (";",a,b) ("->",c,t) ("\\+",g)
clause: (head, body)   head is a term, or the 1-tuple ("true",)/("fail",)/("cut",) when the head
        is the TRUE/FAIL/CUT token (grammar: clause : simplepredicate ...); facts have body ("true",)
        directive: ("directive", goal)

Positions: pos = 0-based character offset, line 1-based, col 0-based (as ANTLR).
"""

import sys
from collections import namedtuple
from functools import lru_cache

__all__ = [
    "Token", "PlSyntaxError", "tokenize", "recognise", "recognise_full_earley",
    "recognise_descent", "parse_program", "clause_keys", "noncallable_goals",
    "hazards", "numeral_spellings", "unquote", "LITERALS", "TOKEN_RULE_ORDER",
]

Token = namedtuple("Token", "kind text pos line col")


class PlSyntaxError(Exception):
    def __init__(self, pos, line, col, msg):
        Exception.__init__(self, "%d:%d: %s" % (line, col, msg))
        self.pos = pos
        self.line = line
        self.col = col
        self.msg = msg


# ======================================================================================
# 1. LEXER
# ======================================================================================
#
# ANTLR lexer semantics: at every position try ALL token rules, take the longest match;
# on equal length the rule defined first wins.  Implicit literal tokens of the parser rules
# (T__0..T__9) are defined before all named lexer rules.  Order, from prolog.tokens:
#
#   '.'=1 ':-'=2 '\\+'=3 ','=4 '->'=5 ';'=6 '('=7 ')'=8 '/'=9 '|'=10
#   TRUE=11 FAIL=12 CUT=13 VARIABLE=14 ATOM=15 NUMERAL=16 UNOP=17 BINOP=18 STRING=19
#   LBRACK=20 RBRACK=21 WS=22 COMMENT=23
#
# The lexer below is written as exactly that: a list of (kind, matcher) in this order, where
# matcher(text, i) returns the end offset of the LONGEST match of that single rule at i (or -1);
# the driver picks max length, first rule on ties.  Consequences worth spelling out:
#   * "true"/"fail" -> TRUE/FAIL (tie with ATOM, TRUE is first); "truex", "true_1" -> ATOM.
#   * LCLETTER is [a-z_] so ATOM could start with '_', but VARIABLE matches the same text and
#     is defined first: "_", "_x" are always VARIABLE.
#   * "->" beats UNOP "-";  "\\==" beats "\\=";  "==" / "=<" beat "=";  ">=" beats ">";
#     "<=" is "<" then "=";  "=>" is "=" then ">";  a lone ':' or '\\' is a lexical error.
#   * CHARACTER / DIGIT are ASCII only.
#   * WS is one of space, tab, CR, LF.  Form feed, vertical tab, NBSP ... are lexical errors.
#   * COMMENT : '%' .*? [\r\n]   non-greedy: ends at the FIRST CR or LF, and REQUIRES one.  A '%'
#     comment that runs to end of input has no match -> lexical error.
#   * STRING : '\'' ( ~'\'' | '\\' '\'' )* '\''   is a GREEDY loop, the lexer keeps going while
#     any path through the rule is alive and remembers the last accepting position.  A prefix
#     text[s..j] matches iff text[j] is a quote and every quote strictly inside is immediately
#     preceded by a backslash (a backslash may be consumed either as ~'\'' on its own or as the
#     first half of '\\' '\'').  After a quote at j the only live path is the one that read it as
#     the second half of '\\' '\'', which exists iff text[j-1] is a backslash inside the string.
#     Therefore: scan; every quote is a candidate end; continue past it only if it is preceded by
#     a backslash; the token is the LAST candidate seen before the scan dies or input ends.
#        'a\'b'          -> one STRING (7 chars)
#        'a\'            -> STRING 'a\'  (the scan continues past the quote, hits end of input,
#                           falls back to the last accepting position)
#        'a\\'           -> STRING 'a\\'  likewise
#        'a\\' foo 'b'   -> STRING  'a\\' foo '   then ATOM b, then an unterminated quote -> error
#     (there is no way to write a quoted atom ending in a backslash that is followed, anywhere
#     later in the file, by another quote, without that later quote being swallowed.)

_LC = frozenset("abcdefghijklmnopqrstuvwxyz_")          # fragment LCLETTER : [a-z_]
_UC = frozenset("ABCDEFGHIJKLMNOPQRSTUVWXYZ")           # fragment UCLETTER : [A-Z]
_DIGIT = frozenset("0123456789")                        # fragment DIGIT    : [0-9]
_CHARACTER = _LC | _UC | _DIGIT | frozenset("_")        # fragment CHARACTER
_BINOPS = ("=", "\\=", "==", "\\==", "<", ">", "=<", ">=")
_WS = frozenset(" \t\r\n")

LITERALS = (".", ":-", "\\+", ",", "->", ";", "(", ")", "/", "|")


def _m_literal(lit):
    n = len(lit)

    def m(text, i):
        return i + n if text.startswith(lit, i) else -1
    return m


def _run(text, i, charset):
    n = len(text)
    while i < n and text[i] in charset:
        i += 1
    return i


def _m_variable(text, i):
    c = text[i]
    if c in _UC or c == "_":
        return _run(text, i + 1, _CHARACTER)
    return -1


def _m_atom(text, i):
    if text[i] in _LC:
        return _run(text, i + 1, _CHARACTER)
    return -1


def _m_numeral(text, i):
    j = _run(text, i, _DIGIT)
    return j if j > i else -1


def _m_unop(text, i):
    return i + 1 if text[i] in "-+" else -1


def _m_binop(text, i):
    best = -1
    for op in _BINOPS:
        if text.startswith(op, i) and i + len(op) > best:
            best = i + len(op)
    return best


def _m_string(text, i):
    if text[i] != "'":
        return -1
    n = len(text)
    last_accept = -1
    j = i + 1
    while j < n:
        if text[j] == "'":
            last_accept = j + 1
            # may the loop continue?  only by having read  '\\' '\''  i.e. previous char is a
            # backslash that lies inside the string body (j-1 > i).
            if j - 1 > i and text[j - 1] == "\\":
                j += 1
                continue
            break
        j += 1
    return last_accept


def _m_ws(text, i):
    return i + 1 if text[i] in _WS else -1


def _m_comment(text, i):
    if text[i] != "%":
        return -1
    n = len(text)
    j = i + 1
    while j < n:
        if text[j] in "\r\n":
            return j + 1
        j += 1
    return -1


TOKEN_RULE_ORDER = (
    [(lit, _m_literal(lit)) for lit in LITERALS] + [
        ("TRUE", _m_literal("true")),
        ("FAIL", _m_literal("fail")),
        ("CUT", _m_literal("!")),
        ("VARIABLE", _m_variable),
        ("ATOM", _m_atom),
        ("NUMERAL", _m_numeral),
        ("UNOP", _m_unop),
        ("BINOP", _m_binop),
        ("STRING", _m_string),
        ("LBRACK", _m_literal("[")),
        ("RBRACK", _m_literal("]")),
        ("WS", _m_ws),
        ("COMMENT", _m_comment),
    ])

_SKIPPED = frozenset(("WS", "COMMENT"))


def tokenize(text):
    """Token list per the grammar's lexer (WS and COMMENT skipped, no EOF token).
    Raises PlSyntaxError at the first position where no token rule matches."""
    out = []
    i = 0
    n = len(text)
    line = 1
    linestart = 0
    while i < n:
        best_end = -1
        best_kind = None
        for kind, m in TOKEN_RULE_ORDER:
            e = m(text, i)
            if e > best_end:              # strictly longer only: first rule wins ties
                best_end = e
                best_kind = kind
        if best_end <= i:
            c = text[i]
            if c == "'":
                msg = "unterminated quoted atom"
            elif c == "%":
                msg = "comment not terminated by a newline before end of input"
            else:
                msg = "no token can start with %r" % c
            raise PlSyntaxError(i, line, i - linestart, msg)
        if best_kind not in _SKIPPED:
            out.append(Token(best_kind, text[i:best_end], i, line, i - linestart))
        # ANTLR counts '\n' only
        k = text.find("\n", i, best_end)
        while k != -1:
            line += 1
            linestart = k + 1
            k = text.find("\n", k + 1, best_end)
        i = best_end
    return out


def numeral_spellings(text):
    """Raw spelling of every NUMERAL token in source order (e.g. '007')."""
    return [t.text for t in tokenize(text) if t.kind == "NUMERAL"]


def unquote(s):
    """Documented unquoting rule: strip the outer quotes and delete every backslash."""
    return s[1:-1].replace("\\", "")


# ======================================================================================
# 2. THE GRAMMAR, LITERALLY  (for the Earley recogniser)
# ======================================================================================
#
# A direct transcription of the parser rules of prolog.g4 into BNF; terminals are token kinds.
# The only rewriting is the mechanical expansion of EBNF operators:
#     x*            ->  x_star : <empty> | x x_star
#     ( ',' x )*    ->  rest   : <empty> | ',' x rest
#     ( ... )?      ->  opt    : <empty> | ...
# Left recursion and ambiguity are KEPT; <assoc=right> and alternative order do not change the
# language and are ignored here.

BNF = {
    "program": [["cod_star"]],
    "cod_star": [[], ["clauseordirective", "cod_star"]],
    "clauseordirective": [["clause"], ["directive"]],
    "clause": [["simplepredicate", "."],
               ["simplepredicate", ":-", "predicateexpression", "."]],
    "directive": [[":-", "simplepredicate", "."]],
    "predicatelist": [["predicateexpression"]],                      # unreachable from program
    "predicateexpression": [["simplepredicate"],
                            ["\\+", "predicateexpression"],
                            ["predicateexpression", ",", "predicateexpression"],
                            ["predicateexpression", "->", "predicateexpression"],
                            ["predicateexpression", ";", "predicateexpression"],
                            ["(", "predicateexpression", ")"]],
    "simplepredicate": [["TRUE"], ["FAIL"], ["CUT"], ["termpredicate"]],
    "termpredicate": [["term"]],
    "termlist": [[], ["term", "termlist_rest"]],
    "termlist_rest": [[], [",", "term", "termlist_rest"]],
    "term": [["atom"],
             ["functor"],
             ["ATOM", "/", "NUMERAL"],
             ["VARIABLE"],
             ["UNOP", "term"],
             ["term", "BINOP", "term"],
             ["BINOP", "(", "term", ",", "term", ")"],
             ["(", "term", ")"],
             ["LBRACK", "termlist", "RBRACK"],
             ["LBRACK", "term", "opt_comma_termlist", "|", "VARIABLE", "RBRACK"]],
    "opt_comma_termlist": [[], [",", "termlist"]],
    "atom": [["ATOM"], ["NUMERAL"], ["STRING"]],
    "functor": [["atom", "(", "termlist", ")"]],
}

_RULES = []          # [(lhs, rhs tuple)]
_BY_LHS = {}
for _lhs, _alts in BNF.items():
    for _rhs in _alts:
        _BY_LHS.setdefault(_lhs, []).append(len(_RULES))
        _RULES.append((_lhs, tuple(_rhs)))


def _compute_nullable():
    nullable = set()
    changed = True
    while changed:
        changed = False
        for lhs, rhs in _RULES:
            if lhs not in nullable and all(s in nullable for s in rhs):
                nullable.add(lhs)
                changed = True
    return frozenset(nullable)


_NULLABLE = _compute_nullable()


def _earley(kinds, start):
    """Textbook Earley recogniser (with the Aycock/Horspool fix for nullable symbols).
    kinds: sequence of token kinds.  True iff kinds is in L(start)."""
    n = len(kinds)
    items = [[] for _ in range(n + 1)]
    seen = [set() for _ in range(n + 1)]
    waiting = [dict() for _ in range(n + 1)]      # waiting[k][A] = items in set k with dot before A

    def add(k, item):
        if item in seen[k]:
            return
        seen[k].add(item)
        items[k].append(item)
        r, d, _o = item
        rhs = _RULES[r][1]
        if d < len(rhs) and rhs[d] in _BY_LHS:
            waiting[k].setdefault(rhs[d], []).append(item)

    for r in _BY_LHS[start]:
        add(0, (r, 0, 0))
    for k in range(n + 1):
        cur = items[k]
        i = 0
        while i < len(cur):
            r, d, o = cur[i]
            i += 1
            lhs, rhs = _RULES[r]
            if d < len(rhs):
                sym = rhs[d]
                if sym in _BY_LHS:                               # predict
                    for r2 in _BY_LHS[sym]:
                        add(k, (r2, 0, k))
                    if sym in _NULLABLE:
                        add(k, (r, d + 1, o))
                elif k < n and kinds[k] == sym:                  # scan
                    add(k + 1, (r, d + 1, o))
            else:                                                # complete
                w = waiting[o].get(lhs)
                if w:
                    j = 0
                    while j < len(w):                            # w may grow when o == k
                        r2, d2, o2 = w[j]
                        j += 1
                        add(k, (r2, d2 + 1, o2))
        if k < n and not items[k + 1]:
            return False
    for r, d, o in items[n]:
        if o == 0 and _RULES[r][0] == start and d == len(_RULES[r][1]):
            return True
    return False


@lru_cache(maxsize=200000)
def _earley_segment(kinds):
    return _earley(kinds, "clauseordirective")


def _lex_kinds(text):
    try:
        return [t.kind for t in tokenize(text)]
    except PlSyntaxError:
        return None


def recognise_full_earley(text):
    """text in L(program EOF)?  Earley over the whole token sequence, start symbol program."""
    kinds = _lex_kinds(text)
    if kinds is None:
        return False
    return _earley(kinds, "program")


def recognise(text):
    """text in L(program EOF)?

    Same Earley recogniser, run per clause.  Justification (language preserving): the token '.'
    occurs in the grammar only as the LAST symbol of `clause` and of `directive`, and
    program = clauseordirective*.  Hence a token sequence is in L(program) iff it is a
    concatenation of segments, each ending at a '.' token with no other '.' inside, each in
    L(clauseordirective), with nothing after the last '.'.  (The segments are cached by token
    kinds, which makes testing thousands of single-edit corruptions cheap.)
    recognise_full_earley() is the unsegmented version used to cross-check this argument."""
    kinds = _lex_kinds(text)
    if kinds is None:
        return False
    seg = []
    for k in kinds:
        seg.append(k)
        if k == ".":
            if not _earley_segment(tuple(seg)):
                return False
            seg = []
    return not seg


# ======================================================================================
# 3. READER: memoised end-set descent, builds the trees
# ======================================================================================
#
# Second, independent implementation.  For every nonterminal N and start index i it computes
# the COMPLETE map  {end index -> tree}  of all ways N can match tokens[i:end] (memoised), so
# unlike ordered-choice recursive descent it never commits to an alternative and cannot wrongly
# reject.  That requires a grammar without left recursion.  Language-preserving transformation
# of the two left-recursive rules (E stands for the rule, P for its non-recursive alternatives,
# pre for its prefix operator, op for its binary operators):
#
#        E : P | pre E | E op E          L(E) is the least set with  P <= L, pre L <= L, L op L <= L
#   ==>  E : U ( op U )*                 U : pre* P
#
#   Proof.  (>=) U <= L(E) by the prefix alternative, then sequences by the binary alternative.
#           (<=) P <= U;  pre (U (op U)*) = (pre U) (op U)* and pre U is again a U;
#                (U (op U)*) op (U (op U)*) is again of the form U (op U)*.                   qed
#
#   predicateexpression : peunit ( (','|'->'|';') peunit )*
#   peunit              : '\\+'* peprimary
#   peprimary           : simplepredicate | '(' predicateexpression ')'
#   term                : tunit ( BINOP tunit )*
#   tunit               : UNOP* tprimary
#   tprimary            : every non-recursive alternative of term
#
# The transformation flattens operator sequences; the TREE is then built from the flat sequence
# by the declarative reading of ANTLR's rules for a left-recursive rule: alternatives listed
# earlier bind tighter; so in predicateexpression '\\+' (alt 2) > ',' (alt 3) > '->' (alt 4) > ';'
# (alt 5), all three binary operators <assoc=right>: the root of a flat sequence is the LEFTMOST
# occurrence of its loosest operator.  In term, UNOP (alt 5) binds tighter than BINOP (alt 6),
# BINOP has default (left) associativity: a = b = c is ((a = b) = c), - a = b is ((- a) = b).
#
# Remaining true ambiguity of the grammar: "( t )" with t a term is both
#     predicateexpression -> '(' predicateexpression ')'      and
#     predicateexpression -> simplepredicate -> termpredicate -> term -> '(' term ')'.
# ANTLR resolves to the lowest alternative (simplepredicate); parentheses are transparent in both
# readings so the trees below are identical either way.
#
# Internal term nodes (converted by _export): ("list", items, tail|None), ("slash", atom, int_text),
# ("int", n, raw), ("fun", name, args, namekind) with namekind in ATOM/NUMERAL/STRING/OP,
# ("atom", name, kind).

_PE_BINOPS = (",", "->", ";")
_EOF = "<EOF>"


class _Reader:
    def __init__(self, toks):
        self.toks = toks
        self.kinds = [t.kind for t in toks] + [_EOF]
        self.memo = {}
        self.furthest = 0

    def _k(self, i):
        if i > self.furthest:
            self.furthest = i
        return self.kinds[i] if i < len(self.kinds) else _EOF

    def _memo(self, name, i, fn):
        key = (name, i)
        r = self.memo.get(key)
        if r is None:
            r = fn(i)
            self.memo[key] = r
        return r

    # ---- terms -------------------------------------------------------------------------
    def atom(self, i):
        """atom : ATOM | NUMERAL | STRING   -> (node, namekind) or None"""
        k = self._k(i)
        t = self.toks[i] if i < len(self.toks) else None
        if k == "ATOM":
            return ("atom", t.text, "ATOM")
        if k == "NUMERAL":
            return ("int", int(t.text), t.text)
        if k == "STRING":
            return ("atom", unquote(t.text), "STRING")
        return None

    def termlist(self, i):
        return self._memo("termlist", i, self._termlist)

    def _termlist(self, i):
        """termlist : <empty> | term (',' term)*    -> {end: tuple(terms)}"""
        res = {i: ()}
        frontier = [(e, (t,)) for e, t in self.term(i).items()]
        while frontier:
            nxt = []
            for e, ts in frontier:
                if e in res:
                    continue
                res[e] = ts
                if self._k(e) == ",":
                    for e2, t2 in self.term(e + 1).items():
                        nxt.append((e2, ts + (t2,)))
            frontier = nxt
        return res

    def tprimary(self, i):
        return self._memo("tprimary", i, self._tprimary)

    def _tprimary(self, i):
        res = {}
        k = self._k(i)
        a = self.atom(i)
        if a is not None:
            res[i + 1] = a                                           # term : atom
            if self._k(i + 1) == "(":                                # term : functor
                for e, args in self.termlist(i + 2).items():
                    if self._k(e) == ")":
                        name = a[2] if a[0] == "int" else a[1]
                        nk = "NUMERAL" if a[0] == "int" else a[2]
                        res.setdefault(e + 1, ("fun", name, args, nk))
            if k == "ATOM" and self._k(i + 1) == "/" and self._k(i + 2) == "NUMERAL":
                res.setdefault(i + 3, ("slash", self.toks[i].text, self.toks[i + 2].text))
        elif k == "VARIABLE":
            res[i + 1] = ("var", self.toks[i].text)
        elif k == "BINOP":                                           # BINOP '(' term ',' term ')'
            if self._k(i + 1) == "(":
                for e1, t1 in self.term(i + 2).items():
                    if self._k(e1) == ",":
                        for e2, t2 in self.term(e1 + 1).items():
                            if self._k(e2) == ")":
                                res.setdefault(e2 + 1, ("fun", self.toks[i].text, (t1, t2), "OP"))
        elif k == "(":                                               # '(' term ')'
            for e, t in self.term(i + 1).items():
                if self._k(e) == ")":
                    res.setdefault(e + 1, t)
        elif k == "LBRACK":
            # LBRACK termlist RBRACK
            for e, ts in self.termlist(i + 1).items():
                if self._k(e) == "RBRACK":
                    res.setdefault(e + 1, ("list", ts, None))
            # LBRACK term ( ',' termlist )? '|' VARIABLE RBRACK
            for e1, t1 in self.term(i + 1).items():
                cands = [(e1, (t1,))]
                if self._k(e1) == ",":
                    for e2, ts in self.termlist(e1 + 1).items():
                        cands.append((e2, (t1,) + ts))
                for e, ts in cands:
                    if (self._k(e) == "|" and self._k(e + 1) == "VARIABLE"
                            and self._k(e + 2) == "RBRACK"):
                        res.setdefault(e + 3, ("list", ts, ("var", self.toks[e + 1].text)))
        return res

    def tunit(self, i):
        return self._memo("tunit", i, self._tunit)

    def _tunit(self, i):
        """tunit : UNOP* tprimary"""
        j = i
        while self._k(j) == "UNOP":
            j += 1
        res = {}
        for e, t in self.tprimary(j).items():
            for q in range(j - 1, i - 1, -1):
                t = ("fun", self.toks[q].text, (t,), "OP")
            res[e] = t
        return res

    def term(self, i):
        return self._memo("term", i, self._term)

    def _term(self, i):
        """term : tunit ( BINOP tunit )*      left associative fold"""
        res = {}
        frontier = list(self.tunit(i).items())
        while frontier:
            nxt = []
            for e, t in frontier:
                if e in res:
                    continue
                res[e] = t
                if self._k(e) == "BINOP":
                    op = self.toks[e].text
                    for e2, t2 in self.tunit(e + 1).items():
                        nxt.append((e2, ("fun", op, (t, t2), "OP")))
            frontier = nxt
        return res

    # ---- goals -------------------------------------------------------------------------
    def simplepredicate(self, i):
        return self._memo("simplepredicate", i, self._simplepredicate)

    def _simplepredicate(self, i):
        k = self._k(i)
        if k == "TRUE":
            return {i + 1: ("true",)}
        if k == "FAIL":
            return {i + 1: ("fail",)}
        if k == "CUT":
            return {i + 1: ("cut",)}
        return {e: ("call", t) for e, t in self.term(i).items()}

    def peprimary(self, i):
        return self._memo("peprimary", i, self._peprimary)

    def _peprimary(self, i):
        res = dict(self.simplepredicate(i))
        if self._k(i) == "(":
            for e, g in self.pe(i + 1).items():
                if self._k(e) == ")":
                    res.setdefault(e + 1, g)
        return res

    def peunit(self, i):
        return self._memo("peunit", i, self._peunit)

    def _peunit(self, i):
        j = i
        while self._k(j) == "\\+":
            j += 1
        res = {}
        for e, g in self.peprimary(j).items():
            for _ in range(j - i):
                g = ("\\+", g)
            res[e] = g
        return res

    def pe(self, i):
        return self._memo("pe", i, self._pe)

    def _pe(self, i):
        """predicateexpression : peunit ( op peunit )*     -> {end: goal tree}"""
        flat = {}
        frontier = [(e, (g,)) for e, g in self.peunit(i).items()]
        while frontier:
            nxt = []
            for e, seq in frontier:
                if e in flat:
                    continue
                flat[e] = seq
                k = self._k(e)
                if k in _PE_BINOPS:
                    for e2, g2 in self.peunit(e + 1).items():
                        nxt.append((e2, seq + (k, g2)))
            frontier = nxt
        return {e: _build_goal(seq) for e, seq in flat.items()}

    # ---- clauses -----------------------------------------------------------------------
    def clauseordirective(self, i):
        res = {}
        for e, h in self.simplepredicate(i).items():
            k = self._k(e)
            if k == ".":
                res.setdefault(e + 1, ("clause", h, ("true",)))
            elif k == ":-":
                for e2, b in self.pe(e + 1).items():
                    if self._k(e2) == ".":
                        res.setdefault(e2 + 1, ("clause", h, b))
        if self._k(i) == ":-":
            for e, g in self.simplepredicate(i + 1).items():
                if self._k(e) == ".":
                    res.setdefault(e + 1, ("directive", g))
        return res

    def program(self):
        """program : clauseordirective*   followed by EOF.  Returns list or None."""
        n = len(self.toks)
        reach = {0: ()}
        work = [0]
        while work:
            i = work.pop()
            if i == n:
                continue
            for e, c in self.clauseordirective(i).items():
                if e not in reach:
                    reach[e] = reach[i] + (c,)
                    work.append(e)
        r = reach.get(n)
        return None if r is None else list(r)


def _build_goal(seq):
    """seq = (g0, op1, g1, op2, g2, ...).  Root = leftmost occurrence of the loosest operator
    (';' loosest, then '->', then ','), recursively: all three are right associative."""
    if len(seq) == 1:
        return seq[0]
    for op in (";", "->", ","):
        for j in range(1, len(seq), 2):
            if seq[j] == op:
                return (op, _build_goal(seq[:j]), _build_goal(seq[j + 1:]))
    raise AssertionError("operator sequence without operator")


# ---- export to the documented tuple format ---------------------------------------------

def _export_term(t):
    tag = t[0]
    if tag == "atom":
        return ("atom", t[1])
    if tag == "int":
        return ("int", t[1])
    if tag == "var":
        return t
    if tag == "fun":
        return ("fun", t[1], tuple(_export_term(a) for a in t[2]))
    if tag == "slash":
        return ("fun", "/", (("atom", t[1]), ("int", int(t[2]))))
    if tag == "list":
        tail = ("atom", "[]") if t[2] is None else t[2]
        for item in reversed(t[1]):
            tail = ("fun", ".", (_export_term(item), tail))
        return tail
    raise AssertionError(t)


def _export_goal(g):
    tag = g[0]
    if tag == "call":
        return ("call", _export_term(g[1]))
    if tag in ("true", "fail", "cut"):
        return g
    if tag == "\\+":
        return ("\\+", _export_goal(g[1]))
    return (tag, _export_goal(g[1]), _export_goal(g[2]))


def _read(text):
    toks = tokenize(text)
    old = sys.getrecursionlimit()
    if old < 20000:
        sys.setrecursionlimit(20000)
    rd = _Reader(toks)
    prog = rd.program()
    if prog is None:
        i = rd.furthest
        if i < len(toks):
            t = toks[i]
            raise PlSyntaxError(t.pos, t.line, t.col, "syntax error near %r" % t.text)
        last = toks[-1] if toks else Token("", "", 0, 1, 0)
        raise PlSyntaxError(len(text), last.line, last.col + len(last.text),
                            "syntax error: unexpected end of input")
    return prog


def recognise_descent(text):
    try:
        _read(text)
        return True
    except PlSyntaxError:
        return False


def parse_program(text):
    """Clauses and directives in source order, in the documented tuple format."""
    out = []
    for c in _read(text):
        if c[0] == "directive":
            out.append(("directive", _export_goal(c[1])))
        else:
            h = c[1]
            head = _export_term(h[1]) if h[0] == "call" else h
            out.append((head, _export_goal(c[2])))
    return out


# ---- what the real compiler is documented/known to refuse although it is in the language ---
#
# HAZARDS (strings returned by hazards()):
#   noncallable_goal    a head, body goal or directive is a term that is not an atom or compound:
#                       a variable, a number, a list ([] included), ATOM '/' NUMERAL
#                       (the visitor raises CompilerError "... is not a functor")
#   special_head        the clause head is the TRUE / FAIL / CUT token (true. / ! :- a.)
#   numeral_functor     a compound whose name is a NUMERAL token, 3(x)
#   slash_term          the alternative ATOM '/' NUMERAL occurs anywhere (no tree in the visitor)
#   quoted_head         a clause head whose name came from a STRING token or is an operator
#                       (the `def name_arity(` line of the output is then not an identifier)

def _term_callable(t):
    return t[0] == "atom" or t[0] == "fun"


def _walk_terms(t, hz):
    tag = t[0]
    if tag == "slash":
        hz.add("slash_term")
    elif tag == "fun":
        if t[3] == "NUMERAL":
            hz.add("numeral_functor")
        for a in t[2]:
            _walk_terms(a, hz)
    elif tag == "list":
        for a in t[1]:
            _walk_terms(a, hz)


def _walk_goal(g, hz):
    tag = g[0]
    if tag == "call":
        if not _term_callable(g[1]):
            hz.add("noncallable_goal")
        _walk_terms(g[1], hz)
    elif tag == "\\+":
        _walk_goal(g[1], hz)
    elif tag in (",", ";", "->"):
        _walk_goal(g[1], hz)
        _walk_goal(g[2], hz)


def hazards(text):
    hz = set()
    for c in _read(text):
        if c[0] == "directive":
            _walk_goal(c[1], hz)
            continue
        h = c[1]
        if h[0] != "call":
            hz.add("special_head")
        else:
            _walk_goal(h, hz)
            t = h[1]
            if (t[0] == "atom" and t[2] == "STRING") or (t[0] == "fun" and t[3] in ("STRING", "OP")):
                hz.add("quoted_head")
        _walk_goal(c[2], hz)
    return hz


def noncallable_goals(text):
    """True iff the text is in the language but some clause head, body goal or directive is not
    callable (variable, number, list, ATOM/NUMERAL, or a TRUE/FAIL/CUT token as clause head)."""
    hz = hazards(text)
    return "noncallable_goal" in hz or "special_head" in hz


def clause_keys(text):
    """Ordered list of distinct (name, arity) of the callable clause heads (`foo` is ("foo",0))."""
    keys = []
    for c in _read(text):
        if c[0] != "clause" or c[1][0] != "call":
            continue
        t = c[1][1]
        if t[0] == "atom":
            k = (t[1], 0)
        elif t[0] == "fun":
            k = (t[1], len(t[2]))
        else:
            continue
        if k not in keys:
            keys.append(k)
    return keys


if __name__ == "__main__":
    import pprint
    src = sys.stdin.read() if len(sys.argv) < 2 else open(sys.argv[1], encoding="utf8").read()
    try:
        pprint.pprint(parse_program(src))
    except PlSyntaxError as exc:
        print("syntax error:", exc)
        sys.exit(1)
