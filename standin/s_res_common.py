"""Shared plumbing of the bounded stand-in drivers s_c08.py / s_c16.py / s_c20.py.

Source tree under test: environment variable YLD_REPO_SRC (default /repo/src) is
put in front of sys.path BEFORE yldprolog is imported (real_engine.py does the
same when the variable is set).

A driver module provides
    RULE                      text
    make_scenario(seed, i)    -> JSON-able dict (deterministic), or None
    run_scenario(sc)          -> {"evaluations": int, "failures": [detail str, ...],
                                  "nontrivial": [key str, ...], "sample": dict|None}
and calls main(sys.modules[__name__]).

CLI
    run <seed> <count> [--jobs N]   one JSON object on stdout, exit 0
    replay <file.json>              {"ok": bool, "detail": ...}; exit 0 iff ok
"""

import hashlib
import json
import os
import signal
import sys
import time

SRC = os.environ.get("YLD_REPO_SRC", "/repo/src")
os.environ["YLD_REPO_SRC"] = SRC
sys.path.insert(0, SRC)
HERE = os.path.dirname(os.path.abspath(__file__))
if HERE not in sys.path:
    sys.path.insert(1, HERE)

REAL_TIMEOUT = 4.0


class Timeout(Exception):
    pass


def _on_alarm(signum, frame):
    raise Timeout("exceeded %.1fs" % REAL_TIMEOUT)


def install_alarm():
    signal.signal(signal.SIGVTALRM, _on_alarm)


def timed(f, *args, **kw):
    """run f under a CPU-time limit (raises Timeout)"""
    signal.setitimer(signal.ITIMER_VIRTUAL, REAL_TIMEOUT)
    try:
        return f(*args, **kw)
    finally:
        signal.setitimer(signal.ITIMER_VIRTUAL, 0)


def tup(x):
    """JSON value -> nested tuples (every list becomes a tuple)"""
    if isinstance(x, (list, tuple)):
        return tuple(tup(y) for y in x)
    return x


def untup(x):
    if isinstance(x, (list, tuple)):
        return [untup(y) for y in x]
    if isinstance(x, dict):
        return {k: untup(v) for k, v in x.items()}
    return x


def digest(obj):
    return hashlib.sha1(json.dumps(obj, sort_keys=True, default=str).encode("utf8")).hexdigest()


_DRIVER = None


def _init_worker(modname):
    global _DRIVER
    install_alarm()
    _DRIVER = sys.modules.get(modname) or sys.modules.get("__main__")
    if getattr(_DRIVER, "make_scenario", None) is None:
        _DRIVER = __import__(modname)


def _work(args):
    seed, lo, hi = args
    out = []
    for i in range(lo, hi):
        sc = _DRIVER.make_scenario(seed, i)
        if sc is None:
            continue
        try:
            r = _DRIVER.run_scenario(sc)
        except Exception as e:      # a crash of the driver itself is reported as a failure of the case
            import traceback
            r = {"evaluations": 1, "failures": ["DRIVER CRASH %s: %s | %s" % (
                type(e).__name__, e, traceback.format_exc()[-600:])], "nontrivial": [], "sample": None}
        out.append((i, sc, r))
    return out


def run(driver, seed, count, jobs=8):
    modname = os.path.splitext(os.path.basename(driver.__file__))[0]
    chunk = max(1, min(25, count // (jobs * 4) or 1))
    tasks = [(seed, lo, min(count, lo + chunk)) for lo in range(0, count, chunk)]
    results = []
    if jobs <= 1 or count <= 2:
        _init_worker(modname)
        for t in tasks:
            results.extend(_work(t))
    else:
        import multiprocessing
        ctx = multiprocessing.get_context("fork")
        with ctx.Pool(jobs, initializer=_init_worker, initargs=(modname,)) as pool:
            for part in pool.imap(_work, tasks):
                results.extend(part)
    results.sort(key=lambda x: x[0])
    evaluations = 0
    nontrivial = set()
    failures = []
    failure_count = 0
    samples = []
    extra = {}
    for i, sc, r in results:
        evaluations += r["evaluations"]
        nontrivial.update(r.get("nontrivial", ()))
        for k, v in (r.get("extra") or {}).items():
            extra[k] = extra.get(k, 0) + v
        if r["failures"]:
            failure_count += 1
            failures.append({"scenario": sc, "detail": " || ".join(r["failures"][:3])[:1500]})
        elif r.get("sample") is not None and len(samples) < 3 and i >= 1:
            samples.append(r["sample"])
    if len(failures) > 20:
        # at most 20 are reported: one per distinct kind of message first (smallest scenario of the kind),
        # then in case order
        import re
        kinds = {}
        for f in failures:
            k = re.sub(r"[^A-Za-z ]+", "#", f["detail"])[:60]
            size = len(json.dumps(f["scenario"]))
            if k not in kinds or size < kinds[k][0]:
                kinds[k] = (size, f)
        first = [v[1] for _k, v in sorted(kinds.items(), key=lambda kv: kv[1][0])][:20]
        rest = [f for f in failures if all(f is not g for g in first)]
        failures = (first + rest)[:20]
    out = {"evaluations": evaluations, "distinct_nontrivial": len(nontrivial), "rule": driver.RULE,
           "failures": failures, "failure_count": failure_count, "samples": samples,
           "cases": len(results), "engine_src": SRC}
    if extra:
        out["extra"] = extra
    return out


def main(driver):
    argv = sys.argv[1:]
    if not argv or argv[0] not in ("run", "replay"):
        sys.stderr.write(__doc__)
        sys.exit(2)
    if argv[0] == "run":
        seed, count = int(argv[1]), int(argv[2])
        jobs = int(argv[argv.index("--jobs") + 1]) if "--jobs" in argv else 8
        t0 = time.time()
        out = run(driver, seed, count, jobs)
        out["seconds"] = round(time.time() - t0, 2)
        print(json.dumps(out))
        sys.exit(0)
    with open(argv[1]) as f:
        sc = json.load(f)
    if isinstance(sc, dict) and "scenario" in sc:
        sc = sc["scenario"]
    install_alarm()
    try:
        r = driver.run_scenario(sc)
        fails = r["failures"]
        ev = r["evaluations"]
    except Exception as e:
        import traceback
        fails = ["DRIVER CRASH %s: %s | %s" % (type(e).__name__, e, traceback.format_exc()[-600:])]
        ev = 0
    ok = not fails
    print(json.dumps({"ok": ok, "evaluations": ev,
                      "detail": "all checks passed" if ok else " || ".join(fails[:5])[:3000]}))
    sys.exit(0 if ok else 1)
