"""Bounded stand-in for C16 "Source literals and Python values denote the same terms".

    python s_c16.py run <seed> <count>      python s_c16.py replay <file.json>

Scenario JSON
    {"term": <term tuple of terms.py as JSON lists; variables: "_" and named H,T,Y,Z>,
     "style": {"quote_all": bool, "zero_pad": bool, "spaces": bool},   how the literal is rendered
     "after_clear": bool,     the engine is clear()ed before the program is loaded
     "bseed": int}            seed of the random choices of the API term builder / mutations
One scenario = one literal LIT in the program (Vs = named variables of LIT)
    p1(LIT,Vs).   p2(LIT,Vs) :- t(k).   t(k).   p3(X0,Vs) :- X0 = LIT.   same(X0,X0).
"""

import random
import sys

import s_res_common as common
from s_res_common import tup, untup

from terms import (NIL, atom_to_source, var_to_source, list_prefix, is_list, vars_of, map_vars, canon,   # noqa: E402
                   term_to_source)
import real_engine                                                  # noqa: E402
from real_engine import compile_source, _from_engine                # noqa: E402
from yldprolog.engine import YP, Atom, Variable, Functor, get_value, unify, to_python   # noqa: E402

RULE = (
    "C16: one random literal LIT per scenario (atoms: random text without backslash incl. CJK, emoji, combining "
    "marks, quotes, newlines, tabs, control chars, '#', '%', spaces, keywords, '' ; ints 0..2**80; compounds with "
    "arbitrary functor names, depth<=4; lists [],[a],[a,b,c],[H|T],[a,b|T]; `_` and named variables), rendered by "
    "terms.py (or a variant printer: every atom quoted / leading zeros / blanks) in 3 source positions (fact "
    "argument, head of a rule with a body, right side of `X0 = LIT` in a body) and built through the API as a query "
    "argument (4th position, via same(T,Y)). Checks (1 evaluation each): answer count is 1; structural read-back of "
    "the answer == canon(LIT) (every `_` distinct, named variables shared with the extra head arguments); "
    "to_python(answer) == expected_python(LIT) computed in the driver from the tuple (atom->name, '[]'->[], int->int, "
    "proper list->python list, other compound->(name,[args]), unbound variable->None; skipped if LIT has a partial "
    "list); the term built with atom/functor/functor1-3/listpair/makelist/ATOM_NIL/ints/variable unifies with the "
    "compiled literal exactly once, a ground instance (every `_` a different value) exactly once with the right "
    "variable bindings, and single-node mutants (other atom name, int+1, int<->atom of the same digits, other "
    "functor name, extra argument) never; every atom object in an answer `is yp.atom(name)` and yp.atom(n) is "
    "yp.atom(n); ATOM_NIL is yp.atom('[]'); atoms of a second engine unify once with the same-named atom and a "
    "term built with the second engine's constructors matches the fact compiled in the first; p(_,_)/f(_,_)/body "
    "`_` are distinct variables. 15% of the scenarios clear() the engine first (same property must hold for the "
    "engine after clear). distinct_nontrivial = distinct (rendered literal, style) whose literal is not a plain "
    "unquoted ASCII atom."
)

# ------------------------------------------------------------------ generation
_SPECIAL_ATOMS = ["", " ", "true", "fail", "!", "[]", ".", "Abc", "_x", "_", "1", "007", "12ab", "a b", "atom",
                  "ATOM_NIL", "True", "None", "'", "''", "a'b", "'q'", "%", "% c\n", "#", "a\nb", "\n", "\t", "a\tb",
                  "\r\n", "it's", "\"", "(", ")", ",", "|", "[a]", "f(x)", ":-", "=", "X", "é", "日本語", "漢字 テスト",
                  "\U0001F600", "a\U0001F468‍\U0001F469‍\U0001F467b", "é", "́", "שלום",
                  " ", " ", " ", "\x00", "\x1b[0m", "\x7f", "﻿", "​", "Ω", "ß", "ǆ", "\U00010400",
                  "x" * 300]
_ALPHABETS = [
    "abcxyzABC019_",
    " \t\n\r'\"#%(),.[]|!;:-=+*/<>{}~`@$^&?",
    "éüñßøΩжщ日本語漢字テスト한글",
    "\U0001F600\U0001F680\U0001F468‍\U0001F9D1\U0001F3FD",
    "́̈⃗אבاب   ​﻿",
    "\x00\x01\x07\x08\x0b\x0c\x1b\x7f\x85",
]
_PLAIN = ["a", "b", "c", "foo", "bar_1", "xY9"]
# texts that Unicode normalisation / case folding would change: an atom's name is its text, code point by code point
_NOT_NORMAL = ["e\u0301", "A\u030a", "\u212b", "\u2126", "\u1100\u1161", "\u0958", "\ufb01", "\u00c5ngstr\u00f6m", "a\u0308\u0323",
               "\u1e9e", "\u0130", "\uff21", "x\u00b5y", "\u03a9", "\u01c5", "\u2000a", "caf\u00e9", "cafe\u0301"]


def _atom_name(rng):
    r = rng.random()
    if r < 0.28:
        return rng.choice(_PLAIN)
    if r < 0.36:
        return rng.choice(_NOT_NORMAL)
    if r < 0.58:
        return rng.choice(_SPECIAL_ATOMS)
    n = rng.randint(1, 8)
    k = rng.randint(1, 3)
    alph = "".join(rng.sample(_ALPHABETS, k))
    return "".join(rng.choice(alph) for _ in range(n))


def _int(rng):
    r = rng.random()
    if r < 0.25:
        return 0
    if r < 0.6:
        return rng.randint(1, 20)
    if r < 0.8:
        return rng.choice([2 ** 31 - 1, 2 ** 31, 2 ** 32, 2 ** 63 - 1, 2 ** 63, 2 ** 64, 10 ** 30, 2 ** 80])
    return rng.randint(0, 10 ** rng.randint(3, 25))


_VARNAMES = ["H", "T", "Y", "Z"]


def _term(rng, depth, in_tail=False):
    r = rng.random()
    if depth <= 0 or r < 0.38:
        r2 = rng.random()
        if r2 < 0.55:
            return ("atom", _atom_name(rng))
        if r2 < 0.75:
            return ("int", _int(rng))
        if r2 < 0.83:
            return NIL
        if r2 < 0.93:
            return ("var", "_")
        return ("var", rng.choice(_VARNAMES))
    r2 = rng.random()
    if r2 < 0.45:
        name = _atom_name(rng)
        if name == ".":
            name = "dot"
        n = rng.choice([0, 1, 1, 2, 2, 3, 4])
        return ("fun", name, tuple(_term(rng, depth - 1) for _ in range(n)))
    # list shapes
    shape = rng.choice(["[a]", "[a,b,c]", "[H|T]", "[a,b|T]", "[a,b]", "[_|_]"])
    items = {"[a]": 1, "[a,b,c]": 3, "[H|T]": 1, "[a,b|T]": 2, "[a,b]": 2, "[_|_]": 1}[shape]
    elems = [_term(rng, depth - 1) for _ in range(items)]
    if shape in ("[H|T]", "[a,b|T]"):
        tail = ("var", rng.choice(["T", "Z"]))
        if shape == "[H|T]" and rng.random() < 0.5:
            elems = [("var", "H")]
    elif shape == "[_|_]":
        elems = [("var", "_")]
        tail = ("var", "T")           # the grammar wants a named or anonymous VARIABLE after `|`
        if rng.random() < 0.5:
            tail = ("var", "_")
    else:
        tail = NIL
    t = tail
    for e in reversed(elems):
        t = ("fun", ".", (e, t))
    return t


def _confusable(rng):
    """one literal holding two DIFFERENT terms whose unquoted printed forms coincide: f(a,b) next to f('a,b'), g(X) next to g('X'),
    [p,q] next to ['p,q'], h(f(x)) next to h('f(x)') - each must keep its own meaning"""
    a, b = rng.sample(["a", "b", "p", "q", "x1"], 2)
    sep = rng.choice([",", ", "])
    k = rng.randrange(5)
    if k == 0:
        t1, t2 = ("fun", "f", (("atom", a), ("atom", b))), ("fun", "f", (("atom", a + sep + b),))
    elif k == 1:
        v = rng.choice(_VARNAMES)
        t1, t2 = ("fun", "g", (("var", v),)), ("fun", "g", (("atom", v),))
    elif k == 2:
        t1 = ("fun", ".", (("atom", a), ("fun", ".", (("atom", b), NIL))))
        t2 = ("fun", ".", (("atom", a + sep + b), NIL))
    elif k == 3:
        t1, t2 = ("fun", "h", (("fun", "f", (("atom", a),)),)), ("fun", "h", (("atom", "f(%s)" % a),))
    else:
        t1, t2 = ("fun", "f", (("int", 12), ("atom", a))), ("fun", "f", (("atom", "12" + sep + a),))
    if rng.random() < 0.5:
        t1, t2 = t2, t1
    return ("fun", "c2", (t1, t2))


def make_scenario(seed, i):
    rng = random.Random(seed * 1000003 + i * 104729 + 16)
    depth = rng.choice([0, 1, 1, 2, 2, 3, 4])
    t = _term(rng, depth)
    if i % 9 == 4:
        t = _confusable(rng)
    r = rng.random()
    style = {"quote_all": r < 0.15, "zero_pad": 0.15 <= r < 0.25, "spaces": 0.25 <= r < 0.35}
    return untup({"term": t, "style": style, "after_clear": rng.random() < 0.15, "bseed": rng.randint(0, 10 ** 9)})


# ------------------------------------------------------------------- rendering
def render(t, style, nested=True):
    """literal -> source text.  Default style: terms.term_to_source.  Variants: every atom / functor name
    quoted ('abc' denotes the same atom as abc), integers with leading zeros, blanks around punctuation."""
    if not (style.get("quote_all") or style.get("zero_pad") or style.get("spaces")):
        return term_to_source(t, nested)
    sep = " , " if style.get("spaces") else ","
    lb, rb = ("[ ", " ]") if style.get("spaces") else ("[", "]")
    bar = " | " if style.get("spaces") else "|"

    def at(name):
        if "\\" in name:
            raise ValueError("backslash")
        if style.get("quote_all"):
            return "'" + name.replace("'", "\\'") + "'"
        return atom_to_source(name)

    def go(t):
        tag = t[0]
        if tag == "atom":
            if t[1] == "[]":
                return "[]" if not style.get("spaces") else "[ ]"
            return at(t[1])
        if tag == "int":
            return ("00" if style.get("zero_pad") else "") + str(t[1])
        if tag == "var":
            return var_to_source(t[1])
        name, args = t[1], t[2]
        if name == "." and len(args) == 2:
            items, tail = list_prefix(t)
            if tail == NIL:
                return lb + sep.join(go(i) for i in items) + rb
            if tail[0] == "var":
                return lb + sep.join(go(i) for i in items) + bar + var_to_source(tail[1]) + rb
            return "'.'(" + go(args[0]) + sep + go(args[1]) + ")"
        if name in ("=", "\\=") and len(args) == 2 and not style.get("quote_all"):
            return "(" + go(args[0]) + " " + name + " " + go(args[1]) + ")"
        return at(name) + ("( " if style.get("spaces") else "(") + sep.join(go(a) for a in args) + (
            " )" if style.get("spaces") else ")")
    return go(t)


# ---------------------------------------------------------- independent oracle
class Unspecified(Exception):
    pass


def expected_python(t):
    """the Python value the statement of C16 assigns to the term t (independent of yldprolog)"""
    tag = t[0]
    if tag == "atom":
        return [] if t[1] == "[]" else t[1]
    if tag == "int":
        return t[1]
    if tag == "var":
        return None
    name, args = t[1], t[2]
    if name == ".":
        if len(args) == 2 and is_list(t):
            out = []
            while t != NIL:
                out.append(expected_python(t[2][0]))
                t = t[2][1]
            return out
        raise Unspecified("partial / improper list")
    return (name, [expected_python(a) for a in args])


def anonymise(terms):
    n = [0]

    def f(v):
        if v[1] == "_":
            n[0] += 1
            return ("var", "_anon%d" % n[0])
        return v
    return tuple(map_vars(t, f) for t in terms)


def atom_names(t, acc):
    if t[0] == "atom":
        acc.add(t[1])
    elif t[0] == "fun":
        for a in t[2]:
            atom_names(a, acc)
    return acc


def mutants(t, rng, limit=3):
    """terms that differ from t in the principal functor of exactly one node (never unify with t)"""
    paths = []

    def walk(x, path):
        if x[0] != "var":
            paths.append(path)
        if x[0] == "fun":
            for i, a in enumerate(x[2]):
                walk(a, path + (i,))
    walk(t, ())
    rng.shuffle(paths)
    out = []

    def change(x):
        tag = x[0]
        if tag == "atom":
            if x[1].isdigit() and x[1].isascii() and rng.random() < 0.7:
                return ("int", int(x[1]))
            if x == NIL:
                return rng.choice([("atom", "nil"), ("atom", "[ ]"), ("fun", ".", (("atom", "a"), NIL))])
            return rng.choice([("atom", x[1] + "x"), ("atom", x[1] + " "), ("atom", x[1].upper() + "_"),
                               ("fun", x[1], (("atom", "a"),))])
        if tag == "int":
            return rng.choice([("int", x[1] + 1), ("atom", str(x[1])), ("fun", "int", (x,))])
        r = rng.random()
        if r < 0.4:
            return ("fun", x[1] + "x", x[2])
        if r < 0.7:
            return ("fun", x[1], x[2] + (("atom", "a"),))
        if len(x[2]) > 1:
            return ("fun", x[1], x[2][:-1])
        return ("atom", x[1])

    def rebuild(x, path):
        if not path:
            return change(x)
        i = path[0]
        return ("fun", x[1], x[2][:i] + (rebuild(x[2][i], path[1:]),) + x[2][i + 1:])
    for p in paths[:limit]:
        out.append(rebuild(t, p))
    return out


def build_api(yp, t, varmap, rng):
    """tuple term -> engine term through the public constructors (random equivalent choices)"""
    tag = t[0]
    if tag == "atom":
        if t[1] == "[]" and rng.random() < 0.6:
            return yp.ATOM_NIL
        return yp.atom(t[1])
    if tag == "int":
        return t[1]
    if tag == "var":
        if t[1] == "_":
            return yp.variable()
        v = varmap.get(t)
        if v is None:
            v = varmap[t] = yp.variable()
        return v
    name, args = t[1], t[2]
    if name == "." and len(args) == 2:
        if is_list(t) and rng.random() < 0.6:
            items, _tail = list_prefix(t)
            return yp.makelist([build_api(yp, i, varmap, rng) for i in items])
        return yp.listpair(build_api(yp, args[0], varmap, rng), build_api(yp, args[1], varmap, rng))
    eargs = [build_api(yp, a, varmap, rng) for a in args]
    if 1 <= len(eargs) <= 3 and rng.random() < 0.3:
        return getattr(yp, "functor%d" % len(eargs))(name, *eargs)
    return yp.functor(name, eargs)


def check_atom_identity(yp, x, fails, where):
    """every Atom object inside the (dereferenced) engine term x is THE atom of that name of yp"""
    stack = [x]
    n = 0
    while stack:
        v = get_value(stack.pop())
        if isinstance(v, Atom):
            n += 1
            if v is not yp.atom(v.name()):
                fails.append("%s: atom %r in the answer is not yp.atom(%r) (two atom objects of one name in one engine)"
                             % (where, v.name(), v.name()))
                return n
        elif isinstance(v, Functor):
            stack.extend(v._args)
    return n


_GROUND = [("atom", "g1"), ("int", 41), ("fun", "k", (("atom", "z"),)), ("atom", "日"), ("int", 0)]


def ground_instance(lit, named):
    """(instance of lit with every `_` replaced by a DIFFERENT ground value, values of the named vars)"""
    cnt = [0]
    val = {}
    for i, v in enumerate(named):
        val[v] = ("fun", ".", (("int", 700 + i), NIL)) if v[1] in ("T",) else ("fun", "v", (("int", 700 + i),))

    def f(v):
        if v[1] == "_":
            cnt[0] += 1
            return ("int", 9000 + cnt[0])
        return val[v]
    return map_vars(lit, f), [val[v] for v in named]


CONST_SRC = ("pa(_, _).\npb(f(_, _)) :- tc(k).\npc(X) :- X = g(_, _, _).\npd([_,_|_]).\ntc(k).\n"
             # several `[..|_]` tails in one clause, also next to an if-then-else (whose code has its own `_` loop variable)
             "pe([a|_], [b|_]).\npf(X, Y) :- ( X = [a|_] -> Y = [b|_] ; fail ), tc(k).\npg([_|_], [_|_], _).\n")


# ---------------------------------------------------------------------- running
def run_scenario(sc):
    lit = tup(sc["term"])
    style = sc["style"]
    rng = random.Random(sc["bseed"])
    fails = []
    ev = [0]

    def check(ok, msg):
        ev[0] += 1
        if not ok and len(fails) < 8:
            fails.append(msg)
        return ok

    named = vars_of(lit)
    litsrc = render(lit, style)
    vsrc = "".join("," + v[1] for v in named)
    src = ("p1(%s%s).\np2(%s%s) :- t(k).\nt(k).\np3(X0%s) :- X0 = %s.\nsame(X0,X0).\n"
           % (litsrc, vsrc, litsrc, vsrc, vsrc, litsrc))
    try:
        code = compile_source(src)
    except Exception as e:
        return {"evaluations": 1, "failures": ["the program does not compile: %s: %s | source %r" % (
            type(e).__name__, str(e)[:200], src[:300])], "nontrivial": [], "sample": None}
    yp = YP()
    if sc.get("after_clear"):
        yp.assert_fact(yp.atom("junk"), [yp.atom("x"), yp.ATOM_NIL])
        yp.clear()
    try:
        yp.load_script_from_string(code)
        yp.load_script_from_string(compile_source(CONST_SRC), overwrite=False)
    except Exception as e:
        return {"evaluations": 1, "failures": ["the compiled program does not load: %s: %s | source %r" % (
            type(e).__name__, str(e)[:200], src[:300])], "nontrivial": [], "sample": None}

    want = canon(anonymise((lit,) + tuple(named)))
    try:
        want_py = expected_python(lit)
        has_py = True
    except Unspecified:
        want_py, has_py = None, False
    k = len(named)
    muts = mutants(lit, rng) if lit[0] != "var" else []
    inst, inst_vals = ground_instance(lit, named)

    def run_query(name, args, project=None):
        """list of project() results, one per answer; exceptions are failures"""
        out = []
        q = yp.query(name, args)
        try:
            for _ in q:
                out.append(project() if project else None)
                if len(out) > 5:
                    break
        finally:
            q.close()
        return out

    def guarded(label, f):
        try:
            return common.timed(f)
        except Exception as e:
            check(False, "%s raised %s: %s | literal %s" % (label, type(e).__name__, str(e)[:200], litsrc[:200]))
            return None

    for pos in ("p1", "p2", "p3"):
        # --- (1) read back through a variable
        X = yp.variable()
        As = [yp.variable() for _ in range(k)]

        def project():
            names = {}
            back = canon(tuple(_from_engine(v, names, 0) for v in [X] + As))
            py = ("ok", to_python(X)) if has_py else None
            bad = []
            check_atom_identity(yp, X, bad, pos)
            return back, py, bad
        res = guarded("%s(X,..)" % pos, lambda: run_query(pos, [X] + As, project))
        if res is not None:
            if check(len(res) == 1, "%s: %d answers instead of 1 for literal %s" % (pos, len(res), litsrc[:200])):
                back, py, bad = res[0]
                check(back == want, "%s: literal %s read back as %r, expected %r" % (pos, litsrc[:200], back, want))
                if has_py:
                    check(py[1] == want_py and _same_types(py[1], want_py),
                          "%s: to_python gives %r, expected %r (literal %s)" % (pos, py[1], want_py, litsrc[:200]))
                check(not bad, "; ".join(bad))
            check(not X._is_bound and all(not a._is_bound for a in As), "%s: variables still bound after the query" % pos)
        # --- (2) API built term unifies exactly once
        vm = {}
        api = build_api(yp, lit, vm, rng)
        aargs = [api] + [build_api(yp, v, vm, rng) for v in named]
        res = guarded("%s(API)" % pos, lambda: run_query(pos, aargs))
        if res is not None:
            check(len(res) == 1, "%s: the API-built term of %s gets %d answers instead of 1" % (pos, litsrc[:200], len(res)))
        # ground instance: every `_` a different value
        Bs = [yp.variable() for _ in range(k)]
        gi = build_api(yp, inst, {}, rng)

        def project2():
            names = {}
            return tuple(_from_engine(b, names, 0) for b in Bs)
        res = guarded("%s(instance)" % pos, lambda: run_query(pos, [gi] + Bs, project2))
        if res is not None:
            if check(len(res) == 1, "%s: ground instance %s of %s gets %d answers instead of 1" % (
                    pos, term_to_source(inst)[:200], litsrc[:200], len(res))):
                check(res[0] == tuple(inst_vals), "%s: ground instance binds the variables to %r, expected %r" % (
                    pos, res[0], inst_vals))
        # mutants never
        for m in muts:
            mt = build_api(yp, m, {}, rng)
            res = guarded("%s(mutant)" % pos, lambda: run_query(pos, [mt] + [yp.variable() for _ in range(k)]))
            if res is not None:
                check(len(res) == 0, "%s: the different term %r matches the literal %s (%d answers)" % (
                    pos, m, litsrc[:200], len(res)))

    # --- position 4: the literal as a query argument built through the API
    vm = {}
    api = build_api(yp, lit, vm, rng)
    avars = [build_api(yp, v, vm, rng) for v in named]
    Y = yp.variable()

    def project4():
        names = {}
        return (canon(tuple(_from_engine(v, names, 0) for v in [Y] + avars)),
                ("ok", to_python(Y)) if has_py else None)
    res = guarded("same(API,Y)", lambda: run_query("same", [api, Y], project4))
    if res is not None:
        if check(len(res) == 1, "same(API,Y): %d answers" % len(res)):
            check(res[0][0] == want, "same(API,Y): Y read back as %r, expected %r" % (res[0][0], want))
            if has_py:
                check(res[0][1][1] == want_py and _same_types(res[0][1][1], want_py),
                      "same(API,Y): to_python gives %r, expected %r" % (res[0][1][1], want_py))
    if has_py:
        got = guarded("to_python(API)", lambda: to_python(api))
        check(got == want_py, "to_python of the API-built term gives %r, expected %r" % (got, want_py))
        # the value returned is the caller's: changing it in place (every list in it, also nested and empty ones) must not
        # show up in a later conversion of the same term or of any other list
        def scribble(v):
            if isinstance(v, list):
                for x in v:
                    scribble(x)
                v.append("<caller's own element>")
        if got is not None:
            scribble(got)
            again = guarded("to_python(API) again", lambda: to_python(api))
            check(again == want_py, "to_python of the same term after the caller changed the first result in place gives %r, "
                                    "expected %r" % (again, want_py))
            el = guarded("to_python([])", lambda: to_python(yp.ATOM_NIL))
            check(el == [], "to_python([]) after a caller changed an earlier result in place gives %r, expected []" % (el,))
            l2 = guarded("to_python([a])", lambda: to_python(yp.listpair(yp.atom("a"), yp.ATOM_NIL)))
            check(l2 == ["a"], "to_python([a]) after a caller changed an earlier result in place gives %r, expected ['a']" % (l2,))

    # --- (3) atoms: one object per name and engine; unify across engines
    names_ = sorted(atom_names(lit, set()) | {"[]"})
    yb = YP()
    for n in names_:
        check(yp.atom(n) is yp.atom(n), "yp.atom(%r) is not yp.atom(%r)" % (n, n))
        # the `module` argument (kept for compatibility with YieldProlog output) does not name a different atom
        check(yp.atom(n, "user") is yp.atom(n) and yp.atom(n, module="m2") is yp.atom(n, "user"),
              "yp.atom(%r, <module>) is not yp.atom(%r)" % (n, n))
        c = guarded("unify across engines", lambda: sum(1 for _ in unify(yp.atom(n), yb.atom(n))))
        check(c == 1, "unify(A.atom(%r), B.atom(%r)) yields %r times" % (n, n, c))
        c = guarded("unify across engines", lambda: sum(1 for _ in unify(yb.atom(n), yp.atom(n + "#"))))
        check(c == 0, "unify(B.atom(%r), A.atom(%r)) yields %r times" % (n, n + "#", c))
    check(yp.atom("[]") is yp.ATOM_NIL, "yp.atom('[]') is not yp.ATOM_NIL%s" % (
        " after clear()" if sc.get("after_clear") else ""))
    bt = build_api(yb, lit, {}, rng)
    res = guarded("p1(term of engine B)", lambda: run_query("p1", [bt] + [yb.variable() for _ in range(k)]))
    if res is not None:
        check(len(res) == 1, "a term built with another engine's constructors gets %d answers from p1 (literal %s)" % (
            len(res), litsrc[:200]))
    bg = build_api(yb, inst, {}, rng)
    res = guarded("p3(instance of engine B)", lambda: run_query("p3", [bg] + [yb.variable() for _ in range(k)]))
    if res is not None:
        check(len(res) == 1, "a ground instance built with another engine's constructors gets %d answers from p3" % len(res))
    for m in muts[:1]:
        bm = build_api(yb, m, {}, rng)
        res = guarded("p1(mutant of engine B)", lambda: run_query("p1", [bm] + [yb.variable() for _ in range(k)]))
        if res is not None:
            check(len(res) == 0, "a different term built with another engine matches (%d answers)" % len(res))

    # --- (4) each `_` is its own variable
    for name, args, exp in (("pa", [1, 2], 1), ("pa", [yp.atom("a"), yp.atom("a")], 1),
                            ("pb", [yp.functor("f", [1, 2])], 1),
                            ("pc", [yp.functor("g", [1, yp.atom("x"), 1])], 1),
                            ("pd", [yp.makelist([1, 2])], 1), ("pd", [yp.makelist([1])], 0),
                            ("pd", [yp.makelist([1, 2, 3, yp.atom("a")])], 1),
                            ("pe", [yp.makelist([yp.atom("a"), 1]), yp.makelist([yp.atom("b"), 2, 3])], 1),
                            ("pe", [yp.makelist([yp.atom("a")]), yp.makelist([yp.atom("b"), yp.atom("c")])], 1),
                            ("pf", [yp.makelist([yp.atom("a"), 1]), yp.makelist([yp.atom("b"), 2, 3])], 1),
                            ("pg", [yp.makelist([1, 2]), yp.makelist([3]), 4], 1)):
        res = guarded("%s/_" % name, lambda: run_query(name, args))
        if res is not None:
            check(len(res) == exp, "%s%r: %d answers instead of %d (`_` must be distinct variables)" % (
                name, [str(a) for a in args], len(res), exp))

    trivial = lit[0] == "atom" and litsrc == lit[1] and lit[1].isascii()
    nontrivial = [] if trivial else [common.digest([litsrc, sorted(style.items())])]
    sample = None
    if not fails and not trivial and len(litsrc) < 200 and lit[0] == "fun":
        sample = {"literal_source": litsrc, "expected_python": repr(want_py) if has_py else "unspecified (partial list)",
                  "canon": repr(want)[:300], "evaluations": ev[0], "after_clear": bool(sc.get("after_clear"))}
    return {"evaluations": ev[0], "failures": fails, "nontrivial": nontrivial, "sample": sample}


def _same_types(a, b):
    """== plus equal container / scalar types (so that 1 vs True or tuple vs list are told apart)"""
    if type(a) is not type(b):
        return False
    if isinstance(a, (list, tuple)):
        return len(a) == len(b) and all(_same_types(x, y) for x, y in zip(a, b))
    return a == b


if __name__ == "__main__":
    common.main(sys.modules[__name__])
