"""Tiny recursive-descent reader for the Prolog subset of prolog.g4, producing
the tuple representation of terms.py.  Pure standard library; used by the unit
tests (readable cases) and for printer round-trip checks.  Not used by the
reference interpreter itself.

Precedences as in the grammar: `\\+` (prefix) binds tighter than `,` tighter than
`->` tighter than `;`; the binary ones are right associative."""

import re
import os
import sys

_here = os.path.dirname(os.path.abspath(__file__))
if _here not in sys.path:
    sys.path.insert(0, _here)


from terms import NIL, TRUE, FAIL, CUT, mklist

_TOKEN = re.compile(r"""
    (?P<ws>\s+|%[^\n]*)
  | (?P<punct>:-|->|\\\+|\\=|=|\(|\)|\[|\]|\||,|;|!|\.)
  | (?P<var>[A-Z_][A-Za-z0-9_]*)
  | (?P<atom>[a-z][A-Za-z0-9_]*)
  | (?P<int>[0-9]+)
  | (?P<quoted>'(?:\\'|[^'])*')
""", re.X)


class ParseError(Exception):
    pass


def tokenize(src):
    pos = 0
    out = []
    while pos < len(src):
        m = _TOKEN.match(src, pos)
        if not m:
            raise ParseError("bad character at %d: %r" % (pos, src[pos:pos + 10]))
        pos = m.end()
        kind = m.lastgroup
        if kind == "ws":
            continue
        text = m.group()
        if kind == "quoted":
            body = text[1:-1]
            r = ""
            i = 0
            while i < len(body):
                if body[i] == "\\":
                    i += 1
                    continue
                r += body[i]
                i += 1
            out.append(("qatom", r))
        elif kind == "atom" and text in ("true", "fail"):
            out.append(("kw", text))
        else:
            out.append((kind, text))
    out.append(("eof", ""))
    return out


class _Parser(object):
    def __init__(self, src):
        self.toks = tokenize(src)
        self.i = 0

    def peek(self):
        return self.toks[self.i]

    def next(self):
        t = self.toks[self.i]
        self.i += 1
        return t

    def at(self, text):
        t = self.toks[self.i]
        return t[0] == "punct" and t[1] == text

    def expect(self, text):
        t = self.next()
        if t != ("punct", text):
            raise ParseError("expected %r, found %r (token %d)" % (text, t[1], self.i))

    # ---------------------------------------------------------------- terms
    def term(self):
        left = self.primary()
        if self.at("=") or self.at("\\="):
            op = self.next()[1]
            right = self.primary()
            return ("fun", op, (left, right))
        return left

    def primary(self):
        kind, text = self.next()
        if kind == "var":
            return ("var", text)
        if kind == "int":
            return ("int", int(text))
        if kind in ("atom", "qatom"):
            if self.at("("):
                self.next()
                args = [self.term()]
                while self.at(","):
                    self.next()
                    args.append(self.term())
                self.expect(")")
                return ("fun", text, tuple(args))
            return ("atom", text)
        if kind == "punct" and text == "(":
            t = self.term()
            self.expect(")")
            return t
        if kind == "punct" and text == "[":
            if self.at("]"):
                self.next()
                return NIL
            items = [self.term()]
            while self.at(","):
                self.next()
                items.append(self.term())
            tail = NIL
            if self.at("|"):
                self.next()
                k, v = self.next()
                if k != "var":
                    raise ParseError("only a variable may follow |")
                tail = ("var", v)
            self.expect("]")
            return mklist(items, tail)
        raise ParseError("unexpected %r (token %d)" % (text, self.i))

    # ---------------------------------------------------------------- goals
    def body(self):
        left = self.ite()
        if self.at(";"):
            self.next()
            return (";", left, self.body())
        return left

    def ite(self):
        left = self.conj()
        if self.at("->"):
            self.next()
            return ("->", left, self.ite())
        return left

    def conj(self):
        left = self.unary()
        if self.at(","):
            self.next()
            return (",", left, self.conj())
        return left

    def unary(self):
        kind, text = self.peek()
        if kind == "punct" and text == "\\+":
            self.next()
            return ("\\+", self.unary())
        if kind == "punct" and text == "(":
            # goal in parentheses, or a parenthesised term on the left of =
            save = self.i
            self.next()
            try:
                g = self.body()
                self.expect(")")
                if not (self.at("=") or self.at("\\=")):
                    return g
            except ParseError:
                pass
            self.i = save
        if kind == "kw":
            self.next()
            return TRUE if text == "true" else FAIL
        if kind == "punct" and text == "!":
            self.next()
            return CUT
        t = self.term()
        if t[0] not in ("atom", "fun"):
            raise ParseError("goal must be callable: %r" % (t,))
        return ("call", t)

    def clause(self):
        g = self.unary()
        if g[0] != "call":
            raise ParseError("bad clause head")
        head = g[1]
        body = TRUE
        if self.at(":-"):
            self.next()
            body = self.body()
        self.expect(".")
        return (head, body)

    def program(self):
        out = []
        while self.peek()[0] != "eof":
            out.append(self.clause())
        return out


def parse_program(src):
    return _Parser(src).program()


def parse_goal(src):
    p = _Parser(src)
    g = p.body()
    if p.at("."):
        p.next()
    if p.peek()[0] != "eof":
        raise ParseError("trailing input")
    return g


def parse_term(src):
    p = _Parser(src)
    t = p.term()
    if p.peek()[0] != "eof":
        raise ParseError("trailing input")
    return t
