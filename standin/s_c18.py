#!/usr/bin/env python3
"""s_c18 -- bounded stand-in for C18: "compilation is a deterministic function of the source text".

    python s_c18.py run <seed> <count>
    python s_c18.py replay <file.json>

An evaluation is one (program text, option set) pair; <count> pairs are made from count/2 programs,
each with the plain option set and one of the seven debug option sets (debug_filename,
debug_parser, debug_generator; rotated so that all are covered).  Every pair is compiled with
compile_prolog_from_string(text, ctx) (ctx.outf = io.StringIO(), ctx.current_source_file =
'prog.pl') in worker subprocesses, 8 observations per pair:

    PYTHONHASHSEED=0       batch order as given                                    1 observation
    PYTHONHASHSEED=1       batch in reverse order                                  1
    PYTHONHASHSEED=2       batch shuffled                                          1
    PYTHONHASHSEED=3       each pair compiled twice in a row (same process)        2
    PYTHONHASHSEED=random  batch shuffled, then the whole batch once more          2
                           (= again after k other, unrelated compilations)
    PYTHONHASHSEED=4711    batch order as given                                    1
(batches are chunks of at most 60 pairs, one subprocess per chunk and hash seed).
For every observation the worker reports sha256 of the RETURNED text (or of the exception class and
message when the compiler raises) and sha256 of what was written to ctx.outf (the debug stream).
All observations of a pair must agree on both.  A mismatch of the returned text is failure kind
"returned"; a mismatch of the debug stream only is kind "debug_stream" - for those the detail says
whether the streams still agree once `0x...` object addresses are masked (diagnosis only, it is
still a failure).

Scenario JSON: {"text": source, "options": {"debug_filename":b,"debug_parser":b,"debug_generator":b},
                "kind": "returned"|"debug_stream"}
"""

import hashlib
import io
import json
import os
import random
import re
import shutil
import subprocess
import sys
import tempfile
from concurrent.futures import ThreadPoolExecutor

import s_compiler_common as K

RULE = ("evaluation = one (program text, option set) pair; non-trivial = distinct pairs that have all 8 "
        "observations (hash seeds 0,1,2,3,4711,random; forward/reverse/shuffled batch order; in the reverse batch read through compile_prolog_from_file from a path that held another program when it was compiled before; twice in a row; "
        "again after the rest of the batch), i.e. both the returned text and the debug stream were compared "
        "across processes, hash seeds and in-process histories")

HASHSEEDS = ["0", "1", "2", "3", "random", "4711"]
CHUNK = 60
SOURCE_NAME = "prog.pl"


def opts_of(mask):
    return {"debug_filename": bool(mask & 1), "debug_parser": bool(mask & 2), "debug_generator": bool(mask & 4)}


def mask_of(opts):
    return (1 if opts.get("debug_filename") else 0) | (2 if opts.get("debug_parser") else 0) | (4 if opts.get("debug_generator") else 0)


# ------------------------------------------------------------------------------ worker side
def _sha(s):
    return hashlib.sha256(s.encode("utf-8", "surrogatepass")).hexdigest()[:32]


_ADDR = re.compile(r"0x[0-9a-fA-F]+")


_SHARED = []


def observe(text, mask, reuse=False, via_file=None):
    from yldprolog.compiler import compile_prolog_from_string, compile_prolog_from_file
    o = opts_of(mask)
    compile_ = compile_prolog_from_string
    arg = text
    if via_file is not None:
        # the same text read from a file whose path was compiled before while it held ANOTHER program (a host that reloads
        # edited scripts): the result is a function of the file's present text
        path, before = via_file
        try:
            data = text.encode('utf8')
            with open(path, 'wb') as f:
                f.write(before.encode('utf8', 'replace'))
            try:
                compile_prolog_from_file(path, K.Ctx(current_source_file='earlier.P', outf=io.StringIO()))
            except Exception:       # noqa: B902
                pass
            with open(path, 'wb') as f:
                f.write(data)
            compile_, arg = compile_prolog_from_file, path
        except UnicodeEncodeError:
            pass
    if reuse:
        # "the same options" are the same option VALUES: one options object serves the whole process and is set up before each
        # compilation; just before, it compiled the same text under other values (other file name, debug_filename flipped)
        if not _SHARED:
            _SHARED.append(K.Ctx(current_source_file='other.P', outf=io.StringIO()))
        ctx = _SHARED[0]
        ctx.debug_filename = not o["debug_filename"]
        ctx.debug_parser = ctx.debug_generator = False
        ctx.current_source_file = 'other/dir/file.P'
        ctx.outf = io.StringIO()
        try:
            compile_prolog_from_string(text, ctx)
        except Exception:       # noqa: B902
            pass
        ctx.debug_filename, ctx.debug_parser, ctx.debug_generator = o["debug_filename"], o["debug_parser"], o["debug_generator"]
        ctx.current_source_file = SOURCE_NAME
        ctx.outf = io.StringIO()
    else:
        ctx = K.Ctx(debug_filename=o["debug_filename"], debug_parser=o["debug_parser"], debug_generator=o["debug_generator"],
                    current_source_file=SOURCE_NAME, outf=io.StringIO())
    try:
        ret = compile_(arg, ctx)
        ok = True
    except BaseException as e:       # noqa: B902
        if isinstance(e, (KeyboardInterrupt, SystemExit)):
            raise
        ret = "EXC:%s:%s" % (type(e).__name__, e)
        ok = False
    dbg = ctx.outf.getvalue()
    return {"ok": ok, "ret": _sha(ret), "dbg": _sha(dbg), "dbgm": _sha(_ADDR.sub("0x", dbg)), "dbglen": len(dbg)}


def worker():
    job = json.load(sys.stdin)
    items = job["items"]                 # [[key, text, mask], ...]
    mode = job["mode"]
    order = list(range(len(items)))
    rng = random.Random(job.get("shuffle_seed", 0))
    out = {}

    tmpdir = tempfile.mkdtemp(prefix='s_c18_')

    def obs(i, tag, reuse=False, via_file=False):
        key, text, mask = items[i]
        r = observe(text, mask, reuse, (os.path.join(tmpdir, 'work.P'), items[i - 1][1]) if via_file else None)
        r["tag"] = tag
        out.setdefault(key, []).append(r)
    if mode == "fwd":
        for i in order:
            obs(i, job["tag"])
    elif mode == "rev":
        for i in reversed(order):
            obs(i, job["tag"] + "/from-a-file-whose-path-held-another-program-when-it-was-compiled-before", via_file=True)
    elif mode == "shuf":
        rng.shuffle(order)
        for i in order:
            obs(i, job["tag"])
    elif mode == "twice":
        for i in order:
            obs(i, job["tag"] + "/first")
            obs(i, job["tag"] + "/again-with-a-reused-options-object-that-held-other-values", reuse=True)
    elif mode == "shuf+again":
        rng.shuffle(order)
        for i in order:
            obs(i, job["tag"] + "/first")
        for i in order:
            obs(i, job["tag"] + "/after-%d-others" % (len(order) - 1))
    shutil.rmtree(tmpdir, ignore_errors=True)
    json.dump({"hashseed_env": os.environ.get("PYTHONHASHSEED"), "obs": out}, sys.stdout)


# ------------------------------------------------------------------------------ driver side
MODES = {"0": "fwd", "1": "rev", "2": "shuf", "3": "twice", "random": "shuf+again", "4711": "fwd"}
EXPECTED_OBS = 8


def _launch(job):
    hs, items, shuffle_seed = job
    payload = json.dumps({"items": items, "mode": MODES[hs], "tag": "hashseed=%s" % hs, "shuffle_seed": shuffle_seed})
    p = subprocess.run([K.PY, os.path.abspath(__file__), "_worker"], input=payload.encode(), stdout=subprocess.PIPE,
                       stderr=subprocess.PIPE, env=K.sub_env(hs), timeout=3600)
    if p.returncode != 0:
        return {"error": "worker hashseed=%s exit %d: %s" % (hs, p.returncode, p.stderr.decode(errors="replace")[-400:])}
    return json.loads(p.stdout.decode())


def compare(items, threads=10, seed=0):
    """items: [[key, text, mask]] -> (observations by key, worker errors)"""
    jobs = []
    for c in range(0, len(items), CHUNK):
        chunk = items[c:c + CHUNK]
        for hs in HASHSEEDS:
            jobs.append((hs, chunk, seed * 1000 + c))
    obs = {}
    errors = []
    with ThreadPoolExecutor(max_workers=threads) as ex:
        for res in ex.map(_launch, jobs):
            if "error" in res:
                errors.append(res["error"])
                continue
            for k, v in res["obs"].items():
                obs.setdefault(k, []).extend(v)
    return obs, errors


def judge(observations):
    """-> (kind or None, detail)"""
    rets = {}
    dbgs = {}
    dbgms = set()
    for o in observations:
        rets.setdefault(o["ret"], []).append(o["tag"])
        dbgs.setdefault(o["dbg"], []).append(o["tag"])
        dbgms.add(o["dbgm"])
    if len(rets) > 1:
        groups = sorted(rets.values(), key=lambda g: -len(g))
        return "returned", "returned text differs between observations: %d distinct results; groups %s" % (
            len(rets), json.dumps(groups)[:500])
    if len(dbgs) > 1:
        return "debug_stream", ("returned text identical in all %d observations, but the debug stream written to ctx.outf "
                                "differs: %d distinct streams (length %d); identical after masking 0x... addresses: %s"
                                % (len(observations), len(dbgs), observations[0]["dbglen"], "yes" if len(dbgms) == 1 else "NO"))
    return None, "all %d observations agree" % len(observations)


# ------------------------------------------------------------------------------ programs
_VNAMES = ["A", "B", "C", "D", "E", "F", "G", "H", "X", "Y", "Z", "Acc", "Acc0", "Acc1", "Result", "Tail", "Head", "Xs", "Ys", "N", "N1",
           "M", "Key", "Value", "Left", "Right", "_a", "_b", "_G12", "Long_variable_name", "Q", "R", "S", "T", "U", "V", "W", "P0", "P1", "P2",
           "Aa", "aA".upper(), "Zebra", "Apple", "Mango", "K9", "I", "J", "L", "O"]


def many_vars(rng):
    n = rng.randint(6, 12)
    vs = rng.sample(_VNAMES, n)
    nh = rng.randint(0, 4)
    head_args = []
    for v in rng.sample(vs, nh):
        head_args.append(rng.choice(["%s", "f(%s)", "[%s|_]", "%s"]) % v)
    if rng.random() < 0.4 and nh:
        head_args.append(head_args[0])
    if rng.random() < 0.4:
        head_args.append("_")
    goals = []
    for g in range(rng.randint(2, 6)):
        k = rng.randint(1, 4)
        args = [rng.choice(vs) if rng.random() < 0.85 else "_" for _ in range(k)]
        goal = "g%d(%s)" % (g, ", ".join(args))
        r = rng.random()
        if r < 0.2:
            goal = "( c(%s) -> %s ; e(%s, _) )" % (rng.choice(vs), goal, rng.choice(vs))
        elif r < 0.3:
            goal = "\\+ %s" % goal
        elif r < 0.4:
            goal = "( %s ; h(%s) )" % (goal, rng.choice(vs))
        elif r < 0.5:
            goal = "( a(%s) -> ( b(%s) -> %s ; u(%s) ) ; w(_, %s) )" % (rng.choice(vs), rng.choice(vs), goal, rng.choice(vs), rng.choice(vs))
        goals.append(goal)
    name = rng.choice(["p", "q", "rule"])
    head = name + ("(%s)" % ", ".join(head_args) if head_args else "")
    return "%s :- %s.\n" % (head, ", ".join(goals))


def special_program(rng):
    n = rng.randint(1, 4)
    parts = [many_vars(rng) for _ in range(n)]
    if rng.random() < 0.5:
        # many predicates in a scrambled order: the order of the defs must be stable
        names = ["z", "a", "m", "b", "y", "k", "c", "x"]
        rng.shuffle(names)
        parts += ["%s(%d).\n" % (nm, i) for i, nm in enumerate(names[: rng.randint(2, 8)])]
        rng.shuffle(parts)
    if rng.random() < 0.2:
        parts.append("t('%s', '%s').\n" % (rng.choice(["a b", "é", "x\ny", "it\\'s"]), rng.choice(["#", "\"", "z"])))
    return "".join(parts)


def build_programs(seed, nprog):
    rng = random.Random("c18-%d" % seed)
    nspecial = max(1, nprog * 2 // 5)
    texts = [("special-%d" % i, special_program(rng)) for i in range(nspecial)]
    fam = K.family_texts(seed, nprog - nspecial)
    # interleave so that a chunk mixes kinds
    out = []
    while texts or fam:
        if texts:
            out.append(texts.pop())
        if fam:
            out.append(fam.pop())
    # an invalid program: the error must be deterministic too
    if out:
        out[len(out) // 2] = ("invalid", "p(X) :- q(X),, r(X).\n")
    return out[:nprog]


def build_items(seed, count):
    nprog = max(1, (count + 1) // 2)
    progs = build_programs(seed, nprog)
    items = []
    for i, (ident, text) in enumerate(progs):
        items.append(["%d/0" % i, text, 0])
        items.append(["%d/d" % i, text, 1 + (i + seed) % 7])
    return items[:count], progs


def run(seed, count):
    items, progs = build_items(seed, count)
    obs, errors = compare(items, seed=seed)
    failures = []
    nontrivial = set()
    kinds = {"returned": 0, "debug_stream": 0, "debug_stream_not_explained_by_addresses": 0}
    by_mask = {}
    samples = []
    for key, text, mask in items:
        o = obs.get(key, [])
        if len(o) == EXPECTED_OBS:
            nontrivial.add((text, mask))
        kind, detail = judge(o) if o else ("returned", "no observations (worker failed)")
        if len(o) != EXPECTED_OBS and not kind:
            kind, detail = "returned", "only %d of %d observations" % (len(o), EXPECTED_OBS)
        m = by_mask.setdefault(str(mask), {"pairs": 0, "failed": 0})
        m["pairs"] += 1
        if kind:
            m["failed"] += 1
            kinds[kind] += 1
            if kind == "debug_stream" and detail.endswith("NO"):
                kinds["debug_stream_not_explained_by_addresses"] += 1
            # C18 is about the RETURNED text. The debug stream (written to ctx.outf) prints default object reprs with
            # memory addresses; a stream that differs only in 0x... addresses is recorded in the stats, not as a failure.
            if kind == "debug_stream" and detail.endswith("yes"):
                m["failed"] -= 1
                continue
            failures.append({"scenario": {"text": text, "options": opts_of(mask), "kind": kind}, "detail": detail})
        elif len(samples) < 3 and len(text) < 400 and (mask or len(samples) == 0):
            samples.append({"text": text, "options": opts_of(mask), "observations": len(o), "returned_sha": o[0]["ret"]})
    for e in errors:
        failures.append({"scenario": {"text": "", "options": {}, "kind": "worker"}, "detail": e})
    failures.sort(key=lambda f: (f["scenario"]["kind"] != "returned", len(f["scenario"]["text"])))
    return K.report(len(items), len(nontrivial), RULE, failures, samples,
                    stats={"programs": len(progs), "failures_by_kind": kinds, "by_option_mask(1=filename,2=parser,4=generator)": by_mask,
                           "subprocesses": ((len(items) + CHUNK - 1) // CHUNK) * len(HASHSEEDS), "worker_errors": len(errors)})


FILLER = ["a(1).\na(2).\n", "p(X, Y) :- q(X, Z), r(Z, Y, _).\n", "m(A, B, C, D) :- ( n(D, C) -> o(B, A) ; \\+ n(A, A) ), k(E, F, G), k(G, F, E).\n",
          "len([], z).\nlen([_|T], s(N)) :- len(T, N).\n"]


def replay(sc):
    mask = mask_of(sc.get("options", {}))
    items = [["f%d" % i, t, (i * 3) % 8] for i, t in enumerate(FILLER)]
    items.insert(2, ["target", sc["text"], mask])
    obs, errors = compare(items, threads=6)
    if errors:
        return False, "worker errors: %s" % errors[:2]
    o = obs.get("target", [])
    kind, detail = judge(o)
    if len(o) != EXPECTED_OBS:
        return False, "only %d observations" % len(o)
    return kind is None, (("%s: " % kind) if kind else "") + detail


if __name__ == "__main__":
    if len(sys.argv) == 2 and sys.argv[1] == "_worker":
        worker()
        sys.exit(0)
    sys.exit(K.cli(run, replay))
