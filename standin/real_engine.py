"""Adapter around the real yldprolog engine (the system under test).

Which source tree is used: if the environment variable YLD_REPO_SRC is set its
value is put in front of sys.path; otherwise the normal import path decides
(so PYTHONPATH=/repo/src works); as a last resort /repo/src is tried.
"""

import os
import sys

_src = os.environ.get("YLD_REPO_SRC")
if _src:
    sys.path.insert(0, _src)
try:
    import yldprolog  # noqa: F401
except ImportError:                                   # pragma: no cover
    sys.path.insert(0, "/repo/src")
    import yldprolog  # noqa: F401

from yldprolog.engine import YP, Atom, Variable, Functor, get_value, unify   # noqa: E402
from yldprolog.compiler import compile_prolog_from_string                    # noqa: E402

_here = os.path.dirname(os.path.abspath(__file__))
if _here not in sys.path:
    sys.path.insert(0, _here)

from terms import (NIL, to_source, clause_to_source, vars_of, canon, name_arity)   # noqa: E402

YLD_FILE = yldprolog.__file__


class _Ctx(object):
    """compiler options: everything quiet"""
    debug_filename = ''
    debug_parser = False
    debug_generator = False
    current_source_file = ''
    outf = None


_compile_cache = {}


def compile_source(src, cache=True):
    """Prolog source text -> python code text.  The compiler is by far the
    slowest part of a differ run (about 20 ms per call), so identical source
    texts are compiled once per process (only successful compilations are
    remembered)."""
    if cache:
        code = _compile_cache.get(src)
        if code is not None:
            return code
    code = compile_prolog_from_string(src, _Ctx)
    if cache:
        if len(_compile_cache) > 5000:
            _compile_cache.clear()
        _compile_cache[src] = code
    return code


def exc_entry(e):
    return ("EXC", type(e).__name__, str(e)[:200])


class RealEngine(object):
    def __init__(self):
        self.yp = YP()
        self.raw = self.yp
        self._helper = 0

    # -------------------------------------------------------------- loading
    def consult(self, program_or_source, overwrite=True):
        """compile and load; raises whatever the compiler / loader raises"""
        src = program_or_source if isinstance(program_or_source, str) else to_source(program_or_source)
        code = compile_source(src)
        self.yp.load_script_from_string(code, overwrite=overwrite)
        return code

    def register_facts(self, name, rows):
        """re-implement the fact predicate name/len(row) as a registered python
        generator: loops over the rows and unifies each argument with
        yldprolog.engine.unify in nested for-loops."""
        rows = [tuple(r) for r in rows]
        arity = len(rows[0]) if rows else 0
        to_engine = self.to_engine

        def native(*args):
            for row in rows:
                vm = {}
                vals = [to_engine(t, vm) for t in row]
                if len(args) == 1:
                    for _l1 in unify(args[0], vals[0]):
                        yield False
                elif len(args) == 2:
                    for _l1 in unify(args[0], vals[0]):
                        for _l2 in unify(args[1], vals[1]):
                            yield False
                elif len(args) == 3:
                    for _l1 in unify(args[0], vals[0]):
                        for _l2 in unify(args[1], vals[1]):
                            for _l3 in unify(args[2], vals[2]):
                                yield False
                else:
                    yield from _unify_all(args, vals, 0)

        self.yp.register_function(name, native, arity=arity)

    # ----------------------------------------------------- term conversion
    def to_engine(self, t, varmap):
        """tuple term -> engine term.  varmap: ("var",name) -> Variable, shared by
        the caller over one query; every `_` becomes a new variable."""
        tag = t[0]
        if tag == "atom":
            return self.yp.atom(t[1])
        if tag == "int":
            # a new int object for every occurrence (outside CPython's small-int cache): equal numbers are not identical objects,
            # as when they come from separately compiled scripts or from input
            return int(str(t[1]))
        if tag == "var":
            if t[1] == "_":
                return self.yp.variable()
            v = varmap.get(t)
            if v is None:
                v = varmap[t] = self.yp.variable()
            return v
        if tag == "fun":
            if t[1] == "." and len(t[2]) == 2:
                return self.yp.listpair(self.to_engine(t[2][0], varmap), self.to_engine(t[2][1], varmap))
            return self.yp.functor(t[1], [self.to_engine(a, varmap) for a in t[2]])
        raise ValueError("not a term: %r" % (t,))

    def from_engine(self, x, names=None):
        """engine term -> tuple term, dereferencing at every level (so the result
        does not depend on how deep get_value itself resolves).  Every distinct
        unbound Variable object maps to a distinct ("var", "_E<n>")."""
        if names is None:
            names = {}
        return _from_engine(x, names, 0)

    # ---------------------------------------------------------------- query
    def answers(self, goal, max_answers=None):
        """ordered list of canon() tuples (same form as RefEngine.answers).
        goal: ("call", term) is run directly with yp.query; any other goal body
        is wrapped in a helper clause q__N(V1..Vn) :- Body. that is compiled and
        loaded first.  An exception ends the list with ("EXC", type, message)."""
        qvars = vars_of(goal)
        out = []
        q = None
        try:
            if goal[0] == "call" and goal[1][0] in ("atom", "fun"):
                name, _ = name_arity(goal[1])
                targs = goal[1][2] if goal[1][0] == "fun" else ()
            else:
                self._helper += 1
                name = "q__%d" % self._helper
                head = ("fun", name, tuple(qvars)) if qvars else ("atom", name)
                self.consult(clause_to_source((head, goal)) + "\n")
                targs = tuple(qvars)
            vm = {}
            eargs = [self.to_engine(a, vm) for a in targs]
            evars = [vm[v] for v in qvars]
            given = list(eargs)
            q = self.yp.query(name, eargs)
            for _ in q:
                names = {}
                out.append(canon(tuple(_from_engine(v, names, 0) for v in evars)))
                # the caller's argument list is the caller's: still the same objects at every answer
                if len(eargs) != len(given) or any(a is not b for a, b in zip(eargs, given)):
                    out.append(("EXC", "ArgumentListChanged", "query() changed the argument list it was given"))
                    break
                if max_answers is not None and len(out) >= max_answers:
                    break
        except Exception as e:          # includes RecursionError
            out.append(exc_entry(e))
        finally:
            if q is not None:
                try:
                    q.close()
                except Exception as e:
                    out.append(exc_entry(e))
        return out

    # --------------------------------------------------- database (API level)
    def assertz(self, term):
        name, _ = name_arity(term)
        vm = {}
        self.yp.assert_fact(self.yp.atom(name), [self.to_engine(a, vm) for a in (term[2] if term[0] == "fun" else ())])

    def asserta(self, term):
        name, _ = name_arity(term)
        vm = {}
        self.yp.assert_fact(self.yp.atom(name), [self.to_engine(a, vm) for a in (term[2] if term[0] == "fun" else ())], False)

    def retract(self, term, k=None):
        """runs retract(term) through yp.query; returns the list of canon()ed
        1-tuples (the instantiated term per answer); abandons (closes) the
        query after k answers if k is not None."""
        vm = {}
        et = self.to_engine(term, vm)
        out = []
        q = None
        try:
            q = self.yp.query("retract", [et])
            if k is not None and k <= 0:
                return out
            for _ in q:
                out.append(canon((_from_engine(et, {}, 0),)))
                if k is not None and len(out) >= k:
                    break
        except Exception as e:
            out.append(exc_entry(e))
        finally:
            if q is not None:
                try:
                    q.close()
                except Exception as e:
                    out.append(exc_entry(e))
        return out

    def retractall(self, term):
        vm = {}
        try:
            return [() for _ in self.yp.query("retractall", [self.to_engine(term, vm)])]
        except Exception as e:
            return [exc_entry(e)]

    def clear(self):
        self.yp.clear()

    def facts(self, name, arity):
        """database read back with an all-variable query"""
        args = tuple(("var", "V%d" % i) for i in range(arity))
        t = ("fun", name, args) if arity else ("atom", name)
        return [a if a and a[0] == "EXC" else canon((_subst_answer(t, a),))
                for a in self.answers(("call", t))]


def _subst_answer(t, ans):
    if t[0] == "atom":
        return t
    return ("fun", t[1], tuple(ans))


def _unify_all(args, vals, i):
    if i == len(args):
        yield False
        return
    for _ in unify(args[i], vals[i]):
        yield from _unify_all(args, vals, i + 1)


def _from_engine(x, names, depth):
    if depth > 400:
        raise RecursionError("engine term too deep (cyclic?)")
    x = get_value(x)
    if isinstance(x, Variable):
        n = names.get(id(x))
        if n is None:
            n = names[id(x)] = ("var", "_E%d" % len(names))
        return n
    if isinstance(x, Atom):
        return ("atom", x.name())
    if isinstance(x, Functor):
        return ("fun", x._name, tuple(_from_engine(a, names, depth + 1) for a in x._args))
    if isinstance(x, bool):
        return ("atom", "<bool %r>" % x)
    if isinstance(x, int):
        return ("int", x)
    return ("atom", "<python %r>" % (x,))


# --------------------------------------------------- source -> tuple (checks)
def parse_source(src):
    """Parse with the REAL yldprolog parser/visitor and convert to the tuple
    representation (used to check that terms.to_source round-trips)."""
    import antlr4
    from yldprolog.prologLexer import prologLexer
    from yldprolog.prologParser import prologParser
    from yldprolog import yp_prolog_visitor as V

    lexer = prologLexer(antlr4.InputStream(src))
    parser = prologParser(antlr4.CommonTokenStream(lexer))
    tree = parser.program()
    if parser.getNumberOfSyntaxErrors():
        raise ValueError("syntax errors")
    visitor = V.YPPrologVisitor(_Ctx)
    out = []
    for i, _x in enumerate(tree.clauseordirective()):
        r = visitor.visitClauseordirective(tree.clauseordirective(i))
        if isinstance(r, V.Clause):
            out.append((_conv_pred(r.head, V)[1], _conv_pred(r.body, V)))

    return out


def _conv_term(t, V):
    if isinstance(t, V.AnonymousVariableTerm):
        return ("var", "_")
    if isinstance(t, V.VariableTerm):
        return ("var", t.varname)
    if isinstance(t, V.NumeralTerm):
        return ("int", int(t.num))
    if isinstance(t, V.Atom):
        return ("atom", t.value)
    if isinstance(t, V.Functor):
        if not t.args:
            return ("atom", t.name.value)
        return ("fun", t.name.value, tuple(_conv_term(a, V) for a in t.args))
    if isinstance(t, V.ListTerm):
        r = NIL
        for x in reversed(t.items):
            r = ("fun", ".", (_conv_term(x, V), r))
        return r
    if isinstance(t, V.ListPairTerm):
        return ("fun", ".", (_conv_term(t.head, V), _conv_term(t.tail, V)))
    raise ValueError("unknown term node %r" % (t,))


def _conv_pred(p, V):
    if isinstance(p, V.TruePredicate):
        return ("true",)
    if isinstance(p, V.FailPredicate):
        return ("fail",)
    if isinstance(p, V.CutPredicate):
        return ("cut",)
    if isinstance(p, V.Predicate):
        return ("call", _conv_term(p.functor, V))
    if isinstance(p, V.ConjunctionPredicate):
        return (",", _conv_pred(p.lhs, V), _conv_pred(p.rhs, V))
    if isinstance(p, V.DisjunctionPredicate):
        return (";", _conv_pred(p.lhs, V), _conv_pred(p.rhs, V))
    if isinstance(p, V.IfThenPredicate):
        return ("->", _conv_pred(p.condition, V), _conv_pred(p.action, V))
    if isinstance(p, V.NegationPredicate):
        return ("\\+", _conv_pred(p.pred, V))
    raise ValueError("unknown predicate node %r" % (p,))
