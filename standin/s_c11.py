#!/usr/bin/env python3
"""s_c11 -- bounded stand-in for C11: "whatever the compiler accepts loads and defines exactly
the program's predicates".

    python s_c11.py run <seed> <count>        one JSON object on stdout, exit 0
    python s_c11.py replay <file.json>        {"ok":..,"detail":..}, exit 0 iff the case passes

For every input text the library compiler ACCEPTS (compile_prolog_from_string returns a string
without raising), all of the following must hold; a rejected text (any exception) is no failure:
  1. compile(output, .., 'exec') succeeds;
  2. the module level of ast.parse(output) consists of FunctionDef nodes only, all names distinct;
  3. YP().load_script_from_string(output) succeeds on a fresh engine;
  4. the set of eval_context keys that are new or re-bound by the load equals
     { "<name>_<arity>" : (name, arity) in g4reader.clause_keys(text) }  and no key disappeared
     (keys are compared before/after on the same fresh engine: a program may legitimately
     re-define e.g. once/1, which re-binds the existing key once_1);
  5. every such value is a generator function (inspect.isgeneratorfunction) with exactly
     `arity` positional parameters.
If the independent reader (g4reader) cannot read a text the compiler accepted, the expected set
is unknown: reported as a failure of kind "reader_rejects" (it is a C10 matter, but it must not
go unnoticed here).

  6. in a second engine that was asked for each of these predicates before the load, a query of name/arity after the load calls
     the loaded function (detected at its first line by a trace function; the body is not run); API names are skipped.

Scenario JSON: {"text": <source text>, "origin": <free text>}.
Inputs: a hand-written boundary corpus, parametrised shape families (long conjunctions, deep
if-then-else / disjunction / negation nesting, wide heads, deep terms, long lists, big numerals,
many clauses) and programs of gen families F1/F2/F3 with the variables renamed to
reserved-looking names and the numerals re-spelled with leading zeros.
"""

import ast
import inspect
import random
import re
import sys

import s_compiler_common as K
from s_compiler_common import g4reader

RULE = ("evaluation = one source text given to compile_prolog_from_string; non-trivial = distinct "
        "source texts the compiler accepted (only those exercise the property: output compiled, "
        "AST inspected, loaded into a fresh YP, eval_context delta compared with "
        "g4reader.clause_keys); rejected texts are counted in stats.rejected_by_exception")

# ------------------------------------------------------------------------------ boundary corpus
CORPUS = [
    # empty / trivial programs
    "", "\n", "   \n\t\n", "% only a comment\n", "% c1\n% c2\n", ":- foo.\n", ":- foo(X, _).\n:- bar.\n",
    ":- true.\n", ":- fail.\n", ":- !.\n",
    # zero arity, same name different arities, non-contiguous clauses
    "p.\n", "p.\np.\np.\n", "p :- true.\n", "p().\n", "p() :- q().\n", "p.\np(a).\np(a,b).\np(a,b,c).\n",
    "a.\nb.\na.\nb(x).\na.\n", "p_1.\np(a).\n", "p_1(a).\np(a,b).\np_1_0.\n", "p__.\n_p :- x.\n",
    # bodies that can never succeed
    "p(a) :- fail.\np(b) :- fail.\n", "p(a) :- fail, q.\np(b, c) :- fail.\np(b) :- fail.\n", "p(1) :- fail.\np([]) :- fail.\np(f(a)) :- fail.\n",
    "p(a) :- fail.\np(b) :- fail.\nq(X) :- p(X).\n", "p(a) :- ( fail ; fail ).\np(b) :- \\+ true.\n",
    "p :- fail.\n", "p :- q, fail.\n", "p :- fail, q.\n", "p :- \\+ true.\n", "p :- \\+ \\+ fail.\n",
    "p :- fail, fail.\n", "p :- fail ; fail.\n", "p :- ( fail -> true ; fail ).\n", "p :- ( true -> fail ).\n",
    "p :- !, fail.\n", "p :- fail, !.\n", "p :- q, !, fail.\n", "p(X) :- X = a, fail.\n", "p :- ( fail ; fail ), q.\n",
    "p :- ( q -> fail ; fail ), r.\n", "p :- \\+ ( true ; fail ).\n", "p :- ( fail -> fail ).\n", "p :- \\+ fail, fail.\n",
    "p :- ( fail , q ; fail , r ).\n", "p :- true, fail.\n", "p :- ( true ; true ), fail.\n",
    # cut shapes
    "p :- !.\n", "p :- !, !.\n", "p :- q, !.\n", "p :- ( q ; ! ).\n", "p :- ( ! ; q ), r.\n", "p :- ( q -> ! ; r ).\n",
    "p :- \\+ !.\n", "p :- ( ! -> q ; r ).\n",
    # control shapes
    "p :- ( a -> b ).\n", "p :- ( a -> b ; c ).\n", "p :- a -> b ; c.\n", "p :- a ; b -> c.\n", "p :- a , b ; c , d.\n",
    "p :- ( a -> b ; c -> d ; e ).\n", "p :- ( a -> b ), c.\n", "p :- ( ( a -> b ) -> c ; d ).\n", "p :- ( a ; b -> c ), d.\n",
    "p :- \\+ a, \\+ b.\n", "p :- \\+ ( a, b ).\n", "p :- \\+ ( a -> b ; c ).\n", "p :- \\+ \\+ \\+ a.\n", "p :- ((((a)))).\n",
    "p :- true.\n", "p :- true, true, true.\n", "p :- ( true -> true ; true ).\n",
    # numerals
    "foo(0).\n", "foo(007).\n", "foo(00).\n", "foo(0000000000).\n", "foo(09).\n", "foo(0x10).\n", "foo(0b1).\n", "foo(0o7).\n",
    "foo(1_000).\n", "foo(1e5).\n", "foo(12345678901234567890123456789012345678901234567890).\n", "foo(" + "9" * 4300 + ").\n",
    "foo(" + "9" * 4301 + ").\n", "foo(" + "0" * 5000 + "1).\n", "foo(- 1).\n", "foo(-1).\n", "foo(+ 1).\n", "foo(- - 1).\n",
    "foo(1, 01, 001).\n", "p :- q(007).\n", "p(X) :- X = 010.\n", "3.\n", "3(x).\n", "foo(3(x)).\n", "p :- 3.\n", "p :- 3(x).\n",
    "foo(a/2).\n", "foo/2.\n", "p :- foo/2.\n", ":- foo/2.\n", "foo(a/02).\n",
    # variable names
    "foo(True, False, None).\n", "foo(ATOM_NIL, __debug__).\n", "foo(True_, False_, None_, ATOM_NIL_, __debug___).\n",
    "foo(True, True_, True__, True___).\n", "foo(None, None_, None__) :- bar(None___, None).\n",
    "foo(__debug__, __debug___, __debug____).\n", "foo(ATOM_NIL) :- bar(ATOM_NIL, []).\n", "foo([]) :- bar(ATOM_NIL).\n",
    "foo(_x, X1, _1, __, ___, _).\n", "foo(_, _, _) :- bar(_, _).\n", "foo(__builtins__, __import__, __name__).\n",
    "foo(X) :- bar(True), baz(True, False, None, X).\n", "p :- q(True), r(False), s(None), t(__debug__), u(ATOM_NIL).\n",
    "foo(Truex, NoneType, Falsey, ATOM_NILL, __debug__x).\n", "foo(L1, L2, Arg1, Arg2, DoBreak, CutIf1).\n",
    "foo(X, X, X).\n", "foo(True, True).\n", "foo(None, f(None), [None|None_]).\n", "foo(A) :- ( q(True) -> r(True) ; s(None) ).\n",
    "foo([True|False]).\n", "foo([a|None]).\n", "p :- X = True, Y = None, X = Y.\n", "foo(X) :- \\+ bar(None, X).\n",
    "foo(Query, Atom, Variable, Unify, Functor, Makelist, Listpair).\n", "foo(True) :- ( bar(False) ; baz(None) ), qux(__debug__).\n",
    # atoms that look like engine / python names
    "query.\n", "query(a, b).\n", "atom(x).\nvariable(x).\nfunctor(x).\nunify(a, a).\n", "makelist(a).\nlistpair(a, b).\nmatch_dynamic(a, b).\n",
    "def.\nclass(x).\nimport(y).\nlambda.\nyield(z).\n", "once(X) :- foo(X).\n", "findall(A, B, C) :- foo(A, B, C).\n", "call(X) :- foo(X).\n",
    "call_n.\n", "retract(x).\n", "assertz(x).\n", "doBreak.\ncutIf1.\nl1(a).\narg1(b).\nx1.\n", "print(hello).\nexec(x).\neval(y).\n",
    "p :- query(a), atom(b), variable(C), unify(C, b).\n", "none.\nnone(x).\n", "truex.\nfailx.\ntrue_.\nfail_(a).\n",
    # quoted names / operators as heads (the compiler may reject)
    "'hello world'(a).\n", "'hello'(a).\n", "'Hello'(a).\n", "'hello'.\n", "'_x'(a).\n", "'p q'.\n", "''.\n", "''(a).\n", "'p\\'q'(a).\n",
    "'foo\nbar'(a).\n", "'foo\n'(a).\n", "'1abc'(a).\n", "'a-b'(x).\n", "'def'(x).\n", "'a.b'(x).\n", "'\u00e9t\u00e9'(x).\n", "'p(x):\n  pass\ndef q'(a).\n",
    "'true'.\n", "'fail'(x).\n", "'!'.\n", "'[]'.\n", "'[]'(a).\n", "'$CUTIF'(x).\n", "p :- '$CUTIF'(x).\n", "p :- '$CUTIF'.\n", "foo('$CUTIF'(x)).\n",
    "a = b.\n", "X = Y.\n", "=(a, b).\n", "a \\= b.\n", "a == b :- true.\n", "a < b.\n", "a >= b :- c.\n", "- a.\n", "+ a :- b.\n", "- (a) :- b.\n",
    "true.\n", "fail.\n", "!.\n", "true :- a.\n", "fail :- a.\n", "! :- a.\n", "X.\n", "X :- a.\n", "_.\n", "[].\n", "[a].\n", "[a|T] :- b.\n", "(a).\n", "(a) :- b.\n",
    "((a(X))) :- b(X).\n", "p :- X.\n", "p :- [a].\n", "p :- (X).\n", "p :- \\+ X.\n", "p :- 'q r'(a), 'q r'.\n", "p :- ''.\n", "p :- ''(a).\n",
    "p :- a = b, a \\= b, a == b, a \\== b, a < b, a > b, a =< b, a >= b.\n", "p :- - a.\n", "p :- + a, - b.\n", "p(X) :- =(X, a).\n",
    # terms
    "foo([]).\n", "foo([[]]).\n", "foo([a|T]).\n", "foo([a,b|T]).\n", "foo([a,b,c|_]).\n", "foo([[a|T]|T]).\n", "foo('[]').\n", "foo('.'(a, [])).\n",
    "foo(f()).\n", "foo(f(g(), h())).\n", "foo('a b'(c)).\n", "foo(''(a)).\n", "foo(- a, + b, - - c).\n", "foo(a = b, (c = d)).\n", "foo((a)).\n",
    "foo(((((a))))).\n", "foo('it\\'s').\n", "foo('a\nb').\n", "foo('\\n').\n", "foo('\"').\n", "foo('\\\\').\n", "foo('#').\n",
    # comments and layout
    "p. % trailing comment\nq.\n", "p.% c\n", "p .\n", "p\n.\n", "p:-q.\n", "p:-\nq\n,\nr\n.\n", "p.q.r.\n", "p(a).q(b).\n", "foo(a) . foo(b) .\n",
    "p.\r\nq.\r\n", "p.\tq.\n", "% c\np. % c\n% c\n",
    # missing final newline
    "p.", "p :- q.", "foo(a). foo(b).",
    # many distinct predicates
    "".join("p%d(a%d).\n" % (i, i) for i in range(60)),
    "".join("p(a%d).\n" % i for i in range(200)),
    "".join("p(%s).\n" % ",".join("a" for _ in range(n)) for n in range(1, 40)),
    # term nesting depth (every compound level costs two bracket levels in the output)
    "p(" + "f(" * 50 + "X" + ")" * 50 + ").\n", "p(" + "f(" * 98 + "X" + ")" * 98 + ").\n", "p(" + "f(" * 99 + "X" + ")" * 99 + ").\n",
    "p(" + "f(" * 100 + "X" + ")" * 100 + ").\n", "p(X) :- q(" + "f(" * 150 + "X" + ")" * 150 + ").\n",
    "p(" + "[" * 99 + "a" + "]" * 99 + ").\n", "p(" + "[" * 100 + "a" + "]" * 100 + ").\n", "p(" + "- " * 120 + "a).\n",
    "p(" + "(" * 300 + "a" + ")" * 300 + ").\n", "p :- " + "(" * 150 + "a" + ")" * 150 + ".\n",
]


# ------------------------------------------------------------------------------ shape families
def _conj(n, rng):
    goals = ["g%d(X%d)" % (i, i % 5) for i in range(n)]
    return "p(X0) :- " + ", ".join(goals) + ".\n"


def _nest(kind, d, rng):
    """nested control constructs of depth d"""
    body = "z(X)"
    for i in range(d):
        k = kind if kind != "mix" else rng.choice(["ite", "it", "or", "not", "and", "itel"])
        if k == "ite":
            body = "( c%d(X) -> %s ; e%d(X) )" % (i, body, i)
        elif k == "itel":
            body = "( c%d(X) -> t%d(X) ; %s )" % (i, i, body)
        elif k == "itec":
            body = "( %s -> t%d(X) ; e%d(X) )" % (body, i, i)
        elif k == "it":
            body = "( c%d(X) -> %s )" % (i, body)
        elif k == "or":
            body = "( a%d(X) ; %s )" % (i, body)
        elif k == "orl":
            body = "( %s ; a%d(X) )" % (body, i)
        elif k == "not":
            body = "\\+ %s" % body
        elif k == "notp":
            body = "\\+ ( %s, n%d )" % (body, i)
        elif k == "and":
            body = "( b%d(X), %s )" % (i, body)
        elif k == "andl":
            body = "( %s, b%d(X) )" % (body, i)
    tail = rng.choice(["", "", ", w(X)", ", w(X), !", ", fail"])
    return "p(X) :- " + body + tail + ".\n"


def _wide_head(n, rng):
    args = []
    for i in range(n):
        r = rng.random()
        if r < 0.5:
            args.append("f%d(X%d, a)" % (i, i))
        elif r < 0.7:
            args.append("[X%d|T%d]" % (i, i))
        elif r < 0.8:
            args.append("a%d" % i)
        elif r < 0.9:
            args.append("%d" % i)
        else:
            args.append("X%d" % (i // 2))
    body = rng.choice(["", " :- q(X0)", " :- q(X0), r(X1, _)", " :- fail"])
    return "p(" + ", ".join(args) + ")" + body + ".\n"


def _deep_term(kind, d, rng):
    t = "X"
    for i in range(d):
        if kind == "fun":
            t = "f(%s)" % t
        elif kind == "list":
            t = "[%s]" % t
        elif kind == "pair":
            t = "[a|T]" if i == 0 else "[%s|T]" % t
        elif kind == "paren":
            t = "(%s)" % t
        elif kind == "minus":
            t = "- %s" % t
        elif kind == "eq":
            t = "(a = %s)" % t
        else:
            t = rng.choice(["f(%s)", "[%s]", "g(a, %s)", "[b, %s]", "- %s", "(%s)"]) % t
    where = rng.choice(["head", "body", "both"])
    if where == "head":
        return "p(%s).\n" % t
    if where == "body":
        return "p(X) :- q(%s).\n" % t
    return "p(%s) :- q(%s).\n" % (t, t)


def _many_vars(n, rng):
    vs = ["V%d" % i for i in range(n)]
    rng.shuffle(vs)
    return "p(%s) :- q(%s), r(%s).\n" % (", ".join(vs[: n // 3]), ", ".join(vs[n // 3:]), ", ".join(reversed(vs)))


def shape(rng):
    fam = rng.choice(["conj", "conj", "nest", "nest", "nest", "head", "head", "term", "term", "list", "num",
                      "clauses", "vars", "disj", "mixconj"])
    if fam == "conj":
        n = rng.randint(1, 40)
        return "conj%d" % n, _conj(n, rng)
    if fam == "nest":
        kind = rng.choice(["ite", "itel", "itec", "it", "or", "orl", "not", "notp", "and", "andl", "mix", "mix", "mix"])
        d = rng.randint(1, 15)
        if kind in ("itec", "orl") and d > 9:          # the compiler duplicates the continuation: 2^d code
            d = rng.randint(1, 9)
        return "nest-%s%d" % (kind, d), _nest(kind, d, rng)
    if fam == "head":
        n = rng.randint(1, 30)
        return "head%d" % n, _wide_head(n, rng)
    if fam == "term":
        kind = rng.choice(["fun", "list", "pair", "paren", "minus", "eq", "mix"])
        d = rng.choice([1, 2, 5, 10, 20, 40, 60, 80, 95, 99, 100, 101, 120, 150, 199, 200, 250, 300])
        return "term-%s%d" % (kind, d), _deep_term(kind, d, rng)
    if fam == "list":
        n = rng.choice([0, 1, 2, 50, 255, 256, 1000, 3000])
        return "list%d" % n, "p([%s]).\n" % ",".join("e%d" % (i % 7) for i in range(n))
    if fam == "num":
        n = rng.choice([1, 2, 18, 19, 20, 100, 640, 1000, 4299, 4300, 4301, 6000])
        lead = "0" * rng.choice([0, 0, 1, 5])
        return "num%d" % n, "p(%s%s) :- q(%s%s).\n" % (lead, rng.choice("123456789") * n, lead, "7" * n)
    if fam == "clauses":
        n = rng.choice([1, 2, 10, 100, 400])
        k = rng.randint(1, 4)
        return "clauses%d" % n, "".join("p%d(a%d) :- q%d(X), r(X, %d).\n" % (i % k, i, i, i) for i in range(n))
    if fam == "vars":
        n = rng.randint(3, 60)
        return "vars%d" % n, _many_vars(n, rng)
    if fam == "disj":
        n = rng.randint(2, 60)
        return "disj%d" % n, "p(X) :- " + " ; ".join("a%d(X)" % i for i in range(n)) + ".\n"
    # conjunction of small control constructs (each (A;B),C doubles the continuation)
    n = rng.randint(1, 7)
    parts = [rng.choice(["( a%d ; b%d )", "( a%d -> b%d ; c )", "\\+ a%d(b%d)", "( a%d -> b%d )", "g%d(%d)"]) % (i, i)
             for i in range(n)]
    return "mixconj%d" % n, "p :- " + ", ".join(parts) + ".\n"


# ------------------------------------------------------------------------------ evaluation
def check(text):
    """-> dict(accepted=bool, problems=[..], ...)"""
    st = K.try_compile(text)
    if st["status"] != "ok":
        return {"accepted": False, "exc": st["exc"], "msg": st["msg"], "problems": []}
    code = st["code"]
    problems = []
    # 1. python accepts it
    try:
        compile(code, "<c11>", "exec")
    except BaseException as e:      # noqa: B902  SyntaxError, ValueError, RecursionError, MemoryError
        if isinstance(e, (KeyboardInterrupt, SystemExit)):
            raise
        problems.append("output is not loadable Python: compile() raised %s: %s" % (type(e).__name__, str(e)[:160]))
    # 2. module level = function definitions only
    defs = None
    if not problems:
        try:
            tree = ast.parse(code)
            defs = []
            for node in tree.body:
                if isinstance(node, ast.FunctionDef):
                    defs.append(node.name)
                else:
                    problems.append("module-level statement that is not a function definition: %s (line %d)"
                                    % (type(node).__name__, getattr(node, "lineno", 0)))
            if len(set(defs)) != len(defs):
                problems.append("a function is defined more than once at module level: %r" % sorted(
                    d for d in set(defs) if defs.count(d) > 1))
        except BaseException as e:  # noqa: B902
            if isinstance(e, (KeyboardInterrupt, SystemExit)):
                raise
            problems.append("ast.parse raised %s: %s" % (type(e).__name__, str(e)[:160]))
    # expected predicates, from the independent reader
    expected = None
    try:
        keys = g4reader.clause_keys(text)
        expected = {}
        for name, arity in keys:
            expected["%s_%d" % (name, arity)] = arity
    except g4reader.PlSyntaxError as e:
        problems.append("reader_rejects: the compiler accepted a text the independent reader cannot read (%s)" % e)
    except RecursionError:
        problems.append("reader_rejects: independent reader hit the recursion limit")
    # 3.-5. load into a fresh engine
    if not [p for p in problems if not p.startswith("reader_rejects")]:
        from yldprolog.engine import YP
        yp = YP()
        before = dict(yp.eval_context)
        try:
            yp.load_script_from_string(code)
        except BaseException as e:  # noqa: B902
            if isinstance(e, (KeyboardInterrupt, SystemExit)):
                raise
            problems.append("load_script_from_string raised %s: %s" % (type(e).__name__, str(e)[:160]))
        else:
            after = yp.eval_context
            changed = set(k for k in after if k not in before or after[k] is not before[k])
            gone = set(before) - set(after)
            if gone:
                problems.append("eval_context keys disappeared: %r" % sorted(gone))
            if expected is not None:
                exp = set(expected)
                if changed != exp:
                    problems.append("defined names differ: expected %r, new/re-bound eval_context keys %r "
                                    "(missing %r, unexpected %r)" % (sorted(exp)[:12], sorted(changed)[:12],
                                                                     sorted(exp - changed)[:12], sorted(changed - exp)[:12]))
                if defs is not None and set(defs) != exp:
                    problems.append("module-level defs %r differ from the clause heads %r" % (sorted(defs)[:12], sorted(exp)[:12]))
                for k in sorted(changed & exp):
                    f = after[k]
                    if not inspect.isgeneratorfunction(f):
                        problems.append("%s is not a generator function: %r" % (k, f))
                        continue
                    ps = list(inspect.signature(f).parameters.values())
                    if len(ps) != expected[k] or any(p.kind != p.POSITIONAL_OR_KEYWORD or p.default is not p.empty for p in ps):
                        problems.append("%s takes parameters %s, expected %d plain positional ones" % (k, ps, expected[k]))
                # 6. ... and loading makes them callable, also in an engine that was asked for them BEFORE the program was loaded
                problems.extend(_callable_after_load(code, expected))
    return {"accepted": True, "problems": problems, "ndefs": len(defs or ()), "code_len": len(code)}


class _Reached(BaseException):
    pass


def _reaches(yp, name, arity, fcode):
    """does yp.query(name, <arity fresh variables>) call the function whose code object is fcode?  The call is aborted at its
    first line (the predicate body never runs)."""
    import sys as _sys
    hit = []

    def tracer(frame, event, arg):
        if event == 'call' and frame.f_code is fcode:
            hit.append(1)
            raise _Reached()
        return None
    q = yp.query(name, [yp.variable() for _ in range(arity)])
    old = _sys.gettrace()
    _sys.settrace(tracer)
    try:
        next(q)
    except _Reached:
        pass
    except StopIteration:
        pass
    except Exception:       # noqa: B902   (an unknown predicate may raise or fail: both are "not reached")
        pass
    finally:
        _sys.settrace(old)
        try:
            q.close()
        except BaseException:      # noqa: B902
            pass
    return bool(hit)


def _callable_after_load(code, expected):
    from yldprolog.engine import YP
    out = []
    keys = sorted(expected)[:8]
    yp = YP()
    names = {}
    for k in keys:
        name = k[:-(len(str(expected[k])) + 1)]
        if name in yp.eval_blacklist:
            continue
        names[k] = name
        # ask for the predicate before it exists (whatever the answer)
        q = yp.query(name, [yp.variable() for _ in range(expected[k])])
        try:
            next(q)
        except BaseException as e:      # noqa: B902
            if isinstance(e, (KeyboardInterrupt, SystemExit)):
                raise
        finally:
            q.close()
    yp.load_script_from_string(code)
    for k, name in names.items():
        f = yp.eval_context.get(k)
        if f is None or not hasattr(f, '__code__'):
            continue
        if not _reaches(yp, name, expected[k], f.__code__):
            out.append("after loading, a query of %s/%d does not call the loaded definition (the engine had been asked for it before "
                       "the load)" % (name, expected[k]))
    return out


def _eval(item):
    origin, text = item
    try:
        r = check(text)
    except BaseException as e:      # noqa: B902   a bug of this driver, keep it visible
        if isinstance(e, (KeyboardInterrupt, SystemExit)):
            raise
        r = {"accepted": True, "problems": ["driver error %s: %s" % (type(e).__name__, str(e)[:200])]}
    r["origin"] = origin
    r["text"] = text
    return r


def build_inputs(seed, count):
    rng = random.Random("c11-%d" % seed)
    items = []
    # the whole boundary corpus from count 300 on, a seeded half-of-count sample below that
    ncorpus = len(CORPUS) if count >= 300 else min(len(CORPUS), max(1, count // 2))
    idx = list(range(len(CORPUS)))
    if ncorpus < len(CORPUS):
        rng.shuffle(idx)
        idx = sorted(idx[:ncorpus])
    for i in idx:
        items.append(("corpus-%d" % i, CORPUS[i]))
    rest = count - len(items)
    nshape = rest * 2 // 5
    for i in range(nshape):
        name, text = shape(rng)
        items.append(("shape-%s" % name, text))
    nfam = count - len(items)
    for ident, text in K.family_texts(seed, nfam):
        mode = rng.random()
        try:
            if mode < 0.75:
                text = K.rename_variables(text, rng, p=rng.choice([1.0, 1.0, 0.5]))
            if mode > 0.15:
                text = K.respell_numerals(text, rng)
        except g4reader.PlSyntaxError:
            pass
        items.append(("gen-%s" % ident, text))
    return items[:count]


def run(seed, count):
    items = build_inputs(seed, count)
    results = K.pmap(_eval, items, procs=8)
    failures = []
    accepted_texts = set()
    rejected = {}
    samples = []
    for r in results:
        if not r["accepted"]:
            rejected[r["exc"]] = rejected.get(r["exc"], 0) + 1
            continue
        accepted_texts.add(r["text"])
        if r["problems"]:
            failures.append({"scenario": {"text": r["text"], "origin": r["origin"]}, "detail": "; ".join(r["problems"])[:900]})
    for pick in ("corpus", "shape", "gen"):
        for r in results:
            if r["origin"].startswith(pick) and r["accepted"] and not r["problems"] and len(r["text"]) < 400 and r.get("ndefs"):
                samples.append({"origin": r["origin"], "text": r["text"], "defs": r["ndefs"]})
                break
    # shortest failing inputs first: they are the ones a human wants to read
    failures.sort(key=lambda f: len(f["scenario"]["text"]))
    classes = {}
    for f in failures:
        k = re.sub(r"line [0-9]+", "line N", f["detail"])[:110]
        classes[k] = classes.get(k, 0) + 1
    return K.report(len(results), len(accepted_texts), RULE, failures, samples,
                    stats={"failure_classes": classes, "accepted": sum(1 for r in results if r["accepted"]),
                           "rejected_by_exception": rejected,
                           "inputs": {"corpus": sum(1 for r in results if r["origin"].startswith("corpus")),
                                      "shape": sum(1 for r in results if r["origin"].startswith("shape")),
                                      "gen": sum(1 for r in results if r["origin"].startswith("gen"))}})


def replay(sc):
    r = check(sc["text"])
    if not r["accepted"]:
        return True, "compiler rejects the text (%s: %s): nothing to check" % (r["exc"], r["msg"])
    if r["problems"]:
        return False, "; ".join(r["problems"])
    return True, "accepted, loads, defines exactly the clause heads (%d defs)" % r["ndefs"]


if __name__ == "__main__":
    sys.exit(K.cli(run, replay))
