#!/usr/bin/env python3
"""s_c19 -- bounded stand-in for C19: "the yldpc command line equals the library; debug options
only add comments".

    python s_c19.py run <seed> <count>
    python s_c19.py replay <file.json>

<count> programs are spread over launches of `/venv/bin/python -m yldprolog.compiler` (1..13
sources per launch, about count/5 launches).  A launch fixes: the sources in order (UTF-8 files in a
scratch directory, at most one of them given as `-` and fed through standard input), one of the 16
combinations of -d/--debug, --debug-parser, --debug-generator, --debug-filename (every third
launch has no flag, the others cycle through the 15 non-empty combinations), and stdout vs
`-o file`.  The launch runs with the scratch directory as cwd and relative file names.

Checks per launch
  valid sources (the library compiles every one of them):
    * exit status 0;
    * expected = concatenation, in order, of compile_prolog_from_file(path) (compile_prolog_from_string
      for the stdin source) with default options;
    * no flag: CLI output (stdout bytes decoded as UTF-8, or the -o file) == expected, exactly;
      with -o the stdout is empty, without -o no file appears;
    * with flags: CLI output with the lines starting with `#` removed == expected with those lines
      removed (lines split the way Python splits physical lines: \\n, \\r\\n, \\r; no other
      normalisation), the CLI output compile()s as Python and has the same AST as expected;
  a launch with one source the library refuses (kind "invalid"):
    * exit status non-zero;
    * if the library raised CompilerError (always the case for texts outside the grammar, judged
      by the independent recogniser g4reader.recognise): stderr contains
      "<file name as given>:<line>:<column>" with the position of the library's exception for that
      file name, and 1 <= line <= number of lines + 1;
  kind "odd_filename": valid sources whose file names contain blanks, `#`, quotes, non-ASCII letters
  or a line break (the file name is an input too: --debug-filename prints it).

Scenario JSON: {"kind": "valid"|"invalid"|"odd_filename",
                "sources": [{"name": file name, "text": source, "via": "file"|"stdin"}, ...],
                "flags": [...], "out": "stdout"|"file"}
"""

import ast
import os
import random
import re
import subprocess
import sys

import s_compiler_common as K
from s_compiler_common import g4reader

RULE = ("evaluation = one source program inside one CLI launch; non-trivial = distinct launches "
        "(sources, flags, output mode, stdin position) that ran to the end of their checks: for valid "
        "launches the CLI output was compared with the concatenated library outputs (exactly without "
        "flags; comment-stripped text + AST + compile() with flags), for invalid launches exit status and "
        "the file:line:column of the diagnostic were checked.  failure_count counts launches.")

FLAG_NAMES = ["--debug-parser", "--debug-generator", "--debug-filename"]


def flag_combo(k, short):
    """k in 0..15: bit 0..2 = the three specific flags, bit 3 = -d"""
    f = [FLAG_NAMES[i] for i in range(3) if k & (1 << i)]
    if k & 8:
        f.insert(0, "-d" if short else "--debug")
    return f


_PHYS_LINE = re.compile(r"[^\r\n]*(?:\r\n|\r|\n)|[^\r\n]+\Z")


def strip_comment_lines(s):
    return "".join(l for l in _PHYS_LINE.findall(s) if not l.startswith("#"))


# ------------------------------------------------------------------------------ one launch
def library_output(path, text, via, name):
    """-> ("ok", code) | ("CompilerError", line, column, str) | ("crash", type, msg)"""
    from yldprolog.compiler import compile_prolog_from_file, compile_prolog_from_string
    from yldprolog.errors import CompilerError
    try:
        if via == "stdin":
            return ("ok", compile_prolog_from_string(text))
        return ("ok", compile_prolog_from_file(path))
    except CompilerError:
        pass
    except BaseException as e:      # noqa: B902
        if isinstance(e, (KeyboardInterrupt, SystemExit)):
            raise
        return ("crash", type(e).__name__, str(e)[:200])
    # once more with the file name the CLI will use, for the text of the diagnostic
    try:
        ctx = K.Ctx(current_source_file=name)
        if via == "stdin":
            compile_prolog_from_string(text, ctx)
        else:
            compile_prolog_from_file(path, ctx)
    except CompilerError as e:
        return ("CompilerError", e.line, e.column, str(e))
    return ("crash", "Flaky", "CompilerError only without a file name")


def run_launch(spec):
    """spec = scenario + {"dir": scratch subdirectory}.  -> dict(problems=[...], checked=bool, info)"""
    d = spec["dir"]
    os.makedirs(d, exist_ok=True)
    problems = []
    stdin_bytes = b""
    args = [K.PY, "-m", "yldprolog.compiler"] + list(spec["flags"])
    outname = "out.py"
    if spec["out"] == "file":
        args += ["-o", outname]
        if spec.get("stale_output"):
            # the output file already exists (a rebuild into the same file): what is written replaces it
            with open(os.path.join(d, outname), "w") as f:
                f.write("# left over from an earlier build\nstale_1 = True\n")
    lib = []
    for s in spec["sources"]:
        path = os.path.join(d, s["name"])
        if s["via"] == "stdin":
            stdin_bytes = s["text"].encode("utf-8")
            args.append("-")
            lib.append(library_output(None, s["text"], "stdin", "-"))
        else:
            with open(path, "wb") as f:
                f.write(s["text"].encode("utf-8"))
            args.append(s["name"])
            lib.append(library_output(path, s["text"], "file", s["name"]))
    p = subprocess.run(args, input=stdin_bytes, stdout=subprocess.PIPE, stderr=subprocess.PIPE, cwd=d, env=K.sub_env(), timeout=600)
    stderr = p.stderr.decode("utf-8", "replace")
    info = {"exit": p.returncode, "argv": args[1:]}
    outpath = os.path.join(d, outname)
    bad = [i for i, r in enumerate(lib) if r[0] != "ok"]
    if bad:
        # ---------------------------------------------------------------- a source does not compile
        i = bad[0]
        s = spec["sources"][i]
        r = lib[i]
        name = "-" if s["via"] == "stdin" else s["name"]
        if p.returncode == 0:
            problems.append("source %d (%r) does not compile in the library (%s) but the CLI exited 0" % (i, name, r[:2]))
        try:
            in_grammar = g4reader.recognise(s["text"])
        except RecursionError:
            in_grammar = None
        if in_grammar is False and r[0] != "CompilerError":
            problems.append("text outside the grammar, but the library raised %s instead of CompilerError" % (r[1],))
        if r[0] == "CompilerError":
            want = "%s:%d:%d" % (name, r[1], r[2])
            if want not in stderr:
                problems.append("stderr does not mention %r; stderr = %r" % (want, stderr[-300:]))
            nlines = s["text"].count("\n") + 1
            if not (1 <= r[1] <= nlines + 1) or r[2] < 0:
                problems.append("reported position %d:%d is outside the text (%d lines)" % (r[1], r[2], nlines))
        info["diagnostic"] = stderr[-200:]
        return {"problems": problems, "checked": True, "info": info}
    # -------------------------------------------------------------------- everything compiles
    expected = "".join(r[1] for r in lib)
    if p.returncode != 0:
        problems.append("exit status %d although the library compiles every source; stderr = %r" % (p.returncode, stderr[-300:]))
        return {"problems": problems, "checked": True, "info": info}
    try:
        stdout = p.stdout.decode("utf-8")
    except UnicodeDecodeError as e:
        problems.append("stdout is not UTF-8: %s" % e)
        stdout = p.stdout.decode("utf-8", "replace")
    if spec["out"] == "file":
        if stdout != "":
            problems.append("-o given but stdout is not empty: %r" % stdout[:120])
        if not os.path.exists(outpath):
            problems.append("-o file was not written")
            return {"problems": problems, "checked": True, "info": info}
        with open(outpath, "rb") as f:
            raw = f.read()
        try:
            got = raw.decode("utf-8")
        except UnicodeDecodeError as e:
            problems.append("-o file is not UTF-8: %s" % e)
            got = raw.decode("utf-8", "replace")
    else:
        got = stdout
        if os.path.exists(outpath):
            problems.append("a file out.py appeared without -o")
    if not spec["flags"]:
        if got != expected:
            problems.append("CLI output differs from the library output: %s" % first_difference(got, expected))
    else:
        g, e = strip_comment_lines(got), strip_comment_lines(expected)
        if g != e:
            problems.append("with %s: after removing the lines that start with '#' the CLI output differs from the library "
                            "output: %s" % (" ".join(spec["flags"]), first_difference(g, e)))
        try:
            compile(got, "<cli>", "exec")
            same_ast = ast.dump(ast.parse(got)) == ast.dump(ast.parse(expected))
            if not same_ast:
                problems.append("with %s: the CLI output is Python but its AST differs from the library output's" % " ".join(spec["flags"]))
        except BaseException as ex:   # noqa: B902
            if isinstance(ex, (KeyboardInterrupt, SystemExit)):
                raise
            problems.append("with %s: the CLI output is not loadable Python: %s: %s" % (" ".join(spec["flags"]), type(ex).__name__, str(ex)[:160]))
        if len(got) < len(expected):
            problems.append("flagged output is shorter than the plain one")
    info["out_chars"] = len(got)
    return {"problems": problems, "checked": True, "info": info}


def first_difference(a, b):
    n = min(len(a), len(b))
    i = next((k for k in range(n) if a[k] != b[k]), n)
    return "at offset %d: CLI %r vs library %r (lengths %d / %d)" % (i, a[max(0, i - 30):i + 40], b[max(0, i - 30):i + 40], len(a), len(b))


def _eval(spec):
    try:
        r = run_launch(spec)
    except BaseException as e:      # noqa: B902
        if isinstance(e, (KeyboardInterrupt, SystemExit)):
            raise
        import traceback
        r = {"problems": ["driver error %s: %s | %s" % (type(e).__name__, str(e)[:200], traceback.format_exc()[-400:])], "checked": False, "info": {}}
    r["scenario"] = dict((k, v) for k, v in spec.items() if k != "dir")
    return r


# ------------------------------------------------------------------------------ inputs
SPECIAL_ATOMS = ["a\nb", "\n", "line1\nline2\nline3\n", "x\n  import os\n", "é", "日本語 テキスト", "naïve café", "\U0001f600", "a\rb", "a\r\nb",
                 "tab\there", "#", "# looks like a comment", "a\n# b\nc", "it's", '"', "'''", "a\x0cb", "a\x0bb", "a\x1cb", "a\x85b", "a b",
                 "a b", "a\x1bb", "Ünïcödé", "def f():\n  return 1\n", "\n\n\n", "ends with newline\n", "\nstarts with newline"]


def special_program(rng):
    lines = []
    for i in range(rng.randint(1, 4)):
        q = K.quote_atom(rng.choice(SPECIAL_ATOMS))
        q2 = K.quote_atom(rng.choice(SPECIAL_ATOMS))
        form = rng.randint(0, 6)
        if form == 0:
            lines.append("s%d(%s).\n" % (i, q))
        elif form == 1:
            lines.append("s%d(X) :- X = %s, t(%s, X).\n" % (i, q, q2))
        elif form == 2:
            lines.append("s%d(f(%s), [%s|T], T).\n" % (i, q, q2))
        elif form == 3:
            lines.append("s%d :- %s(%s), \\+ %s.\n" % (i, q, q2, q2))
        elif form == 4:
            lines.append("s%d(X) :- ( t(%s) -> X = %s ; X = %s(%s) ).\n" % (i, q, q2, q, q2))
        elif form == 5:
            lines.append("%% comment with %s\ns%d(%s). %% trailing é\n" % (rng.choice(["é", "#", "日本"]), i, q))
        else:
            lines.append("s%d(%s(%s)).\r\ns%d(b).\r\n" % (i, q, q2, i))
    return "".join(lines)


PLAIN_EXTRAS = ["", "\n", "% nothing but a comment\n", "p.", "p :- q.", ":- initialization(main).\n", "p :- fail.\n", "p(007, 0, 00).\n",
                "foo(True, None, ATOM_NIL, __debug__, _).\n", "p(X) :- ( a(X) -> b(X) ; c(X) ), \\+ d(X), !.\n"]


def build_programs(seed, count):
    rng = random.Random("c19-prog-%d" % seed)
    nspecial = count * 2 // 5
    nextra = min(len(PLAIN_EXTRAS), max(1, count // 20))
    out = [("special-%d" % i, special_program(rng)) for i in range(nspecial)]
    out += [("extra-%d" % i, t) for i, t in enumerate(rng.sample(PLAIN_EXTRAS, nextra))]
    out += [("gen-" + i, t) for i, t in K.family_texts(seed, count - len(out))]
    rng.shuffle(out)
    return out[:count]


ODD_NAMES = ["sp ace.pl", "unié日.pl", "hash#.pl", "quote'\".pl", "new\nline.pl", "tab\there.pl", "new\nimport os\n.pl", "cr\rx.pl"]


def build_launches(seed, count):
    from corrupt import corruptions
    rng = random.Random("c19-%d" % seed)
    progs = build_programs(seed, count)
    launches = []
    i = 0
    k = 0
    while i < len(progs):
        n = rng.choice([1, 1, 2, 3, 5, 8, 13])
        group = progs[i:i + n]
        i += len(group)
        sources = [{"name": "s%d_%d.pl" % (k, j), "text": t, "via": "file"} for j, (ident, t) in enumerate(group)]
        if rng.random() < 0.35:
            sources[rng.randrange(len(sources))]["via"] = "stdin"
        flags = [] if k % 3 == 0 else flag_combo(1 + ((k - k // 3 - 1 + seed) % 15), short=(k % 2 == 0))
        kind = "valid"
        if rng.random() < 0.15:
            # replace one source by a corruption the independent recogniser puts outside the grammar
            j = rng.randrange(len(sources))
            base = sources[j]["text"] or "p(X) :- q(X).\n"
            for ckind, ctext in corruptions(base, rng, 12):
                try:
                    if not g4reader.recognise(ctext):
                        sources[j]["text"] = ctext
                        kind = "invalid"
                        break
                except RecursionError:
                    continue
        launches.append({"kind": kind, "sources": sources, "flags": flags, "out": "file" if rng.random() < 0.4 else "stdout"})
        k += 1
    # file names are an input as well
    if count >= 60:
        texts = ["p(a).\n", "q(X) :- p(X).\n"]
        for n, name in enumerate(ODD_NAMES):
            fl = [["--debug-filename"], ["-d"], ["--debug-filename", "--debug-parser"]][(n + seed) % 3]
            launches.append({"kind": "odd_filename", "sources": [{"name": name, "text": texts[n % 2], "via": "file"}], "flags": fl,
                             "out": "stdout" if n % 2 else "file"})
        launches.append({"kind": "odd_filename", "sources": [{"name": name, "text": texts[n % 2], "via": "file"} for n, name in enumerate(ODD_NAMES)],
                         "flags": [], "out": "stdout"})
        # an atom with a NUL character (Python source text must not contain one, escaped it may)
        # (with debug flags the NUL ends up inside a COMMENT line, which the property allows; CPython refuses NUL anywhere
        #  in source text, so the flagged variants are not generated)
        for fl in ([],):
            launches.append({"kind": "valid", "sources": [{"name": "nul.pl", "text": "z('a\x00b').\n", "via": "file"}], "flags": fl, "out": "stdout"})
        # the same source given more than once: its code is written once per occurrence, in the order given
        rep_a = {"name": "rep_a.pl", "text": "a(1).\na(X) :- b(X).\n", "via": "file"}
        rep_b = {"name": "rep_b.pl", "text": "b(2).\n", "via": "file"}
        launches.append({"kind": "valid", "sources": [dict(rep_a), dict(rep_b), dict(rep_a)], "flags": [], "out": "stdout"})
        launches.append({"kind": "valid", "sources": [dict(rep_b), dict(rep_b), dict(rep_a), dict(rep_b)], "flags": ["--debug-filename"], "out": "file"})
        launches.append({"kind": "valid", "sources": [dict(rep_a)], "flags": [], "out": "file", "stale_output": True})
        launches.append({"kind": "valid", "sources": [dict(rep_b), dict(rep_a)], "flags": ["-d"], "out": "file", "stale_output": True})
        # a semantic (non-syntax) refusal and a crash-type refusal
        launches.append({"kind": "invalid", "sources": [{"name": "ok.pl", "text": "p.\n", "via": "file"},
                                                        {"name": "ophead.pl", "text": "q.\n\n  a = b.\n", "via": "file"}], "flags": [], "out": "stdout"})
        launches.append({"kind": "invalid", "sources": [{"name": "x.pl", "text": "p(a).\nfoo(a) :- b(X),, c(X).\n", "via": "stdin"}], "flags": ["-d"], "out": "file"})
        launches.append({"kind": "invalid", "sources": [{"name": "trail.pl", "text": "foo(a). ) garbage\n", "via": "file"}], "flags": [], "out": "file"})
    return launches


def run(seed, count):
    launches = build_launches(seed, count)
    base = K.scratch()
    specs = []
    for n, l in enumerate(launches):
        s = dict(l)
        s["dir"] = os.path.join(base, "l%d" % n)
        specs.append(s)
    results = K.pmap(_eval, specs, procs=8, chunksize=1)
    failures, samples = [], []
    distinct = set()
    combos = set()
    kinds = {}
    evaluations = 0
    for r in results:
        sc = r["scenario"]
        evaluations += len(sc["sources"])
        kinds[sc["kind"]] = kinds.get(sc["kind"], 0) + 1
        combos.add(tuple(sorted("-d" if f == "--debug" else f for f in sc["flags"])))
        if r["checked"]:
            distinct.add((tuple((s["text"], s["via"], s["name"]) for s in sc["sources"]), tuple(sc["flags"]), sc["out"]))
        if r["problems"]:
            failures.append({"scenario": sc, "detail": "; ".join(r["problems"])[:900]})
    for want in ("valid", "invalid"):
        for r in results:
            sc = r["scenario"]
            if sc["kind"] == want and not r["problems"] and sum(len(s["text"]) for s in sc["sources"]) < 500 and (sc["flags"] or want == "invalid"):
                samples.append({"scenario": sc, "info": r["info"]})
                break
    failures.sort(key=lambda f: sum(len(s["text"]) for s in f["scenario"]["sources"]))
    return K.report(evaluations, len(distinct), RULE, failures, samples,
                    stats={"launches": len(results), "launches_by_kind": kinds, "flag_combinations_covered": len(combos),
                           "launches_with_stdin": sum(1 for r in results if any(s["via"] == "stdin" for s in r["scenario"]["sources"])),
                           "launches_with_-o": sum(1 for r in results if r["scenario"]["out"] == "file"),
                           "launches_with_several_sources": sum(1 for r in results if len(r["scenario"]["sources"]) > 1)})


def replay(sc):
    spec = dict(sc)
    spec["dir"] = os.path.join(K.scratch(), "replay")
    r = run_launch(spec)
    if r["problems"]:
        return False, "; ".join(r["problems"])
    return True, "launch checked: %s" % r["info"]


if __name__ == "__main__":
    sys.exit(K.cli(run, replay))
