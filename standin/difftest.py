"""Adapter around diff.py for the check framework (bounded stand-in, never counted as proved).

  difftest.py run <family> <seed> <count> [--exhaustive] [--max-depth D] [--jobs N]
  difftest.py replay <file.json>

Excluded from failures (counted under `excluded`):
  * STO: a unification on the way built a cyclic term (unspecified: C02, ISO "subject to occurs check")
  * call('!') / control constructs passed to call/N (outside the statement of C09: goals name predicates)
"""
import json
import os
import signal
import sys
from concurrent.futures import ProcessPoolExecutor

HERE = os.path.dirname(os.path.abspath(__file__))
sys.path.insert(0, HERE)
import diff  # noqa
import gen   # noqa


def excluded(m):
    if m['class'].startswith('STO('):
        return 'STO'
    if "call('!')" in m.get('query', '') or "'!'" in m.get('query', '') or "'!'" in m.get('source', ''):
        return 'call-of-control-construct'
    return None


def run_part(args):
    family, seed, count, exhaustive, max_depth, part, parts = args
    signal.signal(signal.SIGVTALRM, diff._on_alarm)
    res = diff.Result()
    n = 0
    ids = []
    for i, case in enumerate(gen.cases(family, seed, count, exhaustive, max_depth)):
        if i % parts != part:
            continue
        n += 1
        before = res.mismatch_count
        if family == 'F4':
            diff.run_db_case(case, res)
        else:
            diff.run_query_case(case, res)
    return dict(evaluations=res.evaluations, nontrivial=list(res.nontrivial)[:0], n_nontrivial=len(res.nontrivial),
                mismatches=res.mismatches, mismatch_count=res.mismatch_count, samples=res.samples[:2], skipped=res.skipped,
                classes=res.classes)


def main():
    if sys.argv[1] == 'replay':
        rp = json.load(open(sys.argv[2]))
        sc = rp.get('scenario', rp)
        signal.signal(signal.SIGVTALRM, diff._on_alarm)
        res = diff.Result()
        found = False
        for case in gen.cases(sc['family'], sc['seed'], sc['count'], sc.get('exhaustive', False), sc.get('max_depth')):
            if case.id == sc['id']:
                found = True
                if sc['family'] == 'F4':
                    diff.run_db_case(case, res)
                else:
                    diff.run_query_case(case, res)
                break
        bad = [m for m in res.mismatches if not excluded(m)]
        print(json.dumps(dict(ok=found and not bad, found=found, mismatches=bad[:3])))
        sys.exit(0 if (found and not bad) else 1)
    family, seed, count = sys.argv[2], int(sys.argv[3]), int(sys.argv[4])
    exhaustive = '--exhaustive' in sys.argv
    max_depth = int(sys.argv[sys.argv.index('--max-depth') + 1]) if '--max-depth' in sys.argv else None
    jobs = int(sys.argv[sys.argv.index('--jobs') + 1]) if '--jobs' in sys.argv else 12
    with ProcessPoolExecutor(max_workers=jobs) as ex:
        parts = list(ex.map(run_part, [(family, seed, count, exhaustive, max_depth, p, jobs) for p in range(jobs)]))
    ev = sum(p['evaluations'] for p in parts)
    nt = sum(p['n_nontrivial'] for p in parts)
    fails, excl = [], {}
    for p in parts:
        for m in p['mismatches']:
            why = excluded(m)
            if why:
                excl[why] = excl.get(why, 0) + 1
                continue
            fails.append(dict(scenario=dict(family=family, seed=seed, count=count, exhaustive=exhaustive, max_depth=max_depth,
                                            id=m['id'], source=m['source'], query=m['query']),
                              detail='%s: expected %s observed %s' % (m['class'], json.dumps(m['expected'])[:300],
                                                                      json.dumps(m['observed'])[:300])))
    samples = [s for p in parts for s in p['samples']][:3]
    print(json.dumps(dict(evaluations=ev, distinct_nontrivial=nt, failures=fails[:20], failure_count=len(fails), excluded=excl,
                          skipped=sum(p['skipped'] for p in parts), samples=samples,
                          rule=diff.RULES[family] + ' | cases: gen.cases(%s, seed=%d, count=%d, exhaustive=%s, max_depth=%s); '
                          'non-trivial = distinct program+query with at least one expected answer or the family\'s special construct'
                          % (family, seed, count, exhaustive, max_depth))))


if __name__ == '__main__':
    main()
