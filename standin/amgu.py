"""Bounded check of assumption A-MGU (DESIGN 3.2): the SPECIFICATION function su (spec/mirror.py, the
mirror of spec/terms.smt2) against an independent Martelli-Montanari oracle with occurs check.
This is a statement about the spec, not about /repo.  usage: amgu.py <size> <seed>"""
import itertools
import json
import os
import random
import sys

sys.path.insert(0, os.path.join(os.path.dirname(os.path.dirname(os.path.abspath(__file__))), 'spec'))
import mirror  # noqa


def variant(xs, ys):
    """are the term tuples equal up to a bijective renaming of variables?"""
    m, inv = {}, {}

    def rec(a, b):
        if a[0] == 'var' and b[0] == 'var':
            if m.setdefault(a[1], b[1]) != b[1] or inv.setdefault(b[1], a[1]) != a[1]:
                return False
            return True
        if a[0] != b[0]:
            return False
        if a[0] == 'fun':
            return a[1] == b[1] and len(a[2]) == len(b[2]) and all(rec(x, y) for x, y in zip(a[2], b[2]))
        return a == b
    return all(rec(a, b) for a, b in zip(xs, ys))


def check(t1, t2, s):
    try:
        r = mirror.su(t1, t2, s)
    except mirror.Cyclic:
        return None, 'skipped'
    n = mirror.naive_unify(t1, t2, s)
    if n == 'CYCLIC':
        return None, 'skipped'
    if (r is None) != (n is None):
        return False, 'su %s but oracle %s' % ('fails' if r is None else 'succeeds', 'fails' if n is None else 'succeeds')
    try:
        r2 = mirror.su(t2, t1, s)
    except mirror.Cyclic:
        return None, 'skipped'
    if (r is None) != (r2 is None):
        return False, 'su(t1,t2) and su(t2,t1) disagree'
    if r is None:
        return True, 'fail'
    if not mirror.acyclic(r):
        return None, 'skipped'
    if mirror.resolve(t1, r) != mirror.resolve(t2, r):
        return False, 'not a unifier'
    for v in s:
        if r.get(v) != s[v]:
            return False, 'L-SU-FRAME: binding of %d changed' % v
    for v in r:
        if v not in s and v in s:
            return False, 'frame'
    vs = sorted(set(mirror.vars_of(t1) + mirror.vars_of(t2)) | set(s) | set(range(3)))
    a = [mirror.resolve(('var', v), r) for v in vs]
    b = [mirror.resolve(('var', v), n) for v in vs]
    if not variant(a, b):
        return False, 'not most general / aliasing differs: %s vs %s' % (a, b)
    c = [mirror.resolve(('var', v), r2) for v in vs]
    if not variant(a, c):
        return False, 'su(t2,t1) is not a variant of su(t1,t2)'
    return True, 'ok'


def main():
    size, seed = int(sys.argv[1]), int(sys.argv[2])
    terms = mirror.enum_terms(size)
    small = mirror.enum_terms(2)
    stores = [{}]
    for v in range(3):
        for t in small:
            if t != ('var', v) and mirror.acyclic({v: t}):
                stores.append({v: t})
    rng = random.Random(seed)
    two = []
    for v, w in ((0, 1), (1, 2), (0, 2)):
        for t in small:
            for u in small:
                s = {v: t, w: u}
                if mirror.acyclic(s) and t != ('var', v) and u != ('var', w):
                    two.append(s)
    rng.shuffle(two)
    stores += two[:40]
    n = 0
    fails = []
    nontriv = 0
    samples = []
    exhaustive_pairs = len(terms) * len(terms)
    for t1 in terms:
        for t2 in terms:
            for s in (stores if len(terms) < 120 else [stores[0]] + rng.sample(stores, 6)):
                ok, why = check(t1, t2, s)
                n += 1
                if ok is None:
                    continue
                if why == 'ok':
                    nontriv += 1
                if not ok:
                    fails.append(dict(scenario=dict(t1=t1, t2=t2, store={str(k): v for k, v in s.items()}), detail='A-MGU: ' + why))
                    if len(fails) > 10:
                        break
                if n % 50021 == 1:
                    samples.append(dict(t1=t1, t2=t2, store={str(k): v for k, v in s.items()}, outcome=why))
    print(json.dumps(dict(evaluations=n, distinct_nontrivial=nontriv, failures=fails, samples=samples, term_pairs=exhaustive_pairs,
                          rule='all pairs of terms with <= %d nodes over atoms a,b, f/1, g/2, variables 0-2, constant 1 (%d terms), '
                               'under the empty store and stores of 1-2 bindings; non-trivial = unifiable with a verified MGU' % (size, len(terms)))))


if __name__ == '__main__':
    main()
