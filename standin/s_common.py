"""Shared plumbing of the bounded stand-in drivers s_c03 / s_c04 / s_c15 / s_c17.

  * selects the source tree under test (env YLD_REPO_SRC, default /repo/src) BEFORE yldprolog is imported
  * VarTracker: wraps yldprolog.engine.Variable.__init__ (from this process only) so that every Variable
    created inside a window is remembered (strong references while the window is open: a variable that
    only a dead frame knew about can still be inspected)
  * engine helpers on top of real_engine.RealEngine: build an engine for a gen.Case, prepare a query
    (name, engine args, query Variables), snapshot answers as canon() tuples with an own dereferencing walk
  * CLI skeleton:  run <seed> <count>  /  replay <file.json>,  multiprocessing fan-out, result merging
"""
import gc
import hashlib
import json
import multiprocessing
import os
import re
import signal
import sys
import time

sys.path.insert(0, os.environ.get('YLD_REPO_SRC', '/repo/src'))
HERE = os.path.dirname(os.path.abspath(__file__))
if HERE not in sys.path:
    sys.path.append(HERE)

import yldprolog                                             # noqa: E402,F401
import yldprolog.engine as E                                 # noqa: E402
from yldprolog.engine import YP, Atom, Variable, Functor     # noqa: E402,F401

import gen                                                   # noqa: E402
import terms as T                                            # noqa: E402
from terms import canon, vars_of, name_arity, to_source, goal_to_source, clause_to_source   # noqa: E402
from real_engine import RealEngine, compile_source, exc_entry                              # noqa: E402
from ref_interp import RefEngine, RefLimit                   # noqa: E402

JOBS = int(os.environ.get('SRT_JOBS', '8'))
BASE_RECURSION = 12000
sys.setrecursionlimit(BASE_RECURSION)


# ------------------------------------------------------------------ variable tracking
class VarTracker(object):
    """every Variable created while a window is open (start() .. stop())"""
    _orig = None
    created = []
    active = False

    @classmethod
    def install(cls):
        if cls._orig is not None:
            return
        cls._orig = Variable.__init__
        orig = cls._orig

        def __init__(self, *a, **kw):
            orig(self, *a, **kw)
            if VarTracker.active:
                VarTracker.created.append(self)
        Variable.__init__ = __init__

    @classmethod
    def start(cls):
        cls.install()
        cls.created = []
        cls.active = True

    @classmethod
    def stop(cls):
        cls.active = False
        r = cls.created
        cls.created = []
        return r

    @classmethod
    def bound(cls, extra=()):
        """tracked (and extra) variables that are bound right now"""
        seen = set()
        out = []
        for v in list(extra) + cls.created:
            if id(v) not in seen:
                seen.add(id(v))
                if v._is_bound:
                    out.append(v)
        return out


VarTracker.install()


# ------------------------------------------------------------------ term walks
def from_engine(x, names=None):
    """engine term -> tuple term; dereferences by walking _is_bound/_value itself (does not call the
    engine's get_value).  distinct unbound Variables -> distinct ("var","_E<n>")"""
    if names is None:
        names = {}
    return _fe(x, names, 0)


def _fe(x, names, depth):
    if depth > 3000:
        raise RecursionError('engine term too deep (cyclic?)')
    n = 0
    while isinstance(x, Variable) and x._is_bound:
        x = x._value
        n += 1
        if n > 10000:
            raise RecursionError('variable chain too long (cyclic?)')
    if isinstance(x, Variable):
        r = names.get(id(x))
        if r is None:
            r = names[id(x)] = ('var', '_E%d' % len(names))
            names[('keep', id(x))] = x       # keep the object alive: ids must stay unique
        return r
    if isinstance(x, Atom):
        return ('atom', x.name())
    if isinstance(x, Functor):
        return ('fun', x._name, tuple(_fe(a, names, depth + 1) for a in x._args))
    if isinstance(x, bool):
        return ('atom', '<bool %r>' % x)
    if isinstance(x, int):
        return ('int', x)
    return ('atom', '<python %r>' % (x,))


def raw_structure(x, names=None, depth=0):
    """engine term -> tuple term WITHOUT any dereferencing: a Variable (bound or not) is a variable"""
    if names is None:
        names = {}
    if depth > 3000:
        raise RecursionError('engine term too deep (cyclic?)')
    if isinstance(x, Variable):
        r = names.get(id(x))
        if r is None:
            r = names[id(x)] = ('var', '_E%d' % len(names))
            names[('keep', id(x))] = x
        return r
    if isinstance(x, Atom):
        return ('atom', x.name())
    if isinstance(x, Functor):
        return ('fun', x._name, tuple(raw_structure(a, names, depth + 1) for a in x._args))
    if isinstance(x, bool):
        return ('atom', '<bool %r>' % x)
    if isinstance(x, int):
        return ('int', x)
    return ('atom', '<python %r>' % (x,))


def contains_variable(x, depth=0):
    """is there any Variable OBJECT inside the engine term (no dereferencing)"""
    if isinstance(x, Variable):
        return True
    if isinstance(x, Functor) and depth < 3000:
        return any(contains_variable(a, depth + 1) for a in x._args)
    return False


def snap(evars):
    names = {}
    return canon(tuple(from_engine(v, names) for v in evars))


def py_of(t):
    """what to_python has to give for the (dereferenced) tuple term t; raises TypeError for a partial
    list (the engine's list conversion needs a proper list)"""
    tag = t[0]
    if tag == 'atom':
        return [] if t[1] == '[]' else t[1]
    if tag == 'int':
        return t[1]
    if tag == 'var':
        return None
    if t[1] == '.' and len(t[2]) == 2:
        items, tail = T.list_prefix(t)
        if tail != T.NIL:
            raise TypeError('partial list')
        return [py_of(i) for i in items]
    return (t[1], [py_of(a) for a in t[2]])


def jsonable(x):
    if isinstance(x, (list, tuple)):
        return [jsonable(i) for i in x]
    return x


def untuple(x):
    """inverse of the json round trip for term tuples"""
    if isinstance(x, list):
        return tuple(untuple(i) for i in x)
    return x


def show_ans(a):
    if a and a[0] == 'EXC':
        return 'EXC %s: %s' % (a[1], a[2])
    try:
        return T.answer_to_source(a)
    except Exception:
        return repr(a)


def show(answers):
    return [show_ans(a) for a in answers]


# ------------------------------------------------------------------ engines for gen cases
def case_source(case, program=None):
    src = to_source(case.program if program is None else program)
    for extra, ow in case.more:
        src += '%% --- consulted next with overwrite=%s\n' % ow + to_source(extra)
    return src


def uses_db(case):
    s = case_source(case) + ' '.join(goal_to_source(q) for q in case.queries)
    return 'assert' in s or 'retract' in s


def excluded_query(src, qs):
    """outside the statement of the call/N property (control constructs passed to call)"""
    return "'!'" in qs or "'!'" in src


def build_real(case, program=None, more=None):
    real = RealEngine()
    real.consult(case.program if program is None else program)
    for extra, ow in (case.more if more is None else more):
        real.consult(extra, overwrite=ow)
    return real


def build_ref(case):
    ref = RefEngine()
    ref.check_sto = True
    ref.consult(case.program)
    for extra, ow in case.more:
        ref.consult(extra, overwrite=ow)
    return ref


def prep_query(real, goal):
    """-> (name, engine args, [query Variables in vars_of(goal) order]).  A goal that is not a single
    call is wrapped into a helper clause q__N(V1..Vn) :- Goal (compiled and loaded into `real`)."""
    qvars = vars_of(goal)
    if goal[0] == 'call' and goal[1][0] in ('atom', 'fun'):
        name, _ = name_arity(goal[1])
        targs = goal[1][2] if goal[1][0] == 'fun' else ()
    else:
        real._helper += 1
        name = 'q__%d' % real._helper
        head = ('fun', name, tuple(qvars)) if qvars else ('atom', name)
        real.consult(clause_to_source((head, goal)) + '\n')
        targs = tuple(qvars)
    vm = {}
    eargs = [real.to_engine(a, vm) for a in targs]
    evars = [vm[v] for v in qvars]
    return name, eargs, evars


def same_answers(expected, observed):
    if expected == observed:
        return True
    if expected and observed and is_exc(expected[-1]) and is_exc(observed[-1]):
        return expected[:-1] == observed[:-1]
    return False


def is_exc(a):
    return bool(a) and a[0] == 'EXC'


def collect():
    gc.collect()


# ------------------------------------------------------------------ timeouts
class Timeout(Exception):
    pass


def _on_alarm(signum, frame):
    raise Timeout('CPU time limit')


def with_timeout(seconds, f, *a, **kw):
    signal.signal(signal.SIGVTALRM, _on_alarm)
    signal.setitimer(signal.ITIMER_VIRTUAL, seconds)
    try:
        return f(*a, **kw)
    finally:
        signal.setitimer(signal.ITIMER_VIRTUAL, 0)


# ------------------------------------------------------------------ result accumulation
def digest(*parts):
    return hashlib.md5(repr(parts).encode('utf-8', 'replace')).hexdigest()[:16]


class Acc(object):
    """per worker result"""

    def __init__(self):
        self.evaluations = 0
        self.nontrivial = set()
        self.failures = []
        self.failure_count = 0
        self.samples = []
        self.skipped = {}
        self.classes = {}
        self.watch_key = None
        self.watch_result = None

    def evaluation(self, nontrivial_key=None):
        self.evaluations += 1
        if nontrivial_key is not None:
            self.nontrivial.add(nontrivial_key)

    def fail(self, order, scenario, detail, cls=None):
        """cls: failure class (default: mode + start of the detail); at most 4 failures per class are kept per
        worker so that a frequent class cannot hide a rare one"""
        self.failure_count += 1
        if cls is None:
            cls = '%s: %s' % (scenario.get('mode', scenario.get('variant', scenario.get('family', ''))),
                              re.sub(r'\d+', '#', detail)[:60])
        n = self.classes.get(cls, 0)
        self.classes[cls] = n + 1
        if n < 4:
            self.failures.append((order, {'scenario': scenario, 'detail': detail}, cls))

    def observe(self, key, ok, detail):
        """replay support: remember the outcome of the check with key == self.watch_key"""
        if self.watch_key is not None and key == self.watch_key and self.watch_result is None:
            self.watch_result = (ok, detail)

    def skip(self, why):
        self.skipped[why] = self.skipped.get(why, 0) + 1

    def sample(self, order, s):
        if len(self.samples) < 2:
            self.samples.append((order, s))

    def pack(self):
        return dict(evaluations=self.evaluations, nontrivial=sorted(self.nontrivial), failures=self.failures,
                    failure_count=self.failure_count, samples=self.samples, skipped=self.skipped,
                    classes=self.classes)


def merge(parts, rule, extra=None):
    nt = set()
    fails, samples, skipped, classes = [], [], {}, {}
    for p in parts:
        nt.update(p['nontrivial'])
        fails += [tuple(f) for f in p['failures']]
        samples += [tuple(s) for s in p['samples']]
        for k, v in p['skipped'].items():
            skipped[k] = skipped.get(k, 0) + v
        for k, v in p['classes'].items():
            classes[k] = classes.get(k, 0) + v
    fails.sort(key=lambda f: _order_key(f[0]))
    samples.sort(key=lambda s: _order_key(s[0]))
    # at most 20 failures, every class represented (round robin over the classes, in case order)
    chosen, per = [], {}
    for rnd in range(20):
        for f in fails:
            if per.get(f[2], 0) == rnd and f not in chosen and len(chosen) < 20:
                per[f[2]] = rnd + 1
                chosen.append(f)
        for c in list(per):
            per[c] = max(per[c], rnd + 1)
    chosen.sort(key=lambda f: _order_key(f[0]))
    out = dict(evaluations=sum(p['evaluations'] for p in parts), distinct_nontrivial=len(nt), rule=rule,
               failures=[f[1] for f in chosen], failure_count=sum(p['failure_count'] for p in parts),
               failure_classes=classes, samples=[s[1] for s in samples[:4]], skipped=skipped,
               engine=os.path.dirname(yldprolog.__file__))
    if extra:
        out.update(extra)
    return out


def _order_key(o):
    if not isinstance(o, (tuple, list)):
        o = (o,)
    return tuple((0, x, '') if isinstance(x, (int, float)) else (1, 0, str(x)) for x in o)


def fan_out(worker, seed, count, jobs=None):
    """worker(seed, count, part, parts) -> Acc.pack(); run for part in range(parts) in a process pool"""
    jobs = jobs or JOBS
    if jobs <= 1 or count < 16:
        return [worker((seed, count, 0, 1))]
    ctx = multiprocessing.get_context('fork')
    with ctx.Pool(jobs) as pool:
        return pool.map(worker, [(seed, count, p, jobs) for p in range(jobs)])


def cli(run, replay):
    """run(seed, count) -> result dict;  replay(scenario) -> (ok, detail)"""
    if len(sys.argv) >= 3 and sys.argv[1] == 'replay':
        with open(sys.argv[2]) as f:
            rp = json.load(f)
        sc = rp.get('scenario', rp) if isinstance(rp, dict) else rp
        try:
            ok, detail = replay(sc)
        except Exception as e:      # a crash of the replay is a failed replay
            import traceback
            ok, detail = False, 'driver error: ' + ''.join(traceback.format_exception_only(type(e), e)).strip()
        print(json.dumps({'ok': bool(ok), 'detail': detail}))
        sys.exit(0 if ok else 1)
    if len(sys.argv) >= 4 and sys.argv[1] == 'run':
        t0 = time.time()
        out = run(int(sys.argv[2]), int(sys.argv[3]))
        out['seconds'] = round(time.time() - t0, 2)
        print(json.dumps(out))
        sys.exit(0)
    sys.stderr.write('usage: %s run <seed> <count> | replay <file.json>\n' % sys.argv[0])
    sys.exit(2)


def find_case(family, seed, count, case_id):
    for case in gen.cases(family, seed, count):
        if case.id == case_id:
            return case
    return None
