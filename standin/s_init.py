"""Ground check (there is no input to quantify over, so one execution is complete): the initial state of YP().
  - eval_context keys = the API names + the builtin registrations, '__builtins__' is an empty dict
  - eval_blacklist = exactly the API names (keys of the default context), so no API name is callable as a predicate
  - builtins are registered under '=_2', '\\=_2', 'findall_3', 'call_n', 'once_1', 'assertz_1', 'asserta_1', 'retract_1', 'retractall_1'
  - clear() re-creates the same state with fresh dicts; two engines share no dict object
"""
import json
import os
import sys
sys.path.insert(0, os.environ.get('YLD_REPO_SRC', '/repo/src'))
from yldprolog import engine

API = ['__builtins__', 'variable', 'atom', 'functor', 'functor1', 'functor2', 'functor3', 'listpair', 'makelist', 'ATOM_NIL',
       'unify', 'match_dynamic', 'query', 'True', 'False']
BUILTINS = ['=_2', '\\=_2', 'findall_3', 'call_n', 'once_1', 'assertz_1', 'asserta_1', 'retract_1', 'retractall_1']


def check():
    probs = []
    yp = engine.YP()
    for label in ('fresh', 'after clear'):
        ctx = yp.eval_context
        if sorted(ctx) != sorted(API + BUILTINS):
            probs.append('%s: context keys %s' % (label, sorted(set(ctx) ^ set(API + BUILTINS))))
        if ctx.get('__builtins__') != {}:
            probs.append('%s: __builtins__ is not the empty dict' % label)
        # every API name is reserved; (the list also holds the builtin KEYS such as 'call_n', which are not names)
        if not (set(API) <= set(yp.eval_blacklist) <= set(API + BUILTINS)):
            probs.append('%s: blacklist %s' % (label, sorted(set(yp.eval_blacklist) ^ set(API))))
        for name in API:
            for n in range(0, 4):
                if list(yp.query(name, [yp.variable() for _ in range(n)])):
                    probs.append('%s: API name %s/%d is callable' % (label, name, n))
        if yp._predicates_store != {}:
            probs.append('%s: predicate store not empty' % label)
        old = (yp.eval_context, yp._predicates_store, yp._atom_store)
        yp.assert_fact(yp.atom('p'), [yp.atom('a')])
        yp.register_function('zz', lambda: iter(()))
        yp.clear()
        if label == 'fresh':
            if yp.eval_context is old[0] or yp._predicates_store is old[1] or yp._atom_store is old[2]:
                probs.append('clear() reuses a dict object')
            if 'zz_0' in yp.eval_context or list(yp.query('p', [yp.variable()])):
                probs.append('clear() keeps definitions or facts')
    a, b = engine.YP(), engine.YP()
    for attr in ('eval_context', '_predicates_store', '_atom_store', 'eval_blacklist'):
        if getattr(a, attr) is getattr(b, attr):
            probs.append('two engines share %s' % attr)
    if a.eval_context['__builtins__'] is b.eval_context['__builtins__']:
        probs.append('two engines share the __builtins__ dict')
    return probs


if __name__ == '__main__':
    probs = check()
    if sys.argv[1] == 'replay':
        print(json.dumps(dict(ok=not probs, detail=probs)))
        sys.exit(1 if probs else 0)
    print(json.dumps(dict(evaluations=1, distinct_nontrivial=2, failures=[dict(scenario=dict(kind='init'), detail=p) for p in probs],
                          samples=[dict(api=API, builtins=BUILTINS)], exhaustive=True,
                          rule='single configuration (no inputs): complete; distinct_nontrivial counts the two states checked (fresh, after clear)')))
