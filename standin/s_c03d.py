"""s_c03d - "backtracking leaves no trace" over DYNAMIC facts: an enumeration of stored facts that is abandoned after k answers
(close / drop the last reference / throw an exception into it / taken through once/1) leaves the engine as it was.

  s_c03d.py run <seed> <count>      s_c03d.py replay <file>

Small-scope and exhaustive: databases of 2..4 facts e/2 whose first arguments are atoms, a variable, a number or a compound;
first query e(a,X) | e(b,X) | e(c,X) | e(X,Y) | e(7,X), abandoned after k = 0..2 answers in one of the four ways (or run to the end);
then every probe query (the same five patterns) must give exactly the answers it gives on a fresh engine holding the same facts on
which no query has run before, all variables of the abandoned query must be unbound, and a second full run of the abandoned query
must give its full answer list.
"""
import gc
import itertools
import json
import os
import random
import sys

sys.path.insert(0, os.environ.get('YLD_REPO_SRC', '/repo/src'))
from yldprolog import engine  # noqa

DBS = [
    ['a,1', 'b,2', 'c,3'],
    ['a,1', 'a,2', 'c,3'],
    ['c,3', 'b,2', 'a,1', 'c,4'],
    ['a,1', 'V,2', 'c,3'],
    ['V,1', 'a,2', 'b,3'],
    ['a,1', '7,2', 'c,3', '7,4'],
    ['a,1', 'g(c),2', 'c,3'],
    ['b,1', 'c,2'],
    ['a,1', 'b,2', 'c,3', 'b,4'],
]
PATTERNS = ['a,X', 'b,X', 'c,X', 'X,Y', '7,X']
WAYS = ['close', 'drop', 'throw', 'once', 'exhaust']


class Boom(Exception):
    pass


def term(yp, s, env):
    s = s.strip()
    if s.startswith('g('):
        return yp.functor('g', [term(yp, s[2:-1], env)])
    if s.isdigit():
        return int(s)
    if s[0].isupper():
        if s not in env:
            env[s] = yp.variable()
        return env[s]
    return yp.atom(s)


def args_of(yp, s, env):
    a, b = s.split(',')
    return [term(yp, a, env), term(yp, b, env)]


def make(db):
    yp = engine.YP()
    for f in db:
        yp.assert_fact(yp.atom('e'), args_of(yp, f, {}))
    return yp


def answers(yp, pat):
    env = {}
    args = args_of(yp, pat, env)
    out = []
    q = yp.query('e', args)
    try:
        for _ in q:
            out.append(tuple(repr(engine.to_python(engine.get_value(v))) if not isinstance(engine.get_value(v), engine.Variable) else '_'
                             for v in env.values()))
    finally:
        q.close()
    return out


def run(sc):
    db, pat, way, k = DBS[sc['db']], sc['first'], sc['way'], sc['k']
    yp = make(db)
    env = {}
    args = args_of(yp, pat, env)
    probs = []
    if way == 'once':
        q = yp.query('once', [yp.functor('e', args)])
        n = sum(1 for _ in q)
    else:
        q = yp.query('e', args)
        n = 0
        try:
            while way == 'exhaust' or n < k:
                next(q)
                n += 1
        except StopIteration:
            pass
        if way == 'close':
            q.close()
        elif way == 'throw':
            try:
                q.throw(Boom())
            except (Boom, StopIteration):
                pass
    del q
    gc.collect()
    left = [name for name, v in env.items() if isinstance(v, engine.Variable) and v._is_bound]
    if left:
        probs.append('variables %s of the abandoned query are still bound' % left)
    for p in PATTERNS:
        want = answers(make(db), p)
        got = answers(yp, p)
        if got != want:
            probs.append('after e(%s) was abandoned (%s, %d answers taken) the query e(%s) gives %s; on an engine with the same facts '
                         'and no earlier query: %s' % (pat, way, n, p, got, want))
    return not probs, '; '.join(probs[:3]) or 'ok'


def scenarios(seed, count):
    out = []
    for d, p, w in itertools.product(range(len(DBS)), PATTERNS, WAYS):
        for k in ((0, 1, 2) if w in ('close', 'drop', 'throw') else (0,)):
            out.append(dict(db=d, first=p, way=w, k=k))
    random.Random(seed).shuffle(out)
    return out[:count] if count else out


def main():
    if sys.argv[1] == 'replay':
        sc = json.load(open(sys.argv[2]))
        sc = sc.get('scenario', sc)
        ok, detail = run(sc)
        print(json.dumps(dict(ok=ok, detail=detail)))
        sys.exit(0 if ok else 1)
    seed, count = int(sys.argv[2]), int(sys.argv[3])
    scs = scenarios(seed, count)
    total = len(scenarios(seed, 0))
    fails, n, nontriv = [], 0, 0
    for sc in scs:
        try:
            ok, detail = run(sc)
        except Exception as e:     # noqa
            ok, detail = False, 'raised %s: %s' % (type(e).__name__, e)
        n += 1
        nontriv += sc['way'] != 'exhaust'
        if not ok and len(fails) < 20:
            fails.append(dict(scenario=sc, detail=detail))
    print(json.dumps(dict(evaluations=n, distinct_nontrivial=nontriv, failures=fails, failure_count=len(fails), samples=scs[:3],
                          exhaustive=len(scs) >= total, rule=__doc__.split('Small-scope', 1)[1][:700])))


if __name__ == '__main__':
    main()
