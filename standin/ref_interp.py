"""Independent reference Prolog interpreter (the ORACLE of the differ).

Written from standard Prolog semantics; does NOT import yldprolog / antlr4.

Execution model: an iterative abstract machine with
  * a continuation made of linked frames  (goal, cut_barrier, depth, next_frame)
  * a choicepoint stack (python list)     -> cut == truncate the stack
  * a binding store (dict var -> term) with a trail for undoing
so the Python recursion depth does not depend on the depth of the Prolog
recursion (no recursion-limit games needed for solving; only `resolve` of very
deeply nested non-list terms recurses and converts RecursionError to RefLimit).

NATIVE PREDICATE PROTOCOL
    pyfunc(engine, args, subst) -> iterable of "delta substitutions"
      args  : tuple of the call's arguments, fully dereferenced (unbound
              variables appear as ("var", x) terms)
      subst : the live binding dict of the running machine (read only!)
      each yielded item is a mapping {("var",x): term, ...} of *additional*
      bindings (may be empty = plain success).  The machine applies it with
      unification, continues with the rest of the program, and asks the iterable
      for its next item only on backtracking (lazy); when the call is cut the
      iterator's close() is called if it has one.
    Helpers: unify_delta(a, b) computes such a mapping (or None), and
    facts_native(rows) builds a native that behaves like the facts `rows`.
"""

import itertools
import os
import sys

_here = os.path.dirname(os.path.abspath(__file__))
if _here not in sys.path:
    sys.path.insert(0, _here)


from terms import (NIL, TRUE, FAIL, CUT, mklist, vars_of, map_vars, canon,
                   term_to_goal, name_arity)


class RefLimit(Exception):
    """step / depth / size limit exceeded (the case must be skipped)"""


class RefError(Exception):
    """a goal that standard Prolog answers with an error (unbound or
    non-callable goal, assert of a variable ...).  kind is e.g.
    'instantiation_error' or 'type_error'."""

    def __init__(self, kind, what=""):
        Exception.__init__(self, "%s: %s" % (kind, what))
        self.kind = kind


# --------------------------------------------------------------- pure helpers
def _deref(t, b):
    while t[0] == "var":
        v = b.get(t)
        if v is None:
            return t
        t = v
    return t


def _occurs(v, t, bind):
    """does variable v occur in t (under the bindings)?"""
    stack = [t]
    n = 0
    while stack:
        t = stack.pop()
        while t[0] == "var":
            if t == v:
                return True
            x = bind.get(t)
            if x is None:
                break
            t = x
        if t[0] == "fun":
            n += 1
            if n > 100000:
                return True
            stack.extend(t[2])
    return False


def _unify(a, b, bind, trail, sto=None):
    """unification without occurs check, binding into `bind`, logging on `trail`.
    If `sto` is a list, a marker is appended to it whenever a binding creates a
    cyclic term (i.e. the unification is "subject to occurs check", where ISO
    leaves the result undefined); the binding is made all the same."""
    stack = [(a, b)]
    n = 0
    while stack:
        a, b = stack.pop()
        while a[0] == "var":
            v = bind.get(a)
            if v is None:
                break
            a = v
        while b[0] == "var":
            v = bind.get(b)
            if v is None:
                break
            b = v
        if a is b:
            continue
        ta = a[0]
        tb = b[0]
        if ta == "var":
            if tb == "var" and a == b:
                continue
            if sto is not None and tb == "fun" and _occurs(a, b, bind):
                sto.append(a)
            bind[a] = b
            trail.append(a)
        elif tb == "var":
            if sto is not None and ta == "fun" and _occurs(b, a, bind):
                sto.append(b)
            bind[b] = a
            trail.append(b)
        elif ta == "fun":
            if tb != "fun" or a[1] != b[1] or len(a[2]) != len(b[2]):
                return False
            n += 1
            if n > 200000:
                raise RefLimit("unification too large (cyclic terms?)")
            stack.extend(zip(reversed(a[2]), reversed(b[2])))     # pop order = left to right
        elif a != b:
            return False
    return True


def _resolve(t, b, depth=0):
    """fully dereferenced copy of t"""
    t = _deref(t, b)
    if t[0] != "fun":
        return t
    spine = []
    while True:
        args = t[2]
        spine.append((t[1], [_resolve(a, b, depth + 1) for a in args[:-1]]))
        last = _deref(args[-1], b)
        if last[0] != "fun":
            break
        t = last
        if len(spine) > 100000:
            raise RefLimit("term too large (cyclic?)")
    res = last
    for name, ha in reversed(spine):
        ha.append(res)
        res = ("fun", name, tuple(ha))
    return res


def resolve(t, b):
    try:
        return _resolve(t, b)
    except RecursionError:
        raise RefLimit("term too deep (cyclic?)")


def unify_delta(a, b, base=None):
    """Unify a and b (tuples of terms are fine: use ("fun","$",args)) on top of
    the bindings `base`; returns the dict of NEW bindings or None."""
    bind = dict(base) if base else {}
    trail = []
    if isinstance(a, (list, tuple)) and (not a or not isinstance(a[0], str)):
        a = ("fun", "$", tuple(a)) if a else ("atom", "$")
        b = ("fun", "$", tuple(b)) if b else ("atom", "$")
    if not _unify(a, b, bind, trail):
        return None
    return {v: bind[v] for v in trail}


def _anonymise(x, counter):
    """give every `_` its own name"""
    def f(v):
        if v[1] == "_":
            return ("var", "_#%d" % next(counter))
        return v
    return map_vars(x, f)


class _Fact(object):
    """a stored dynamic fact: identity matters (logical update view)"""
    __slots__ = ("term", "nvars", "alive")

    def __init__(self, term):
        self.term = term
        self.nvars = bool(vars_of(term, include_anon=True))
        self.alive = True


# choicepoint kinds
_ALT, _SEGS, _CLAUSES, _FACTS, _NATIVE, _RETRACT, _FINDALL = range(7)


class RefEngine(object):
    BUILTINS = {("=", 2), ("\\=", 2), ("once", 1), ("findall", 3), ("assertz", 1),
                ("asserta", 1), ("retract", 1), ("retractall", 1)}

    def __init__(self):
        self.static = {}      # (name, arity) -> [group]; group = ("clauses", [(head, body)]) | ("native", f)
        self.variadic = {}    # name -> native function
        self.dyn = {}         # (name, arity) -> [_Fact]
        self._ids = itertools.count(1)
        self._anon = itertools.count(1)
        self.steps = 0        # steps used by the last solve()
        self.check_sto = False   # if True, self.sto lists the cyclic bindings made by the last solve()
        self.sto = []

    resolve = staticmethod(resolve)      # resolve(term, bindings) -> fully dereferenced term

    # ------------------------------------------------------------ loading
    def consult(self, program, overwrite=True):
        """add compiled ("static") clauses.  All clauses of one name/arity in
        `program` form one group (own cut scope).  overwrite=True replaces the
        definitions of exactly the name/arity keys present in `program`;
        overwrite=False appends the new group after the existing ones."""
        groups = {}
        for head, body in program:
            key = name_arity(head)
            c = _anonymise((",", ("call", head), body), self._anon)
            groups.setdefault(key, []).append((c[1][1], c[2]))
        for key, clauses in groups.items():
            g = ("clauses", clauses)
            if overwrite:
                self.static[key] = [g]
            else:
                self.static.setdefault(key, []).append(g)

    def register_native(self, name, arity, pyfunc):
        if arity is None:
            self.variadic[name] = pyfunc
        else:
            self.static[(name, arity)] = [("native", pyfunc)]

    def clear(self):
        """like the documented YP.clear(): forget facts AND rules AND natives"""
        self.static = {}
        self.variadic = {}
        self.clear_dynamic()

    def clear_dynamic(self):
        for facts in self.dyn.values():
            for f in facts:
                f.alive = False
        self.dyn = {}

    # ------------------------------------------------- dynamic database API
    def _fresh(self):
        return ("var", next(self._ids))

    def _rename(self, x):
        m = {}

        def f(v):
            r = m.get(v)
            if r is None:
                r = m[v] = ("var", next(self._ids))
            return r
        return map_vars(x, f)

    def _store(self, term, at_end):
        if term[0] == "var":
            raise RefError("instantiation_error", "assert")
        if term[0] not in ("atom", "fun"):
            raise RefError("type_error", "assert of %r" % (term,))
        term = _anonymise(term, self._anon)
        key = name_arity(term)
        lst = self.dyn.get(key)
        if lst is None:
            lst = self.dyn[key] = []
        f = _Fact(term)
        if at_end:
            lst.append(f)
        else:
            lst.insert(0, f)

    def _remove(self, key, fact):
        fact.alive = False
        lst = self.dyn.get(key)
        if lst is not None:
            for i, f in enumerate(lst):
                if f is fact:
                    del lst[i]
                    break

    def assertz(self, term):
        self._store(term, True)

    def asserta(self, term):
        self._store(term, False)

    def retract(self, term):
        """generator: removes matching facts one per answer, yields the
        instantiated term.  Logical update view (snapshot at start)."""
        term = _anonymise(term, self._anon)
        key = name_arity(term)
        for f in list(self.dyn.get(key, ())):
            if not f.alive:
                continue
            d = unify_delta(term, self._rename(f.term) if f.nvars else f.term)
            if d is not None:
                self._remove(key, f)
                yield resolve(term, d)

    def retractall(self, term):
        term = _anonymise(term, self._anon)
        key = name_arity(term)
        for f in list(self.dyn.get(key, ())):
            if unify_delta(term, self._rename(f.term) if f.nvars else f.term) is not None:
                self._remove(key, f)
        return True

    def facts(self, name, arity):
        """current facts of name/arity as canon()ed 1-tuples"""
        return [canon((f.term,)) for f in self.dyn.get((name, arity), ())]

    # ---------------------------------------------------------------- solve
    def answers(self, goal, max_answers=None, step_limit=None, depth_limit=None):
        """list of canon() tuples of the goal's named variables (first
        occurrence order), fully dereferenced, one per answer, in order.
        A RefError raised by the program ends the list with
        ("EXC", kind, message)."""
        qvars = vars_of(goal)               # named variables only (`_` excluded)
        goal = _anonymise(goal, self._anon)
        out = []
        gen = self.solve(goal, depth_limit=depth_limit, step_limit=step_limit)
        try:
            for b in gen:
                out.append(canon(tuple(resolve(v, b) for v in qvars)))
                if max_answers is not None and len(out) >= max_answers:
                    break
        except RefError as e:
            out.append(("EXC", e.kind, str(e)))
        finally:
            gen.close()
        return out

    def solve(self, goal, depth_limit=None, step_limit=None):
        """generator over the answers of `goal` (a goal tuple, or a callable
        term); yields the live binding dict (use resolve(term, b) before
        advancing).  Depth-first, left-to-right."""
        if goal[0] in ("atom", "fun", "var"):
            goal = ("call", goal)
        return self._run(goal, depth_limit, step_limit)

    def _segments(self, key):
        segs = []
        facts = self.dyn.get(key)
        if facts:
            segs.append((_FACTS, list(facts)))
        groups = self.static.get(key)
        if groups:
            for kind, payload in groups:
                segs.append((_CLAUSES if kind == "clauses" else _NATIVE, payload))
        else:
            f = self.variadic.get(key[0])
            if f is not None:
                segs.append((_NATIVE, f))
        return segs

    def _run(self, goal, depth_limit, step_limit):
        bind = {}
        trail = []
        cps = []
        self.sto = []
        sto = self.sto if self.check_sto else None
        ids = self._ids
        steps = 0
        FAILF = (FAIL, 0, 0, None)
        frame = (goal, 0, 0, None)
        failed = False

        def undo(n):
            while len(trail) > n:
                del bind[trail.pop()]

        def cut_to(n):
            while len(cps) > n:
                cp = cps.pop()
                if cp[0] == _NATIVE:
                    close = getattr(cp[3], "close", None)
                    if close:
                        close()

        try:
            while True:
                steps += 1
                if step_limit is not None and steps > step_limit:
                    self.steps = steps
                    raise RefLimit("step limit %d exceeded" % step_limit)
                # ------------------------------------------------ backtrack
                if failed:
                    if not cps:
                        self.steps = steps
                        return
                    cp = cps[-1]
                    undo(cp[1])
                    kind = cp[0]
                    if kind == _ALT:
                        cps.pop()
                        frame = cp[2]
                        failed = False
                    elif kind == _SEGS:
                        # [_SEGS, tl, term, segs, idx, depth, nxt]
                        segs = cp[3]
                        i = cp[4]
                        if i == len(segs) - 1:
                            cps.pop()
                        else:
                            cp[4] = i + 1
                        skind, payload = segs[i]
                        if skind == _NATIVE:
                            targs = cp[2][2] if cp[2][0] == "fun" else ()
                            it = iter(payload(self, tuple(resolve(a, bind) for a in targs), bind))
                            cps.append([_NATIVE, len(trail), cp[2], it, cp[5], cp[6]])
                        else:
                            cps.append([skind, len(trail), cp[2], payload, 0, cp[5], cp[6]])
                    elif kind == _CLAUSES:
                        # [_CLAUSES, tl, term, clauses, idx, depth, nxt]
                        clauses = cp[3]
                        i = cp[4]
                        if i == len(clauses) - 1:
                            cps.pop()
                            cb = len(cps)
                        else:
                            cp[4] = i + 1
                            cb = len(cps) - 1
                        head, body = clauses[i]
                        m = {}

                        def ren(v, m=m):
                            r = m.get(v)
                            if r is None:
                                r = m[v] = ("var", next(ids))
                            return r
                        rhead = map_vars(head, ren)
                        if sto is not None and head[0] == "fun" and len(head[2]) > 1:
                            # ISO calls a unification STO if SOME order of solving the
                            # equations meets the occurs check: also try other argument
                            # orders (right to left; plain-variable head arguments first)
                            ga, ha = cp[2][2], rhead[2]
                            n_ = len(ha)
                            vf = sorted(range(n_), key=lambda i: ha[i][0] != "var")
                            for order in (range(n_ - 1, -1, -1), vf):
                                mark = len(trail)
                                _unify(("fun", "$", tuple(ga[i] for i in order)),
                                       ("fun", "$", tuple(ha[i] for i in order)), bind, trail, sto)
                                undo(mark)
                        if _unify(cp[2], rhead, bind, trail, sto):
                            depth = cp[5] + 1
                            if depth_limit is not None and depth > depth_limit:
                                raise RefLimit("depth limit %d exceeded" % depth_limit)
                            if body == TRUE:
                                frame = cp[6]
                            else:
                                frame = (map_vars(body, ren), cb, depth, cp[6])
                            failed = False
                    elif kind == _FACTS:
                        # [_FACTS, tl, term, facts(snapshot), idx, depth, nxt]
                        facts = cp[3]
                        i = cp[4]
                        if i == len(facts) - 1:
                            cps.pop()
                        else:
                            cp[4] = i + 1
                        f = facts[i]
                        # logical update view: the snapshot is enumerated even
                        # if a fact was retracted after the call started
                        if _unify(cp[2], self._rename(f.term) if f.nvars else f.term, bind, trail, sto):
                            frame = cp[6]
                            failed = False
                    elif kind == _NATIVE:
                        # [_NATIVE, tl, term, iterator, depth, nxt]
                        try:
                            delta = next(cp[3])
                        except StopIteration:
                            cps.pop()
                            continue
                        ok = True
                        for v, t in delta.items():
                            if not _unify(v, t, bind, trail, sto):
                                ok = False
                                break
                        if ok:
                            frame = cp[5]
                            failed = False
                    elif kind == _RETRACT:
                        # [_RETRACT, tl, term, facts(snapshot), idx, key, nxt]
                        facts = cp[3]
                        i = cp[4]
                        if i == len(facts) - 1:
                            cps.pop()
                        else:
                            cp[4] = i + 1
                        f = facts[i]
                        if f.alive and _unify(cp[2], self._rename(f.term) if f.nvars else f.term, bind, trail, sto):
                            self._remove(cp[5], f)
                            frame = cp[6]
                            failed = False
                    elif kind == _FINDALL:
                        # [_FINDALL, tl, bag, results, nxt]
                        cps.pop()
                        if _unify(cp[2], mklist(cp[3]), bind, trail, sto):
                            frame = cp[4]
                            failed = False
                    continue
                # ------------------------------------------------- solution
                if frame is None:
                    self.steps = steps
                    yield bind
                    failed = True
                    continue
                # ------------------------------------------------------ step
                goal, cb, depth, nxt = frame
                tag = goal[0]
                if tag == "call":
                    t = goal[1]
                    opaque = t[0] == "var"
                    t = _deref(t, bind)
                    tt = t[0]
                    if tt == "var":
                        raise RefError("instantiation_error", "unbound goal")
                    if tt == "int":
                        raise RefError("type_error", "callable expected, found %r" % (t[1],))
                    if tt == "atom":
                        name, args = t[1], ()
                    else:
                        name, args = t[1], t[2]
                    n = len(args)
                    # control constructs reaching us as terms
                    if ((n == 0 and name in ("true", "fail", "!")) or
                            (n == 2 and name in (",", ";", "->")) or (n == 1 and name == "\\+")):
                        frame = (term_to_goal(t), len(cps) if opaque else cb, depth, nxt)
                        continue
                    if name == "=" and n == 2:
                        if _unify(args[0], args[1], bind, trail, sto):
                            frame = nxt
                        else:
                            failed = True
                    elif name == "\\=" and n == 2:
                        mark = len(trail)
                        ok = _unify(args[0], args[1], bind, trail, sto)
                        undo(mark)
                        if ok:
                            failed = True
                        else:
                            frame = nxt
                    elif name == "call" and n >= 1:
                        g = _deref(args[0], bind)
                        if g[0] == "var":
                            raise RefError("instantiation_error", "call/%d" % n)
                        if g[0] == "int":
                            raise RefError("type_error", "callable expected, found %r" % (g[1],))
                        if n > 1:
                            if g[0] == "atom":
                                g = ("fun", g[1], tuple(args[1:]))
                            else:
                                g = ("fun", g[1], g[2] + tuple(args[1:]))
                        # cut inside call/N is local to the call
                        frame = (("call", g), len(cps), depth, nxt)
                    elif name == "once" and n == 1:
                        B = len(cps)
                        frame = (("call", args[0]), B, depth, (("$cutto", B), cb, depth, nxt))
                    elif name == "findall" and n == 3:
                        results = []
                        cps.append([_FINDALL, len(trail), args[2], results, nxt])
                        frame = (("call", args[1]), len(cps), depth,
                                 (("$collect", args[0], results), 0, depth, None))
                    elif (name == "assertz" or name == "asserta") and n == 1:
                        self._store(resolve(args[0], bind), name == "assertz")
                        frame = nxt
                    elif name == "retract" and n == 1:
                        g = _deref(args[0], bind)
                        if g[0] == "var":
                            raise RefError("instantiation_error", "retract/1")
                        if g[0] == "int":
                            raise RefError("type_error", "retract/1")
                        key = name_arity(g)
                        facts = self.dyn.get(key)
                        if facts:
                            cps.append([_RETRACT, len(trail), g, list(facts), 0, key, nxt])
                        failed = True      # (enter through the choicepoint)
                    elif name == "retractall" and n == 1:
                        g = _deref(args[0], bind)
                        if g[0] == "var":
                            raise RefError("instantiation_error", "retractall/1")
                        if g[0] == "int":
                            raise RefError("type_error", "retractall/1")
                        key = name_arity(g)
                        for f in list(self.dyn.get(key, ())):
                            mark = len(trail)
                            ok = _unify(g, self._rename(f.term) if f.nvars else f.term, bind, trail)
                            undo(mark)
                            if ok:
                                self._remove(key, f)
                        frame = nxt
                    else:
                        segs = self._segments((name, n))
                        if not segs:
                            failed = True          # unknown predicate: fail
                        else:
                            if len(segs) > 1:
                                cps.append([_SEGS, len(trail), t, segs, 1, depth, nxt])
                            skind, payload = segs[0]
                            if skind == _NATIVE:
                                it = iter(payload(self, tuple(resolve(a, bind) for a in args), bind))
                                cps.append([_NATIVE, len(trail), t, it, depth, nxt])
                            else:
                                cps.append([skind, len(trail), t, payload, 0, depth, nxt])
                            failed = True          # enter through the choicepoint
                elif tag == ",":
                    frame = (goal[1], cb, depth, (goal[2], cb, depth, nxt))
                elif tag == "true":
                    frame = nxt
                elif tag == "fail":
                    failed = True
                elif tag == "cut":
                    cut_to(cb)
                    frame = nxt
                elif tag == ";":
                    left = goal[1]
                    if left[0] == "->":
                        B = len(cps)
                        cps.append((_ALT, len(trail), (goal[2], cb, depth, nxt)))
                        # cut inside the condition is local to the condition
                        frame = (left[1], B + 1, depth,
                                 (("$cutto", B), cb, depth, (left[2], cb, depth, nxt)))
                    else:
                        cps.append((_ALT, len(trail), (goal[2], cb, depth, nxt)))
                        frame = (left, cb, depth, nxt)
                elif tag == "->":
                    B = len(cps)
                    frame = (goal[1], B, depth, (("$cutto", B), cb, depth, (goal[2], cb, depth, nxt)))
                elif tag == "\\+":
                    B = len(cps)
                    cps.append((_ALT, len(trail), nxt))
                    frame = (goal[1], B + 1, depth, (("$cutto", B), cb, depth, FAILF))
                elif tag == "$cutto":
                    cut_to(goal[1])
                    frame = nxt
                elif tag == "$collect":
                    goal[2].append(self._rename(resolve(goal[1], bind)))
                    failed = True
                else:
                    raise ValueError("bad goal %r" % (goal,))
        finally:
            self.steps = steps
            cut_to(0)


def facts_native(rows):
    """native predicate equivalent to the facts rows (tuples of argument terms;
    variables in a row are renamed fresh at each use)."""
    cnt = itertools.count(1)
    rows = [tuple(_anonymise(t, cnt) for t in r) for r in rows]    # every `_` is its own variable

    def native(engine, args, subst):
        for r in rows:
            if len(r) != len(args):
                continue
            if r:
                rr = engine._rename(("fun", "$", r))[2]
            else:
                rr = ()
            d = unify_delta(args, rr)
            if d is not None:
                yield d
    return native
