"""Bounded translation validation of A-CPY-TEXT (C01, C05, C06): the text that YPPythonCodeGenerator emits for a YPCode tree,
executed by CPython, behaves as the target semantics <<.>> of spec/control.smt2 / lean/CtlM1.lean says.

Every tree is built from the REAL YPCode classes, rendered by the REAL generator, exec'ed, and run against stub goals that
record every call and every answer; the oracle is a direct Python rendering of <<.>>:
    <<[]>> = fail, <<s::ss>> = seq, YieldFalse/YieldTrue = yield, YieldBreak = cut, Foreach(query(g), c) = bind(call g, <<c>>),
    BreakableBlock(l, c) = block(l, <<c>>), BreakBlock(l) = exit(l)
Compared: the interleaved sequence of stub calls, stub answers and answers of the function.

  s_tv.py run <seed> <count>      s_tv.py replay <file>
"""
import json
import os
import random
import sys
import types

sys.path.insert(0, os.environ.get('YLD_REPO_SRC', '/repo/src'))
from yldprolog import yp_generator as G  # noqa

GOALS = {'g0': 0, 'g1': 1, 'g2': 2}


class Ctx:
    debug_filename = ''
    debug_parser = False
    debug_generator = False
    current_source_file = ''
    outf = None


# ---- tree descriptions (JSON-able): ["yf"] ["yt"] ["ret"] ["for", g, code] ["block", l, code] ["brk", l]
def build(code):
    out = []
    for s in code:
        k = s[0]
        if k == 'yf':
            out.append(G.YPCodeYieldFalse())
        elif k == 'yt':
            out.append(G.YPCodeYieldTrue())
        elif k == 'ret':
            out.append(G.YPCodeYieldBreak())
        elif k == 'for':
            out.append(G.YPCodeForeach(G.YPCodeCall('query', [G.YPCodeExpr(s[1]), G.YPCodeList([])]), build(s[2])))
        elif k == 'block':
            out.append(G.YPCodeBreakableBlock('cutIf%d' % s[1], build(s[2])))
        elif k == 'brk':
            out.append(G.YPCodeBreakBlock('cutIf%d' % s[1]))
    return out


def run_real(code, nargs):
    args = ['arg%d' % (i + 1) for i in range(nargs)]
    prog = G.YPCodeProgram([G.YPCodeFunction('f', args, build(code))])
    text = G.YPPythonCodeGenerator(Ctx).generate(prog)
    ev = []

    def query(name, a):
        ev.append('call ' + name)
        for j in range(GOALS[name]):
            ev.append('ans %s %d' % (name, j))
            yield False

    ns = {'__builtins__': {}, 'query': query, 'True': True, 'False': False}
    exec(compile(text, '<tv>', 'exec'), ns)
    f = ns['f_%d' % nargs]
    n = 0
    for _ in f(*([None] * nargs)):
        ev.append('yield')
        n += 1
        if n > 200:
            ev.append('TOO MANY')
            break
    return ev, text


DONE, CUT = 'done', 'cut'


def run_spec(code):
    ev = []

    def goal(name):
        ev.append('call ' + name)
        for j in range(GOALS[name]):
            ev.append('ans %s %d' % (name, j))
            yield

    def rc(code):
        for s in code:
            st = yield from rs(s)
            if st != DONE:
                return st
        return DONE

    def rs(s):
        k = s[0]
        if k in ('yf', 'yt'):
            yield
            return DONE
        if k == 'ret':
            return CUT
        if k == 'brk':
            return ('exit', s[1])
        if k == 'for':
            for _ in goal(s[1]):
                st = yield from rc(s[2])
                if st != DONE:
                    return st
            return DONE
        if k == 'block':
            st = yield from rc(s[2])
            return DONE if st == ('exit', s[1]) else st
        raise ValueError(k)

    g = rc(code)
    try:
        while True:
            next(g)
            ev.append('yield')
    except StopIteration as e:
        status = e.value
    return ev, status


def trees(depth, labels, rng=None, width=2):
    """all code lists (length <= width) of statement depth <= depth; BreakBlock only for enclosing labels"""
    def stmts(d, labels, nextl):
        out = [['yf'], ['ret']] + [['brk', l] for l in labels]
        if d > 0:
            for c in codes(d - 1, labels, nextl):
                for g in GOALS:
                    out.append(['for', g, c])
            for c in codes(d - 1, labels + [nextl], nextl + 1):
                out.append(['block', nextl, c])
        return out

    def codes(d, labels, nextl):
        ss = stmts(d, labels, nextl)
        out = [[]] + [[s] for s in ss]
        if width >= 2:
            for a in ss:
                for b in ss:
                    out.append([a, b])
        return out
    return codes(depth, labels, 1)


def rand_code(rng, d, labels, nextl, width=3):
    n = rng.choice([0, 1, 1, 2, 2, 3][:width + 3])
    out = []
    for _ in range(n):
        r = rng.random()
        if d == 0 or r < 0.3:
            out.append(rng.choice([['yf'], ['yf'], ['yt'], ['ret']] + [['brk', l] for l in labels]))
        elif r < 0.7:
            out.append(['for', rng.choice(list(GOALS)), rand_code(rng, d - 1, labels, nextl, width)])
        else:
            out.append(['block', nextl, rand_code(rng, d - 1, labels + [nextl], nextl + 1, width)])
    return out


def check(sc):
    code, nargs = sc['code'], sc.get('nargs', 0)
    exp, status = run_spec(code)
    if isinstance(status, tuple):
        return None, 'ill-formed (exit escapes)'
    try:
        got, text = run_real(code, nargs)
    except Exception as e:  # noqa
        return False, 'real generator/exec raised %s: %s' % (type(e).__name__, str(e)[:120])
    if got != exp:
        return False, 'expected %s observed %s' % (' '.join(exp)[:300], ' '.join(got)[:300])
    return True, 'ok'


def main():
    if sys.argv[1] == 'replay':
        sc = json.load(open(sys.argv[2]))
        sc = sc.get('scenario', sc)
        ok, detail = check(sc)
        print(json.dumps(dict(ok=ok is not False, detail=detail)))
        sys.exit(1 if ok is False else 0)
    seed, count = int(sys.argv[2]), int(sys.argv[3])
    rng = random.Random(seed)
    cases = []
    ex = trees(1, [], width=2)
    rng.shuffle(ex)
    cases += [dict(code=c, nargs=0) for c in ex[:count // 3]]
    while len(cases) < count:
        cases.append(dict(code=rand_code(rng, rng.randint(1, 4), [], 1), nargs=rng.choice([0, 0, 1])))
    fails, n, nontriv, samples = [], 0, set(), []
    for sc in cases:
        ok, detail = check(sc)
        if ok is None:
            continue
        n += 1
        key = json.dumps(sc['code'])
        if 'for' in key or 'block' in key:
            nontriv.add(key)
        if n % 211 == 5 and len(samples) < 3:
            samples.append(sc)
        if ok is False and len(fails) < 20:
            fails.append(dict(scenario=sc, detail=detail))
    print(json.dumps(dict(evaluations=n, distinct_nontrivial=len(nontriv), failures=fails, failure_count=len(fails), samples=samples,
                          rule='YPCode trees: all code lists of <=2 statements of depth <=1 (shuffled, first count/3) + random trees of depth <=4, '
                               'lists <=3, goals with 0/1/2 answers, nested breakable blocks with breaks to any enclosing label; ill-formed trees '
                               '(a break that escapes the function) are skipped; non-trivial = contains a loop or a block')))


if __name__ == '__main__':
    main()
