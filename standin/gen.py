"""Case generators for the differ: seeded random (random.Random(seed)) and, for
the small families, exhaustive enumerators.  Pure standard library.

Every generator yields Case objects:
    family   "F1".."F5"
    id       short text id
    program  list of clauses (first consult, overwrite=True)
    more     list of (program, overwrite) consulted afterwards (usually empty)
    queries  list of goals (for F4 "compiled" cases they are run IN ORDER on one
             engine and the database is compared after each)
    history  (F4 "api" cases) list of API operations
                ("assertz",t) ("asserta",t) ("retract",t,k_or_None) ("retractall",t)
                ("clear",) ("query",goal)
    dbkeys   (F4) list of (name, arity) whose facts are compared after every step
    swap     (F5) dict (name, arity) -> rows: fact predicates that the harness
             re-implements as registered python generators; `program` still
             contains their facts (the oracle runs the original program), the
             harness strips them for the engine under test
    special  True if the case uses the family's special construct
"""

import itertools
import random
import os
import sys

_here = os.path.dirname(os.path.abspath(__file__))
if _here not in sys.path:
    sys.path.insert(0, _here)


from terms import (NIL, TRUE, FAIL, CUT, atom, int_, var, fun, call, eq, neq, conj,
                   mklist, name_arity, vars_of)


class Case(object):
    __slots__ = ("family", "id", "program", "more", "queries", "history", "dbkeys", "swap", "special")

    def __init__(self, family, id, program, queries, more=(), history=None, dbkeys=(), swap=None,
                 special=False):
        self.family = family
        self.id = id
        self.program = program
        self.more = list(more)
        self.queries = queries
        self.history = history
        self.dbkeys = list(dbkeys)
        self.swap = swap
        self.special = special


def fact(t):
    return (t, TRUE)


A, B, C = atom("a"), atom("b"), atom("c")


# =========================================================================== F1
_ATOMS = [A, B, C]
_INTS = [int_(0), int_(1), int_(2)]


def _rterm(rng, pool, depth, allow_anon=True):
    """random term over the variable pool"""
    r = rng.random()
    if depth <= 0 or r < 0.55:
        r2 = rng.random()
        if r2 < 0.40 and pool:
            return rng.choice(pool)
        if r2 < 0.48 and allow_anon:
            return var("_")
        if r2 < 0.80:
            return rng.choice(_ATOMS)
        if r2 < 0.93:
            return rng.choice(_INTS)
        return NIL
    r2 = rng.random()
    if r2 < 0.07:
        # the same functor names with other arities (f/2, g/1, g/3): never unify with f/1, g/2
        n = rng.choice([("f", 2), ("g", 1), ("g", 3)])
        return fun(n[0], *[_rterm(rng, pool, depth - 1, allow_anon) for _ in range(n[1])])
    if r2 < 0.35:
        return fun("f", _rterm(rng, pool, depth - 1, allow_anon))
    if r2 < 0.55:
        return fun("g", _rterm(rng, pool, depth - 1, allow_anon), _rterm(rng, pool, depth - 1, allow_anon))
    if r2 < 0.80 or not pool:
        n = rng.randint(1, 3)
        return mklist([_rterm(rng, pool, depth - 1, allow_anon) for _ in range(n)])
    n = rng.randint(1, 2)
    return mklist([_rterm(rng, pool, depth - 1, allow_anon) for _ in range(n)], rng.choice(pool))


def _occurs_bad(a, b):
    """X = t with X inside t (would build a cyclic term)"""
    for x, y in ((a, b), (b, a)):
        if x[0] == "var" and y[0] == "fun" and x in vars_of(y):
            return True
    return False


def _random_layered(rng, ident):
    """facts e*/0..3 and layered rules r1..rk (rule i only calls lower layers)"""
    program = []
    preds = []          # (name, arity)
    nfp = rng.randint(1, 3)
    for i in range(nfp):
        ar = rng.choice([0, 1, 1, 2, 2, 3])
        name = "e%d" % i
        for _ in range(1 if ar == 0 else rng.randint(1, 4)):
            pool = [var("X"), var("Y")] if rng.random() < 0.25 else []
            args = [_rterm(rng, pool, 1) for _ in range(ar)]
            program.append(fact(fun(name, *args)))
        preds.append((name, ar))
    nrules = rng.randint(1, 3)
    for i in range(nrules):
        ar = rng.choice([0, 1, 1, 2, 2, 3])
        name = "r%d" % i
        if preds and rng.random() < 0.08:
            # a predicate whose NAME looks like the name_arity of another one (step_1 beside step/1)
            name = "%s_%d" % rng.choice(preds)
            if any(pn == name for pn, _ in preds):
                name = "r%d" % i
        lower = list(preds)
        for _ in range(rng.randint(1, 3)):
            pool = [var("X"), var("Y"), var("Z")]
            head = fun(name, *[_rterm(rng, pool, 1) for _ in range(ar)])
            goals = []
            for _ in range(rng.randint(1, 3)):
                r = rng.random()
                if r < 0.6:
                    pn, pa = rng.choice(lower)
                    goals.append(call(fun(pn, *[_rterm(rng, pool, 1) for _ in range(pa)])))
                elif r < 0.78:
                    for _try in range(5):
                        a, b = _rterm(rng, pool, 1), _rterm(rng, pool, 1)
                        if not _occurs_bad(a, b):
                            goals.append(eq(a, b))
                            break
                elif r < 0.92:
                    goals.append(neq(_rterm(rng, pool, 1), _rterm(rng, pool, 1)))
                elif r < 0.985:
                    goals.append(TRUE)
                else:
                    goals.append(FAIL)
            if not goals:
                goals = [TRUE]
            program.append((head, conj(*goals)))
        preds.append((name, ar))
    rng.shuffle(program) if rng.random() < 0.15 else None
    queries = []
    for pn, pa in preds:
        for _ in range(2 if pa else 1):
            qpool = [var("P"), var("Q"), var("R")]
            mode = rng.random()
            if mode < 0.4:
                args = [qpool[i] for i in range(pa)]
            elif mode < 0.55:
                args = [rng.choice(qpool[:2]) for _ in range(pa)]
            else:
                args = [_rterm(rng, qpool, 1) for _ in range(pa)]
            queries.append(call(fun(pn, *args)))
    more = []
    if rng.random() < 0.12:
        # a second consult of one of the predicates (overwrite or append)
        pn, pa = rng.choice(preds)
        extra = [fact(fun(pn, *[_rterm(rng, [], 1) for _ in range(pa)])) for _ in range(rng.randint(1, 2))]
        more.append((extra, rng.random() < 0.5))
    return Case("F1", ident, program, queries, more=more)


_LISTLIB = None


def _listlib():
    global _LISTLIB
    if _LISTLIB is None:
        X, Y, Z, H, T, L, R, N, Acc = [var(n) for n in "X Y Z H T L R N Acc".split()]
        _LISTLIB = {
            "member": [fact(fun("member", X, mklist([X], var("_")))),
                       (fun("member", X, mklist([var("_")], T)), call(fun("member", X, T)))],
            "append": [fact(fun("append", NIL, L, L)),
                       (fun("append", mklist([H], T), L, mklist([H], R)), call(fun("append", T, L, R)))],
            "len": [fact(fun("len", NIL, atom("z"))),
                    (fun("len", mklist([var("_")], T), fun("s", N)), call(fun("len", T, N)))],
            "rev": [(fun("rev", L, R), call(fun("rev3", L, NIL, R))),
                    fact(fun("rev3", NIL, Acc, Acc)),
                    (fun("rev3", mklist([H], T), Acc, R), call(fun("rev3", T, mklist([H], Acc), R)))],
            "last": [fact(fun("last", mklist([X]), X)),
                     (fun("last", mklist([var("_")], T), X), call(fun("last", T, X)))],
            "add": [fact(fun("add", atom("z"), Y, Y)),
                    (fun("add", fun("s", X), Y, fun("s", Z)), call(fun("add", X, Y, Z)))],
            "path": [(fun("path", X, Y), call(fun("edge", X, Y))),
                     (fun("path", X, Y), conj(call(fun("edge", X, Z)), call(fun("path", Z, Y))))],
            "sel": [fact(fun("sel", X, mklist([X], T), T)),
                    (fun("sel", X, mklist([H], T), mklist([H], R)), call(fun("sel", X, T, R)))],
        }
    return _LISTLIB


def _rlist(rng, maxlen=4):
    return mklist([rng.choice(_ATOMS + _INTS[:2]) for _ in range(rng.randint(0, maxlen))])


def _peano(n):
    t = atom("z")
    for _ in range(n):
        t = fun("s", t)
    return t


def _recursive_case(rng, ident):
    lib = _listlib()
    which = rng.choice(sorted(lib))
    program = list(lib[which])
    P, Q, R = var("P"), var("Q"), var("R")
    qs = []
    if which == "member":
        l = _rlist(rng)
        qs = [call(fun("member", P, l)), call(fun("member", rng.choice(_ATOMS), l)),
              call(fun("member", P, mklist([fun("f", Q), fun("f", A), P]))),
              conj(call(fun("member", P, l)), call(fun("member", P, _rlist(rng))))]
    elif which == "append":
        l = _rlist(rng)
        qs = [call(fun("append", P, Q, l)), call(fun("append", _rlist(rng, 3), _rlist(rng, 3), R)),
              call(fun("append", P, mklist([rng.choice(_ATOMS)], var("_")), l)),
              call(fun("append", _rlist(rng, 2), Q, l)),
              conj(call(fun("append", P, Q, l)), call(fun("append", Q, P, R)))]
    elif which == "len":
        qs = [call(fun("len", _rlist(rng, 5), P)), call(fun("len", P, _peano(rng.randint(0, 3)))),
              call(fun("len", mklist([A, P], NIL), Q))]
    elif which == "rev":
        qs = [call(fun("rev", _rlist(rng, 5), P)), call(fun("rev", mklist([P, Q, A]), R))]
    elif which == "last":
        qs = [call(fun("last", _rlist(rng, 5), P)), call(fun("last", mklist([A, B, P]), C))]
    elif which == "add":
        qs = [call(fun("add", P, Q, _peano(rng.randint(0, 4)))),
              call(fun("add", _peano(rng.randint(0, 3)), _peano(rng.randint(0, 3)), R)),
              call(fun("add", P, _peano(1), _peano(rng.randint(0, 3))))]
    elif which == "path":
        nodes = [atom("n%d" % i) for i in range(rng.randint(3, 6))]
        for i in range(len(nodes)):
            for j in range(i + 1, len(nodes)):
                if rng.random() < 0.45:
                    program.append(fact(fun("edge", nodes[i], nodes[j])))
        rng.shuffle(program) if rng.random() < 0.3 else None
        qs = [call(fun("path", nodes[0], P)), call(fun("path", P, nodes[-1])), call(fun("path", P, Q)),
              call(fun("path", nodes[0], nodes[-1]))]
    elif which == "sel":
        l = _rlist(rng)
        qs = [call(fun("sel", P, l, Q)), call(fun("sel", rng.choice(_ATOMS), l, Q)),
              call(fun("sel", A, P, mklist([B, C])))]
    return Case("F1", ident, program, qs)


def _decl_case(rng, ident):
    """variables whose ONLY occurrences are nested: inside a compound element of a list, an inner list, a list tail, a compound
    inside a compound - in a body goal, on the right of `=`, in the head. Every one must be a variable of its own of the clause."""
    wrappers = [lambda v: mklist([fun("g", v)]), lambda v: mklist([mklist([v])]), lambda v: mklist([A], v),
                lambda v: fun("f", fun("g", v)), lambda v: mklist([B, fun("g", v, A)]), lambda v: fun("f", mklist([v]))]
    w = rng.choice(wrappers)
    w2 = rng.choice(wrappers)
    V, V2, V3, Y, Z, L = var("V"), var("V2"), var("V3"), var("Y"), var("Z"), var("L")
    program = [fact(fun("r", w(A), B)), fact(fun("r", w(C), C)),
               (fun("q", Y), call(fun("r", w(V), Y))),
               (fun("w", Z, L), eq(L, w2(V2))),
               fact(fun("h", w(V3))),
               (fun("k", Y), conj(call(fun("r", w2(V), Y)), call(fun("r", w(V2), Y))))]
    # ground unification goals between terms whose printed forms look alike: decided by unification, not by their spelling
    t1, t2 = rng.choice([(atom("f(a)"), fun("f", A)), (atom("[a]"), mklist([A])), (atom("a,b"), fun(",", A, B)) if False else (atom("g(a,b)"), fun("g", A, B)),
                         (fun("f", atom("a b")), fun("f", atom("a  b"))), (int_(1), atom("1"))])
    program += [(atom("t1"), conj(eq(t1, t2), TRUE)), (atom("t2"), conj(neq(t1, t2), TRUE)), (atom("t3"), conj(eq(t2, t2), TRUE)),
                (atom("t4"), conj(neq(t1, t1), TRUE))]
    P, Q = var("P"), var("Q")
    queries = [call(fun("q", P)), call(fun("w", A, P)), call(fun("h", P)), call(fun("h", w(B))), call(fun("k", P)),
               call(fun("w", P, w2(Q))), call(atom("t1")), call(atom("t2")), call(atom("t3")), call(atom("t4"))]
    return Case("F1", ident, program, queries)


def gen_F1(seed, count):
    rng = random.Random(seed)
    for i in range(count):
        if i % 11 == 5:
            yield _decl_case(rng, "F1-%d-%d-decl" % (seed, i))
            continue
        if rng.random() < 0.3:
            yield _recursive_case(rng, "F1-%d-%d-rec" % (seed, i))
        else:
            yield _random_layered(rng, "F1-%d-%d" % (seed, i))


def exhaustive_F1():
    """all pairs of head / query argument patterns of p/2 (head unification,
    repeated and nested variables, lists, `_`)"""
    X, Y = var("X"), var("Y")
    P, Q = var("P"), var("Q")
    heads = [X, Y, var("_"), A, int_(1), fun("f", X), fun("g", X, Y), mklist([X], Y), mklist([A]), NIL]
    qs = [P, Q, A, B, int_(1), fun("f", P), fun("f", B), fun("g", A, Q), mklist([A]), mklist([P, Q]), mklist([P], Q)]
    queries = [call(fun("p", q1, q2)) for q1 in qs for q2 in qs]
    n = 0
    for h1 in heads:
        for h2 in heads:
            program = [fact(fun("p", h1, h2)), fact(fun("p", C, C)),
                       (fun("r", X, Y), conj(call(fun("p", X, Y)), call(fun("p", Y, X))))]
            yield Case("F1", "F1-ex-%d" % n, program, queries + [call(fun("r", P, Q)), call(fun("r", P, P))],
                       special=True)
            n += 1


# =========================================================================== F2
LEAF_A, LEAF_B, LEAF_C = ("leaf", "a"), ("leaf", "b"), ("leaf", "c")
_F2_LEAVES_CUT = [LEAF_A, LEAF_B, LEAF_C, TRUE, FAIL, CUT]
_F2_LEAVES_NOCUT = [LEAF_A, LEAF_B, LEAF_C, TRUE, FAIL]
_F2_FACTS = [fact(fun("a", int_(1))), fact(fun("a", int_(2))), fact(fun("b", int_(1))),
             fact(fun("pick", int_(1))), fact(fun("pick", int_(2)))]
_tree_cache = {}


def f2_trees(depth, cut_ok=True):
    """all body trees of depth <= `depth`; leaves ("leaf", name) are leaf-goal
    placeholders.  Cuts never appear in the condition of -> or under \\+."""
    key = (depth, cut_ok)
    r = _tree_cache.get(key)
    if r is not None:
        return r
    if depth == 0:
        r = list(_F2_LEAVES_CUT if cut_ok else _F2_LEAVES_NOCUT)
    else:
        sub = f2_trees(depth - 1, cut_ok)
        subnc = f2_trees(depth - 1, False)
        r = list(sub)
        for op in (",", ";"):
            for l in sub:
                for rr in sub:
                    r.append((op, l, rr))
        for c in subnc:
            for t in sub:
                r.append(("->", c, t))
        for g in subnc:
            r.append(("\\+", g))
    _tree_cache[key] = r
    return r


EQ_NEW, EQ_PREV = ("leafeq", "new"), ("leafeq", "prev")


def _f2_random_tree(rng, depth, cut_ok=True):
    if depth == 0 or rng.random() < 0.15:
        if rng.random() < 0.12:
            # a unification as a goal: V = 1 with a new variable (succeeds), or <previous leaf variable> = 2 (fails when that
            # variable is bound to 1)
            return rng.choice([EQ_NEW, EQ_PREV, EQ_PREV])
        return rng.choice(_F2_LEAVES_CUT if cut_ok else _F2_LEAVES_NOCUT)
    op = rng.choice([",", ",", ";", ";", "->", "\\+"])
    if op == "\\+":
        return ("\\+", _f2_random_tree(rng, depth - 1, False))
    if op == "->":
        return ("->", _f2_random_tree(rng, depth - 1, False), _f2_random_tree(rng, depth - 1, cut_ok))
    return (op, _f2_random_tree(rng, depth - 1, cut_ok), _f2_random_tree(rng, depth - 1, cut_ok))


def _f2_instantiate(tree, prefix):
    """replace leaf placeholders by a(V1), b(V2).. with a distinct variable each;
    returns (goal, [vars])"""
    vs = []

    def walk(t):
        tag = t[0]
        if tag == "leaf":
            v = var("%s%d" % (prefix, len(vs) + 1))
            vs.append(v)
            return call(fun(t[1], v))
        if tag == "leafeq":
            if t[1] == "prev" and vs:
                return eq(vs[-1], int_(2))
            v = var("%s%d" % (prefix, len(vs) + 1))
            vs.append(v)
            return eq(v, int_(1))
        if tag in (",", ";", "->"):
            l = walk(t[1])
            return (tag, l, walk(t[2]))
        if tag == "\\+":
            return (tag, walk(t[1]))
        return t
    return walk(tree), vs


def f2_case(ident, tree1, tree2=None):
    b1, v1 = _f2_instantiate(tree1, "V")
    if tree2 is None:
        b2, v2 = TRUE, []
    else:
        b2, v2 = _f2_instantiate(tree2, "W")
    k = max(len(v1), len(v2))
    h1 = fun("t", atom("one"), *(v1 + [var("_")] * (k - len(v1))))
    h2 = fun("t", atom("two"), *(v2 + [var("_")] * (k - len(v2))))
    M = var("M")
    xs = [var("X%d" % (i + 1)) for i in range(k)]
    # the constant facts are consulted first, on their own (lets the harness
    # reuse their compilation), then the clauses under test
    rules = [
        (h1, b1), (h2, b2),
        (fun("top", M, *xs), conj(call(fun("pick", var("_"))), call(fun("t", M, *xs)))),
    ]
    queries = [call(fun("top", M, *xs)), call(fun("t", M, *xs)), call(fun("t", atom("two"), *xs))]
    return Case("F2", ident, list(_F2_FACTS), queries, more=[(rules, True)], special=True)


def f2_case_heads(ident, tree1, tree2, shape):
    """clause selection through the HEAD rather than a constant first argument: heads made of variables only (one of them
    repeated, or all distinct), bodies from the control trees, a later catch-all clause; queries with equal, different and
    unbound arguments - a cut in the first clause commits only when its head really unified"""
    b1, v1 = _f2_instantiate(tree1, "V")
    b2, v2 = _f2_instantiate(tree2, "W") if tree2 is not None else (TRUE, [])
    X, Y, Z = var("X"), var("Y"), var("Z")
    h1 = {"xx": fun("t", X, X, Z), "xyx": fun("t", X, Y, X), "xyz": fun("t", X, Y, Z)}[shape]
    rules = [(h1, conj(b1, eq(Z, atom("first")))), (fun("t", X, Y, Z), conj(b2, eq(Z, atom("second")))),
             (fun("t", var("_"), var("_"), atom("third")), TRUE)]
    P, Q, R = var("P"), var("Q"), var("R")
    queries = [call(fun("t", int_(1), int_(1), R)), call(fun("t", int_(1), int_(2), R)), call(fun("t", P, Q, R)),
               call(fun("t", int_(1), Q, R)), conj(call(fun("pick", P)), call(fun("t", P, int_(2), R)))]
    return Case("F2", ident, list(_F2_FACTS), queries, more=[(rules, True)], special=True)


def exhaustive_F2(max_depth=2):
    for i, tree in enumerate(f2_trees(max_depth, True)):
        yield f2_case("F2-ex%d-%d" % (max_depth, i), tree)


def gen_F2(seed, count, max_depth=3):
    rng = random.Random(seed)
    for i in range(count):
        d = rng.randint(1, max_depth)
        t1 = _f2_random_tree(rng, d)
        t2 = _f2_random_tree(rng, rng.randint(0, 2)) if rng.random() < 0.5 else None
        if i % 8 == 5:
            yield f2_case_heads("F2h-%d-%d" % (seed, i), t1, t2, rng.choice(["xx", "xyx", "xyz"]))
            continue
        yield f2_case("F2-%d-%d" % (seed, i), t1, t2)


# =========================================================================== F3
def _f3_base():
    X = var("X")
    return [fact(fun("n", int_(1))), fact(fun("n", int_(2))), fact(fun("n", int_(3))),
            fact(fun("pair", A, int_(1))), fact(fun("pair", B, int_(2))), fact(fun("pair", A, int_(3))),
            fact(atom("foo")),
            fact(fun("dbl", X, fun("f", X))),
            (fun("nn", X), conj(call(fun("n", X)), neq(X, int_(2))))]


N_F3_INNER = 14
N_F3_FORMS = 18


def _f3_inner(rng, pool, which=None):
    """a base goal term (callable)"""
    v1, v2 = rng.sample(pool, 2)
    choices = [
        fun("n", v1), fun("n", int_(2)), fun("n", int_(7)),
        fun("pair", v1, v2), fun("pair", A, v1), fun("pair", v1, int_(2)), fun("pair", C, v1),
        atom("foo"), atom("nofoo"), fun("nope", v1), fun("dbl", v1, v2), fun("dbl", A, v1), fun("nn", v1),
        fun("=", v1, rng.choice([A, fun("f", v2), int_(1)])),
    ]
    assert len(choices) == N_F3_INNER
    return rng.choice(choices) if which is None else choices[which]


def _split_call(rng, t):
    """call(G, Extra...) with the last j arguments of t moved to extra args"""
    if t[0] == "atom":
        return fun("call", t)
    args = t[2]
    j = rng.randint(0, len(args))
    keep, extra = args[:len(args) - j], args[len(args) - j:]
    g = fun(t[1], *keep)
    return fun("call", g, *extra)


def _template(rng, t, pool):
    vs = vars_of(t)
    r = rng.random()
    if vs and r < 0.5:
        return rng.choice(vs)
    if vs and r < 0.75:
        return fun("f", *vs[:2])
    if r < 0.85:
        return fun("k", rng.choice(pool), vs[0]) if vs else rng.choice(pool)
    return atom("x")


def _f3_meta_goal(rng, pool, gvar, which=None, form=None):
    """one meta-call goal (a goal tuple), possibly G = Goal, ... conjunctions"""
    t = _f3_inner(rng, pool, which)
    L = rng.choice([var("L"), var("L2")])
    if form is None:
        form = rng.randint(0, N_F3_FORMS - 1)
    if form == 0:
        return call(t)
    if form == 1:
        return call(fun("call", t))
    if form == 2:
        return call(_split_call(rng, t))
    if form == 3:
        return conj(eq(gvar, t), call(fun("call", gvar)))
    if form == 4:
        if t[0] == "fun" and len(t[2]) >= 1:
            g = fun(t[1], *t[2][:-1])
            return conj(eq(gvar, g), call(fun("call", gvar, t[2][-1])))
        return conj(eq(gvar, t), call(fun("call", gvar)))
    if form == 5:
        return call(fun("once", t))
    if form == 6:
        return conj(eq(gvar, t), call(fun("once", gvar)))
    if form == 7:
        return call(fun("findall", _template(rng, t, pool), t, L))
    if form == 8:
        return conj(eq(gvar, t), call(fun("findall", _template(rng, t, pool), gvar, L)))
    if form == 9:
        return call(fun("findall", _template(rng, t, pool), _split_call(rng, t), L))
    if form == 10:
        return call(fun("findall", _template(rng, t, pool), fun("once", t), L))
    if form == 11:
        return call(fun("once", _split_call(rng, t)))
    if form == 12:
        return call(fun("call", atom("once"), t))
    if form == 13:
        return call(fun("call", atom("findall"), _template(rng, t, pool), t, L))
    if form == 14:
        L1 = var("L1")
        return call(fun("findall", L1, fun("findall", _template(rng, t, pool), t, L1), L))
    if form in (16, 17):
        # a closure inside a closure: call(call(G, Mid...), Last...) adds Mid before Last
        if t[0] == "fun" and len(t[2]) >= 2:
            args = t[2]
            i = rng.randint(0, len(args) - 2)
            j = rng.randint(i + 1, len(args) - 1)
            inner = fun("call", fun(t[1], *args[:i]) if i else atom(t[1]), *args[i:j])
            if form == 16:
                return call(fun("call", inner, *args[j:]))
            return conj(eq(gvar, inner), call(fun("call", gvar, *args[j:])))
        return call(_split_call(rng, t))
    # findall with a partly bound result list
    return call(fun("findall", _template(rng, t, pool), t, rng.choice([mklist([var("E1")], var("Es")), NIL,
                                                                      mklist([var("E1"), var("E2")])])))


def _f3_body(rng, pool, depth=1):
    gvars = [var("G"), var("G2"), var("G3")]
    goals = []
    for i in range(rng.randint(1, 3)):
        r = rng.random()
        if r < 0.75:
            goals.append(_f3_meta_goal(rng, pool, gvars[i]))
        elif r < 0.85:
            goals.append(neq(rng.choice(pool), rng.choice([A, int_(1), fun("f", rng.choice(pool))])))
        elif r < 0.985:
            goals.append(eq(rng.choice(pool), rng.choice([A, int_(1), int_(2), B])))
        else:
            goals.append(call(fun("call", atom("!"))))
    body = conj(*goals)
    if depth > 0:
        r = rng.random()
        if r < 0.12:
            body = (";", body, _f3_body(rng, pool, 0))
        elif r < 0.22:
            body = (";", ("->", _f3_body(rng, pool, 0), body), _f3_body(rng, pool, 0))
        elif r < 0.28:
            body = (",", ("\\+", _f3_body(rng, pool, 0)), body)
    return body


def gen_F3(seed, count):
    rng = random.Random(seed)
    pool = [var("X"), var("Y"), var("Z")]
    for i in range(count):
        program = _f3_base()
        rules = []
        queries = []
        nrules = rng.randint(0, 2)
        for j in range(nrules):
            body = _f3_body(rng, pool)
            hv = [v for v in vars_of(body) if not v[1].startswith("G")]
            rules.append((fun("m%d" % j, *hv), body))
            queries.append(call(fun("m%d" % j, *hv)))
            if hv and rng.random() < 0.4:
                bound = list(hv)
                bound[0] = rng.choice([int_(1), A, int_(3)])
                queries.append(call(fun("m%d" % j, *bound)))
        for _ in range(rng.randint(1, 2)):
            queries.append(_f3_body(rng, pool))
        yield Case("F3", "F3-%d-%d" % (seed, i), program, queries, more=[(rules, True)] if rules else [],
                   special=True)


def exhaustive_F3(samples=12):
    """every (inner goal, meta form) pair as a single-goal query; the remaining
    sub-choices (template, how many arguments become extra args, variable
    names) are sampled `samples` times and de-duplicated"""
    n = 0
    pool = [var("X"), var("Y"), var("Z")]
    rng = random.Random(12345)
    seen = set()
    for which in range(N_F3_INNER):
        for form in range(N_F3_FORMS):
            for _ in range(samples):
                g = _f3_meta_goal(rng, pool, var("G"), which, form)
                if g in seen:
                    continue
                seen.add(g)
                yield Case("F3", "F3-ex-%d" % n, _f3_base(), [g], special=True)
                n += 1


# =========================================================================== F4
def _succ_table(n=6):
    return [fact(fun("succ", int_(i), int_(i + 1))) for i in range(n)]


_F4_KEYS = [("p", 1), ("q", 1), ("r", 2), ("c", 1), ("flag", 0), ("s", 1)]


def _f4_const(rng):
    return rng.choice([A, B, int_(0), int_(1), int_(2)])


def _f4_failgoal(rng):
    # `fail` after a call trips a known compiler defect; keep it, but rare
    return FAIL if rng.random() < 0.12 else eq(int_(0), int_(1))


def _f4_goal(rng):
    """one database-manipulating goal body"""
    X, Y, N, N1, G = var("X"), var("Y"), var("N"), var("N1"), var("G")
    c = _f4_const(rng)
    k = rng.randint(0, 37)
    if k == 34:     # the stored fact must not share variables with the asserting goal
        return conj(call(fun("assertz", fun("s", X))), eq(X, c), call(fun("s", Y)))
    if k == 35:
        return conj(eq(X, fun("f", Y)), call(fun("assertz", fun("s", X))), eq(Y, c), call(fun("s", var("Z"))))
    if k == 36:     # a fact's variables are renamed at every use
        return conj(call(fun("assertz", fun("s", fun("g", X, X)))), call(fun("s", fun("g", var("P"), var("_")))),
                    eq(var("P"), c), call(fun("s", fun("g", var("Q"), var("_")))))
    if k == 37:
        return conj(call(fun("s", X)), eq(X, c), call(fun("s", Y)))
    if k == 0:
        return call(fun("assertz", fun("p", c)))
    if k == 1:
        return call(fun("asserta", fun("p", c)))
    if k == 2:
        return call(fun("assertz", fun("p", X)))
    if k == 3:
        return call(fun("assertz", atom("flag")))
    if k == 4:
        return call(fun("retract", fun("p", c)))
    if k == 5:
        return call(fun("retract", fun("p", X)))
    if k == 6:
        return call(fun("retract", atom("flag")))
    if k == 7:
        return call(fun("retractall", fun("p", var("_"))))
    if k == 8:
        return call(fun("retractall", fun("p", c)))
    if k == 9:
        return call(fun("retractall", atom("flag")))
    if k == 10:
        return call(fun("retract", fun("nosuch", X)))
    if k == 11:
        return call(fun("retractall", fun("nosuch", var("_"))))
    if k == 12:
        return call(fun("p", X))
    if k == 13:
        return call(atom("flag"))
    if k == 14:
        return conj(eq(G, fun("p", c)), call(fun("assertz", G)))
    if k == 15:
        return conj(eq(G, fun("p", X)), call(fun("retract", G)))
    if k == 16:     # retract while enumerating
        return conj(call(fun("p", X)), call(fun("retract", fun("p", X))), _f4_failgoal(rng))
    if k == 17:     # assert while enumerating the same predicate
        return conj(call(fun("p", X)), call(fun("succ", X, Y)), call(fun("assertz", fun("p", Y))), _f4_failgoal(rng))
    if k == 18:     # counter loop
        return conj(call(fun("retract", fun("c", N))), call(fun("succ", N, N1)),
                    call(fun("assertz", fun("c", N1))), _f4_failgoal(rng))
    if k == 19:     # counter step (all answers are asked for)
        return conj(call(fun("retract", fun("c", N))), call(fun("succ", N, N1)), call(fun("assertz", fun("c", N1))))
    if k == 20:
        return call(fun("assertz", fun("c", int_(0))))
    if k == 21:
        return conj(call(fun("p", X)), call(fun("assertz", fun("q", X))))
    if k == 22:     # the stored fact must be a copy
        return conj(call(fun("assertz", fun("s", X))), eq(X, c))
    if k == 23:
        return conj(eq(X, fun("f", Y)), call(fun("assertz", fun("s", X))), eq(Y, c))
    if k == 24:
        return call(fun("s", X))
    if k == 25:
        return call(fun("assertz", fun("r", c, _f4_const(rng))))
    if k == 26:
        return call(fun("retract", fun("r", X, c)))
    if k == 27:
        return call(fun("retractall", fun("r", c, var("_"))))
    if k == 28:
        return call(fun("r", X, Y))
    if k == 29:
        return call(fun("once", fun("retract", fun("p", X))))
    if k == 30:
        return call(fun("findall", X, fun("retract", fun("p", X)), var("L")))
    if k == 31:     # retract, then re-assert at the end, while enumerating retract
        return conj(call(fun("retract", fun("p", X))), call(fun("assertz", fun("q", X))))
    if k == 32:
        return conj(call(fun("q", X)), call(fun("asserta", fun("q", fun("f", X)))))
    return conj(call(fun("retract", fun("q", X))), call(fun("retractall", fun("q", var("_")))))


def _f4_api_op(rng):
    X = var("X")
    c = _f4_const(rng)
    k = rng.randint(0, 19)
    if k == 18:
        return ("query", conj(call(fun("p", X)), eq(X, c), call(fun("p", var("Y")))))
    if k == 19:
        return ("assertz", fun("r", X, X))
    if k <= 2:
        return ("assertz", fun("p", c))
    if k == 3:
        return ("asserta", fun("p", c))
    if k == 4:
        return ("assertz", fun("p", X))
    if k == 5:
        return ("assertz", atom("flag"))
    if k == 6:
        return ("asserta", fun("r", c, _f4_const(rng)))
    if k == 7:
        return ("retract", fun("p", c), None)
    if k == 8:
        return ("retract", fun("p", X), rng.choice([None, 1, 1, 2, 0]))
    if k == 9:
        return ("retract", atom("flag"), rng.choice([None, 1]))
    if k == 10:
        return ("retract", fun("nosuch", X), None)
    if k == 11:
        return ("retractall", fun("p", rng.choice([var("_"), c])))
    if k == 12:
        return ("retractall", rng.choice([atom("flag"), fun("nosuch", var("_")), fun("r", c, var("_"))]))
    if k == 13:
        return ("clear",) if rng.random() < 0.3 else ("query", call(fun("p", X)))
    if k == 14:
        return ("query", call(atom("flag")))
    if k == 15:
        return ("retract", fun("r", X, c), rng.choice([None, 1]))
    if k == 16:
        return ("query", call(fun("r", X, var("Y"))))
    return ("query", call(fun("p", c)))


def _f4_seed_terms(rng):
    ts = []
    if rng.random() < 0.7:
        ts += [fun("p", _f4_const(rng)) for _ in range(rng.randint(1, 3))]
    if rng.random() < 0.5:
        ts.append(fun("c", int_(0)))
    if rng.random() < 0.4:
        ts.append(atom("flag"))
    if rng.random() < 0.4:
        ts += [fun("r", _f4_const(rng), _f4_const(rng)) for _ in range(rng.randint(1, 2))]
    if rng.random() < 0.3:
        ts.append(fun("q", _f4_const(rng)))
    return ts


def gen_F4(seed, count):
    rng = random.Random(seed)
    for i in range(count):
        if rng.random() < 0.6:
            program = _succ_table()
            rules = []
            # some of the goals also as compiled predicates
            queries = []
            seedts = _f4_seed_terms(rng)
            if seedts:
                queries.append(conj(*[call(fun("assertz", t)) for t in seedts]))
            for j in range(rng.randint(2, 6)):
                g = _f4_goal(rng)
                if rng.random() < 0.3:
                    hv = vars_of(g)
                    name = "act%d" % j
                    rules.append((fun(name, *hv), g))
                    queries.append(call(fun(name, *hv)))
                else:
                    queries.append(g)
            yield Case("F4", "F4-%d-%d" % (seed, i), program, queries, more=[(rules, True)] if rules else [],
                       dbkeys=_F4_KEYS, special=True)
        else:
            hist = [("assertz", t) for t in _f4_seed_terms(rng)]
            hist += [_f4_api_op(rng) for _ in range(rng.randint(3, 9))]
            yield Case("F4", "F4-%d-%d-api" % (seed, i), [], [], history=hist, dbkeys=_F4_KEYS, special=True)


# =========================================================================== F5
def fact_predicates(program):
    """(name, arity) -> rows for predicates defined by facts only"""
    rows = {}
    bad = set()
    for head, body in program:
        key = name_arity(head)
        if body != TRUE:
            bad.add(key)
        rows.setdefault(key, []).append(tuple(head[2]) if head[0] == "fun" else ())
    return {k: v for k, v in rows.items() if k not in bad}


def strip_predicates(program, keys):
    return [c for c in program if name_arity(c[0]) not in keys]


def _swap(case, rng, ident):
    fp = fact_predicates(case.program)
    for extra, _ow in case.more:
        for c in extra:
            fp.pop(name_arity(c[0]), None)
    keys = sorted(fp)
    if not keys:
        return None
    chosen = [k for k in keys if rng.random() < 0.6] or [rng.choice(keys)]
    return Case("F5", ident, case.program, case.queries, more=case.more,
                swap={k: fp[k] for k in chosen})


def gen_F5(seed, count, max_depth=3):
    rng = random.Random(seed)
    f1 = gen_F1(seed + 1000003, count)
    f2 = gen_F2(seed + 2000003, count, max_depth)
    for i in range(count):
        base = next(f1) if rng.random() < 0.5 else next(f2)
        c = _swap(base, rng, "F5-%d-%d(%s)" % (seed, i, base.id))
        if c is not None:
            yield c


def exhaustive_F5(max_depth=1):
    rng = random.Random(7)
    for c in exhaustive_F2(max_depth):
        yield Case("F5", "F5-" + c.id, c.program, c.queries, more=c.more,
                   swap={k: v for k, v in fact_predicates(c.program).items()})


# ---------------------------------------------------------------------- lookup
def cases(family, seed, count, exhaustive=False, max_depth=None):
    if family == "F1":
        return exhaustive_F1() if exhaustive else gen_F1(seed, count)
    if family == "F2":
        return exhaustive_F2(max_depth or 2) if exhaustive else gen_F2(seed, count, max_depth or 3)
    if family == "F3":
        return exhaustive_F3() if exhaustive else gen_F3(seed, count)
    if family == "F4":
        return gen_F4(seed, count)
    if family == "F5":
        return exhaustive_F5(max_depth or 1) if exhaustive else gen_F5(seed, count, max_depth or 3)
    raise ValueError("unknown family %r" % family)
