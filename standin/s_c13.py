"""s_c13 - a stored fact is an independent copy of the asserted term: small-scope families that are exhaustive.

  s_c13.py run <seed> <count>      s_c13.py replay <file>

family `patterns`: two facts of one predicate whose argument terms have the same skeleton but different variable sharing
  patterns (p(A,B) / p(X,X); q(f(A),B,A) / q(f(A),B,B); ...), asserted in either order through assert_fact / assertz / asserta,
  the first one optionally retracted again before the second is asserted; every probe (every assignment of {a, b} to the
  variable positions) must have   #answers(both facts) == #answers(first alone) + #answers(second alone)
  where "alone" is a fresh engine holding only that fact (and the first alone = 0 when it was retracted).
family `copied_var`: a term that contains an unbound variable which is itself the product of a copy (obtained by matching a
  non-ground stored fact, from retract, from a findall/3 result, from a compiled clause that matches such a fact) - or a plain
  yp.variable() as the control - is asserted (assert_fact / assertz / asserta, at depth 0 / 1 / twice); THEN the variable is
  bound to `a`. While the binding lasts and after it is undone the new fact must match `b` and `a` alike (exactly one answer each)
  and a query with a fresh variable must leave that variable unbound-or-bound-to-a-fresh-variable (never `a`).
family `deep`: the variable sits behind 3 / 160 / 400 list cells or nested compounds of the asserted term.
family `bound_nested`: the asserted term mentions a variable (top level, nested in compounds / a list, twice) that is bound - directly
  or through another variable - to an atom, a compound or a partial list when the fact is asserted; after the binding is undone and
  while the variable is bound to something else the fact matches exactly the value of that moment, at every depth.
"""
import itertools
import json
import os
import random
import sys

sys.path.insert(0, os.environ.get('YLD_REPO_SRC', '/repo/src'))
from yldprolog import engine  # noqa
from yldprolog.compiler import compile_prolog_from_string  # noqa

# skeletons with numbered holes; a sharing pattern maps holes to variable names
SKELETONS = [('p', ['{0}', '{1}']), ('q', ['f({0})', '{1}', '{2}']), ('r', ['[{0}|{1}]', '{2}']), ('s', ['g({0},{1})'])]
HOW = ['assert_fact', 'assertz', 'asserta']


def partitions(n):
    """all set partitions of range(n) as tuples of block ids in restricted-growth form"""
    def rec(i, cur, mx):
        if i == n:
            yield tuple(cur)
            return
        for b in range(mx + 2):
            yield from rec(i + 1, cur + [b], max(mx, b))
    return list(rec(0, [], -1))


def parse(yp, s, env):
    s = s.strip()
    if s.startswith('['):
        inner, depth = s[1:-1], 0
        for i, ch in enumerate(inner):
            depth += ch in '(['
            depth -= ch in ')]'
            if ch == '|' and depth == 0:
                return yp.listpair(parse(yp, inner[:i], env), parse(yp, inner[i + 1:], env))
        raise ValueError(s)
    if '(' in s:
        name, rest = s.split('(', 1)
        rest = rest[:-1]
        args, depth, cur = [], 0, ''
        for ch in rest:
            if ch == ',' and depth == 0:
                args.append(cur)
                cur = ''
            else:
                depth += ch in '(['
                depth -= ch in ')]'
                cur += ch
        args.append(cur)
        return yp.functor(name, [parse(yp, a, env) for a in args])
    if s[0].isupper() or s[0] == '_':
        if s not in env:
            env[s] = yp.variable()
        return env[s]
    return yp.atom(s)


def terms_of(yp, skel, names, env):
    return [parse(yp, a.format(*names), env) for a in skel[1]]


def do_assert(yp, how, name, args):
    if how == 'assert_fact':
        yp.assert_fact(yp.atom(name), args)
    elif how == 'assertz':
        yp.assertz(yp.functor(name, args))
    else:
        yp.asserta(yp.functor(name, args))


def count(yp, name, args):
    q = yp.query(name, args)
    try:
        return sum(1 for _ in q)
    finally:
        q.close()


def alone(skel, part, probe):
    yp = engine.YP()
    do_assert(yp, 'assert_fact', skel[0], terms_of(yp, skel, ['V%d' % b for b in part], {}))
    return count(yp, skel[0], terms_of(yp, skel, probe, {}))


def run_patterns(sc):
    skel = SKELETONS[sc['skeleton']]
    p1, p2 = tuple(sc['p1']), tuple(sc['p2'])
    yp = engine.YP()
    n = len(p1)
    do_assert(yp, sc['how1'], skel[0], terms_of(yp, skel, ['V%d' % b for b in p1], {}))
    if sc['retract_first']:
        got = 0
        for _ in yp.retract(yp.functor(skel[0], terms_of(yp, skel, ['R%d' % i for i in range(n)], {}))):
            got += 1
            break
        if got != 1:
            return False, 'retract of the only fact did not succeed'
    do_assert(yp, sc['how2'], skel[0], terms_of(yp, skel, ['W%d' % b for b in p2], {}))
    probs = []
    for probe in itertools.product('ab', repeat=n):
        want = (0 if sc['retract_first'] else alone(skel, p1, probe)) + alone(skel, p2, probe)
        got = count(yp, skel[0], terms_of(yp, skel, probe, {}))
        if got != want:
            probs.append('probe %s%s: %d answer(s), the facts alone give %d' % (skel[0], probe, got, want))
    return not probs, '; '.join(probs[:4]) or 'ok'


SOURCES = ['fresh', 'match', 'match_nested', 'retract', 'findall', 'compiled']
PLACES = ['top', 'nested', 'twice', 'second']


def with_copied_var(yp, source, body):
    """calls body(X) where get_value(X) is an unbound variable produced as the source says; body runs while that state lasts"""
    X = yp.variable()
    if source == 'fresh':
        body(X)
    elif source == 'match':
        yp.assert_fact(yp.atom('src'), [yp.variable()])
        for _ in yp.query('src', [X]):
            body(X)
            break
    elif source == 'match_nested':
        yp.assert_fact(yp.atom('src'), [yp.functor('w', [yp.variable()])])
        for _ in yp.query('src', [yp.functor('w', [X])]):
            body(X)
            break
    elif source == 'retract':
        yp.assert_fact(yp.atom('src'), [yp.variable()])
        for _ in yp.retract(yp.functor('src', [X])):
            body(X)
            break
    elif source == 'findall':
        yp.assert_fact(yp.atom('src'), [yp.variable()])
        T, L = yp.variable(), yp.variable()
        for _ in yp.query('findall', [T, yp.functor('src', [T]), L]):
            for _ in engine.unify(L, yp.listpair(X, yp.ATOM_NIL)):
                body(X)
                break
            break
    elif source == 'compiled':
        yp.assert_fact(yp.atom('src'), [yp.variable()])
        yp.load_script_from_string(compile_prolog_from_string('mk(X) :- src(X).\n'))
        for _ in yp.query('mk', [X]):
            body(X)
            break


def run_copied(sc):
    yp = engine.YP()
    place, how = sc['place'], sc['how']
    probs = []
    ran = []

    def mk(x):
        return {'top': [x], 'nested': [yp.functor('g', [x])], 'twice': [x, x], 'second': [yp.atom('k'), yp.functor('g', [x])]}[place]

    def probe(tag):
        for c in ('a', 'b'):
            n = count(yp, 'new', mk(yp.atom(c)))
            if n != 1:
                probs.append('%s: new/%d with %s for the variable matches %d time(s), expected 1' % (tag, len(mk(c)), c, n))
        F = yp.variable()
        for _ in yp.query('new', mk(F)):
            v = engine.get_value(F)
            if not isinstance(v, engine.Variable):
                probs.append('%s: the stored fact is instantiated (to a %s)' % (tag, type(v).__name__))

    def body(X):
        ran.append(1)
        if not isinstance(engine.get_value(X), engine.Variable):
            probs.append('harness: the source did not deliver an unbound variable')
            return
        do_assert(yp, how, 'new', mk(X))
        for _ in engine.unify(X, yp.atom('a')):
            probe('while the asserted variable is bound to a')
        probe('after the binding is undone')
    with_copied_var(yp, sc['source'], body)
    if not ran:
        probs.append('harness: the source produced no answer')
    probe('after the source query has ended')
    return not probs, '; '.join(probs[:4]) or 'ok'


NESTED_SHAPES = ['{0}', 'g({0})', 'p({0},{0})', 'p(k,g({0}))', '[{0}|end]', 'g(h({0}))', 'p({0},g({0}))']
NESTED_VALUES = {'atom': 'a', 'struct': 'g(a)', 'list': '[a|b]'}


def run_bound_nested(sc):
    """the asserted term mentions a variable V (at the top, nested, twice) that is BOUND at the moment of the assertion (directly or
    through another variable); when the binding is undone - and while V is bound to something else - the fact still holds the value"""
    yp = engine.YP()
    V, Y = yp.variable(), yp.variable()
    val = parse(yp, NESTED_VALUES[sc['value']], {})
    steps = [(V, Y), (Y, val)] if sc['chain'] else [(V, val)]

    def nest(i):
        if i == len(steps):
            do_assert(yp, sc['how'], 'st', [parse(yp, sc['shape'].format('V'), {'V': V}), yp.atom('k')])
            return
        for _ in engine.unify(steps[i][0], steps[i][1]):
            nest(i + 1)
    nest(0)
    probs = []
    if engine.get_value(V) is not V:
        probs.append('harness: V still bound')

    def probe(tag):
        for inst, want in ((NESTED_VALUES[sc['value']], 1), ('zz', 0)):
            n = count(yp, 'st', [parse(yp, sc['shape'].format(inst), {}), yp.variable()])
            if n != want:
                probs.append('%s: st(%s, _) has %d answer(s), expected %d' % (tag, sc['shape'].format(inst), n, want))
        env = {}
        got = []
        for _ in yp.query('st', [parse(yp, sc['shape'].format('F'), env), yp.variable()]):
            try:
                got.append(engine.to_python(engine.get_value(env['F'])))
            except Exception as e:       # noqa
                got.append('raised %s' % type(e).__name__)
        want = engine.to_python(parse(yp, NESTED_VALUES[sc['value']], {})) if sc['value'] != 'list' else None
        if len(got) != 1 or (want is not None and got != [want]):
            probs.append('%s: st(%s, _) gives F = %r' % (tag, sc['shape'].format('F'), got))
    probe('after the binding was undone')
    for _ in engine.unify(V, yp.atom('zz')):
        probe('while V is bound to zz')
    return not probs, '; '.join(probs[:4]) or 'ok'


def run_deep(sc):
    """copy semantics hold at every depth: an unbound variable far down a long list / deep inside nested compounds of an asserted
    term is the fact's own - binding the asserting variable afterwards changes nothing, two uses do not constrain each other"""
    yp = engine.YP()
    V = yp.variable()
    n = sc['n']
    if sc['shape'] == 'list':
        t = yp.makelist([yp.atom('e')] * n + [V])
    else:
        t = V
        for _ in range(n):
            t = yp.functor('g', [t])
    do_assert(yp, sc['how'], 'deep', [t])

    def instance(x):
        if sc['shape'] == 'list':
            return yp.makelist([yp.atom('e')] * n + [x])
        for _ in range(n):
            x = yp.functor('g', [x])
        return x
    probs = []

    def probe(tag):
        for c in ('a', 'b'):
            k = count(yp, 'deep', [instance(yp.atom(c))])
            if k != 1:
                probs.append('%s: the fact matches the instance with %s %d time(s), expected 1' % (tag, c, k))
    probe('after the assertion')
    for _ in engine.unify(V, yp.atom('a')):
        probe('while the asserting variable is bound to a')
    # two simultaneous uses
    A, B = yp.variable(), yp.variable()
    q1 = yp.query('deep', [instance(A)])
    q2 = yp.query('deep', [instance(B)])
    try:
        next(q1)
        for _ in engine.unify(A, yp.atom('a')):
            try:
                next(q2)
                for _ in engine.unify(B, yp.atom('b')):
                    pass
                if engine.get_value(B) is not B and not isinstance(engine.get_value(B), engine.Variable):
                    probs.append('the second use sees the first use\'s binding')
                if sum(1 for _ in engine.unify(B, yp.atom('b'))) != 1:
                    probs.append('two simultaneous uses of the fact constrain each other')
            except StopIteration:
                probs.append('second use of the fact finds nothing while the first is suspended')
    except StopIteration:
        probs.append('the fact does not match its own shape')
    finally:
        q1.close()
        q2.close()
    return not probs, '; '.join(sorted(set(probs))[:4]) or 'ok'


def run(sc):
    if sc['family'] == 'deep':
        return run_deep(sc)
    if sc['family'] == 'bound_nested':
        return run_bound_nested(sc)
    return run_patterns(sc) if sc['family'] == 'patterns' else run_copied(sc)


def scenarios(seed, count):
    out = []
    for si, skel in enumerate(SKELETONS):
        n = 1 + max(int(c) for a in skel[1] for c in a if c.isdigit())
        parts = partitions(n)
        for p1, p2 in itertools.product(parts, parts):
            if p1 == p2:
                continue
            for h1, h2 in (('assert_fact', 'assert_fact'), ('assertz', 'assertz'), ('assert_fact', 'asserta'), ('asserta', 'assertz')):
                for rf in (False, True):
                    out.append(dict(family='patterns', skeleton=si, p1=list(p1), p2=list(p2), how1=h1, how2=h2, retract_first=rf))
    for s, p, h in itertools.product(SOURCES, PLACES, HOW):
        out.append(dict(family='copied_var', source=s, place=p, how=h))
    for sh, v, h, ch in itertools.product(NESTED_SHAPES, sorted(NESTED_VALUES), HOW, (False, True)):
        out.append(dict(family='bound_nested', shape=sh, value=v, how=h, chain=ch))
    for shape, n, h in itertools.product(('list', 'nest'), (3, 160, 400), HOW):
        out.append(dict(family='deep', shape=shape, n=n, how=h))
    random.Random(seed).shuffle(out)
    return out[:count] if count else out


def main():
    if sys.argv[1] == 'replay':
        sc = json.load(open(sys.argv[2]))
        sc = sc.get('scenario', sc)
        ok, detail = run(sc)
        print(json.dumps(dict(ok=ok, detail=detail)))
        sys.exit(0 if ok else 1)
    seed, count = int(sys.argv[2]), int(sys.argv[3])
    scs = scenarios(seed, count)
    total = len(scenarios(seed, 0))
    fails, n, nontriv = [], 0, set()
    for sc in scs:
        try:
            ok, detail = run(sc)
        except Exception as e:     # noqa: an exception in an assert / query of this family is a failure of the case
            ok, detail = False, 'raised %s: %s' % (type(e).__name__, e)
        n += 1
        nontriv.add(json.dumps(sc, sort_keys=True))
        if not ok and len(fails) < 20:
            fails.append(dict(scenario=sc, detail=detail))
    print(json.dumps(dict(evaluations=n, distinct_nontrivial=len(nontriv), failures=fails, failure_count=len(fails), samples=scs[:3],
                          exhaustive=len(scs) >= total, rule=__doc__.split('family', 1)[1][:900])))


if __name__ == '__main__':
    main()
