"""Term / goal / program representation shared by the reference interpreter,
the generators and the differ.  Pure standard library, no yldprolog import.

TERMS (plain hashable tuples)
    ("atom", name:str)            ("int", n:int)
    ("var", name)                 name is a str for source level variables; the
                                  reference interpreter uses int names for the
                                  variables it invents (never clash with str names)
    ("fun", name:str, (a1,...,an))   n >= 1
    empty list = ("atom", "[]")   list cell = ("fun", ".", (head, tail))

GOALS (clause bodies)
    ("true",) ("fail",) ("cut",) ("call", term)
    (",", g1, g2)  (";", g1, g2)  ("->", c, t)  ("\\+", g)
    `=` / `\\=` goals are ("call", ("fun", "=", (a, b))) / ("call", ("fun", "\\=", (a, b)))

CLAUSE  = (head_term, body_goal)   facts have body ("true",)
PROGRAM = list of clauses
"""

import re

NIL = ("atom", "[]")
nil = NIL
TRUE = ("true",)
FAIL = ("fail",)
CUT = ("cut",)

TERM_TAGS = ("atom", "int", "var", "fun")
GOAL_TAGS = ("true", "fail", "cut", "call", ",", ";", "->", "\\+")


# ---------------------------------------------------------------- constructors
def atom(name):
    return ("atom", name)


def int_(n):
    return ("int", n)


def var(name):
    return ("var", name)


def fun(name, *args):
    """fun('f', a, b) -> ("fun","f",(a,b)); with no args returns the atom."""
    if not args:
        return ("atom", name)
    return ("fun", name, tuple(args))


def call(term):
    return ("call", term)


def eq(a, b):
    return ("call", ("fun", "=", (a, b)))


def neq(a, b):
    return ("call", ("fun", "\\=", (a, b)))


def conj(*goals):
    """right-nested conjunction of one or more goals"""
    goals = list(goals)
    if not goals:
        return TRUE
    g = goals[-1]
    for x in reversed(goals[:-1]):
        g = (",", x, g)
    return g


def disj(*goals):
    goals = list(goals)
    g = goals[-1]
    for x in reversed(goals[:-1]):
        g = (";", x, g)
    return g


def mklist(items, tail=NIL):
    t = tail
    for x in reversed(list(items)):
        t = ("fun", ".", (x, t))
    return t


def is_list(t):
    """True iff t is a proper (nil-terminated) list."""
    while t[0] == "fun" and t[1] == "." and len(t[2]) == 2:
        t = t[2][1]
    return t == NIL


def list_items(t):
    """items of a proper list; ValueError otherwise"""
    items, tail = list_prefix(t)
    if tail != NIL:
        raise ValueError("not a proper list")
    return items


def list_prefix(t):
    """(items, tail) for a possibly partial list"""
    items = []
    while t[0] == "fun" and t[1] == "." and len(t[2]) == 2:
        items.append(t[2][0])
        t = t[2][1]
    return items, t


def name_arity(t):
    """(name, arity) of a callable term (atom or fun)"""
    if t[0] == "atom":
        return (t[1], 0)
    if t[0] == "fun":
        return (t[1], len(t[2]))
    raise ValueError("not callable: %r" % (t,))


def args_of(t):
    return t[2] if t[0] == "fun" else ()


# ------------------------------------------------------------------- variables
def vars_of(x, include_anon=False):
    """Variables (as ("var",name) tuples) of a term, a goal, a clause (head,body)
    or a tuple/list of those, in first-occurrence order.  Anonymous variables
    ("var","_") are left out unless include_anon (each `_` is a different
    variable, so they never make sense as answer variables).  Iterative."""
    out = []
    seen = set()
    stack = [x]
    while stack:
        t = stack.pop()
        tag = t[0] if isinstance(t, tuple) and t and isinstance(t[0], str) else None
        if tag == "var":
            if t[1] == "_":
                if include_anon:
                    out.append(t)
            elif t not in seen:
                seen.add(t)
                out.append(t)
        elif tag == "fun":
            stack.extend(reversed(t[2]))
        elif tag in ("atom", "int", "true", "fail", "cut"):
            pass
        elif tag == "call" or tag == "\\+":
            stack.append(t[1])
        elif tag in (",", ";", "->"):
            stack.append(t[2])
            stack.append(t[1])
        else:
            # a clause, or a tuple / list of things
            stack.extend(reversed(list(t)))
    return out


def map_vars(x, f):
    """structure preserving copy of a term or goal with every variable v
    replaced by f(v) (variables are visited left to right).  Recursion only on
    non-last arguments, so long lists / deep right spines are fine."""
    tag = x[0]
    if tag == "var":
        return f(x)
    if tag == "fun":
        spine = []
        while True:
            args = x[2]
            if not args:            # a compound term without arguments, f(): nothing below it
                break
            spine.append((x[1], [map_vars(a, f) for a in args[:-1]]))
            x = args[-1]
            if x[0] != "fun":
                break
        res = f(x) if x[0] == "var" else x
        for name, ha in reversed(spine):
            ha.append(res)
            res = ("fun", name, tuple(ha))
        return res
    if tag in ("atom", "int", "true", "fail", "cut"):
        return x
    if tag == "call" or tag == "\\+":
        return (tag, map_vars(x[1], f))
    if tag in (",", ";", "->"):
        return (tag, map_vars(x[1], f), map_vars(x[2], f))
    raise ValueError("bad term/goal %r" % (x,))


def canon(terms):
    """Rename the distinct variables of a tuple of (fully dereferenced) terms to
    ("var","_G0"), ("var","_G1"), ... in first-occurrence order.  Two answers are
    equal up to variable renaming iff their canon forms are equal (aliasing is
    preserved because the same variable always gets the same new name)."""
    m = {}

    def f(v):
        r = m.get(v)
        if r is None:
            r = m[v] = ("var", "_G%d" % len(m))
        return r

    return tuple(map_vars(t, f) for t in terms)


# --------------------------------------------------------------- pretty printer
_ATOM_RE = re.compile(r"[a-z][A-Za-z0-9_]*\Z")
_VAR_RE = re.compile(r"[A-Z_][A-Za-z0-9_]*\Z")
_KEYWORDS = ("true", "fail")
_INFIX = ("=", "\\=")


def atom_to_source(name):
    if _ATOM_RE.match(name) and name not in _KEYWORDS:
        return name
    if "\\" in name:
        raise ValueError("atom %r cannot be written in the yldprolog grammar" % name)
    return "'" + name.replace("'", "\\'") + "'"


def var_to_source(name):
    if not isinstance(name, str) or not _VAR_RE.match(name):
        raise ValueError("variable name %r cannot be written" % (name,))
    return name


def term_to_source(t, nested=False):
    """text of a term in the language of prolog.g4.  `nested` is true when the
    term is an operand/argument (infix terms then get parentheses)."""
    tag = t[0]
    if tag == "atom":
        if t[1] == "[]":
            return "[]"
        return atom_to_source(t[1])
    if tag == "int":
        if t[1] < 0:
            raise ValueError("negative integers cannot be written")
        return str(t[1])
    if tag == "var":
        return var_to_source(t[1])
    if tag == "fun":
        name, args = t[1], t[2]
        if name == "." and len(args) == 2:
            items, tail = list_prefix(t)
            if tail == NIL:
                return "[" + ",".join(term_to_source(i, True) for i in items) + "]"
            if tail[0] == "var":
                return ("[" + ",".join(term_to_source(i, True) for i in items)
                        + "|" + var_to_source(tail[1]) + "]")
            # improper list: the grammar only allows a VARIABLE after `|`
            return "'.'(%s,%s)" % (term_to_source(args[0], True), term_to_source(args[1], True))
        if name in _INFIX and len(args) == 2:
            s = "%s %s %s" % (term_to_source(args[0], True), name, term_to_source(args[1], True))
            return "(" + s + ")" if nested else s
        return atom_to_source(name) + "(" + ",".join(term_to_source(a, True) for a in args) + ")"
    raise ValueError("not a term: %r" % (t,))


# precedence levels: simple 0 < \+ 1 < ',' 2 < '->' 3 < ';' 4
_PREC = {",": 2, "->": 3, ";": 4}


def _goal_prec(g):
    tag = g[0]
    if tag in _PREC:
        return _PREC[tag]
    if tag == "\\+":
        return 1
    return 0


def goal_to_source(g):
    tag = g[0]
    if tag == "true":
        return "true"
    if tag == "fail":
        return "fail"
    if tag == "cut":
        return "!"
    if tag == "call":
        t = g[1]
        if t[0] not in ("atom", "fun"):
            raise ValueError("goal must be an atom or compound: %r" % (t,))
        if t == NIL:
            raise ValueError("[] is not a goal")
        return term_to_source(t, False)
    if tag == "\\+":
        inner = goal_to_source(g[1])
        if _goal_prec(g[1]) == 0:
            return "\\+ " + inner
        return "\\+ (" + inner + ")"
    if tag in _PREC:
        p = _PREC[tag]
        left, right = g[1], g[2]
        ls = goal_to_source(left)
        rs = goal_to_source(right)
        if _goal_prec(left) >= p:          # right associative: equal level on the left needs ()
            ls = "(" + ls + ")"
        if _goal_prec(right) > p:
            rs = "(" + rs + ")"
        if tag == ",":
            return ls + ", " + rs
        return ls + " " + tag + " " + rs
    raise ValueError("not a goal: %r" % (g,))


def clause_to_source(clause):
    head, body = clause
    if head[0] not in ("atom", "fun") or head == NIL:
        raise ValueError("bad clause head %r" % (head,))
    hs = term_to_source(head, False)
    if body == TRUE:
        return hs + "."
    return hs + " :- " + goal_to_source(body) + "."


def to_source(program):
    return "\n".join(clause_to_source(c) for c in program) + "\n"


def answer_to_source(ans):
    """readable form of one canon() answer (or an ("EXC",..) marker)"""
    if ans and ans[0] == "EXC":
        return "EXC %s: %s" % (ans[1], ans[2])
    return "(" + ", ".join(term_to_source(t, True) for t in ans) + ")"


# ------------------------------------------------------- term <-> goal helpers
def term_to_goal(t):
    """Standard conversion of a (dereferenced, callable) term to a body goal,
    as done by call/1: control constructs are recognised, everything else is a
    plain call."""
    if t[0] == "atom":
        if t[1] == "true":
            return TRUE
        if t[1] == "fail":
            return FAIL
        if t[1] == "!":
            return CUT
        return ("call", t)
    if t[0] == "fun":
        n, a = t[1], t[2]
        if len(a) == 2 and n in (",", ";", "->"):
            return (n, ("call", a[0]), ("call", a[1]))
        if len(a) == 1 and n == "\\+":
            return ("\\+", ("call", a[0]))
        return ("call", t)
    raise ValueError("not callable: %r" % (t,))
