#!/usr/bin/env python3
"""s_c12 -- bounded stand-in for C12: "Prolog text cannot become Python code; loaded code sees
only the engine API".

    python s_c12.py run <seed> <count>
    python s_c12.py replay <file.json>

A case = one hostile quoted-atom token placed in one syntactic position of a small program
(fact argument, nested argument, list element, functor name, called predicate name, goal argument,
clause head name, under \\+, in if-then-else, `X = 'atom'`, via call/N, findall, assertz, directive,
variable named like a generated/engine name), plus the program's own queries and a fixed set of
hostile run-time queries.  For every program the compiler ACCEPTS:

 A. static (ast of the output)
    * node types are within  Module FunctionDef arguments arg For If Assign Expr Yield Return Break
      Pass Call Name Constant List Load Store   (nothing else: no Attribute/Import/Lambda/Subscript/
      keyword/Starred/JoinedStr ...); module body = FunctionDef only, no decorators/defaults;
    * a function is named <name>_<arity> for a clause head of the source (independent reader
      g4reader.clause_keys) and its parameters are arg1..argN;
    * every Call is  f(...)  with f a Name in {variable atom functor listpair makelist unify query},
      positional arguments only;
    * every Name that is read is a parameter, a local stored earlier (textually) in that function,
      or one of {variable atom functor listpair makelist ATOM_NIL unify query};
    * every stored name is a plain Name that is none of the API names / True / False / None /
      argN, and is either a generated bookkeeping name (doBreak, cutIf<n>, l<n>, x<n>, _) or the
      spelling of a VARIABLE token of the source, possibly with `_` appended (the compiler's
      escape for True/False/None/ATOM_NIL/__debug__);
    * every str Constant is the (unquoted) name of an atom / functor / called predicate of the
      source; every int Constant is the value of a NUMERAL of the source (the 1 of the
      generated `for _ in [1]` is only allowed there); other constants: only True/False, only as
      `yield`/assignment value or `if` test;
 B. dynamic: audit hook (sys.addaudithook) + wrappers on builtins.__import__ and os.system armed
    around load and around every query.  Loading may raise exactly the engine's own
    compile + exec events, queries none; eval_context gains / re-binds exactly the
    <name>_<arity> keys; the API entries of eval_context are wrapped after the load and must never
    be invoked by a query;
 C. the program's own predicates are queried with fresh variables (bounded number of answers): no
    exception, no audit event;
 D. hostile queries  yp.query(n, args)  for n in the API / builtins names and injection-looking
    names, arities 0..3: no answers, no exception, nothing invoked.

Scenario JSON: {"text": source, "hostile": token, "position": template name,
                "queries": [[name, arity], ...]}  (the hostile query set is fixed in this file).
"""

import ast
import builtins
import os
import random
import re
import sys

import s_compiler_common as K
from s_compiler_common import g4reader

RULE = ("evaluation = one (hostile token, syntactic position) program; non-trivial = distinct program "
        "texts the compiler accepted AND whose hostile token's unquoted text is not a plain "
        "lower-case identifier (so the text needs quoting to survive) - for those the output AST was "
        "checked against the whitelist, the program was loaded under the tripwires, its predicates "
        "and the hostile run-time queries were run")

API_CALLABLE = ("variable", "atom", "functor", "listpair", "makelist", "unify", "query")
API_READABLE = API_CALLABLE + ("ATOM_NIL",)
ENGINE_CONTEXT_NAMES = ("__builtins__", "variable", "atom", "functor", "functor1", "functor2", "functor3", "listpair",
                        "makelist", "ATOM_NIL", "unify", "match_dynamic", "query", "True", "False")
NODE_WHITELIST = (ast.Module, ast.FunctionDef, ast.arguments, ast.arg, ast.For, ast.If, ast.Assign, ast.Expr, ast.Yield,
                  ast.Return, ast.Break, ast.Pass, ast.Call, ast.Name, ast.Constant, ast.List, ast.Load, ast.Store)
BOOKKEEPING = re.compile(r"(doBreak|cutIf[0-9]+|l[0-9]+|x[0-9]+|_)\Z")
VARIABLE_RE = re.compile(r"[A-Z_][A-Za-z0-9_]*\Z")
PLAIN_ATOM = re.compile(r"[a-z][A-Za-z0-9_]*\Z")

# engine methods that must never run as goals, however the goal is reached
META_TARGETS = ["clear", "atom", "variable", "load_script_from_string", "register_function", "assert_fact", "query", "makelist",
                "evaluate_bounded", "_set_builtin_predicates", "__init__"]

# ------------------------------------------------------------------------------ hostile corpus
HOSTILE_NAMES = [
    "it's", "'", "''", '"', '"""', "'''", "a\"b'c", "'\"'\"", "x'", "'x",
    "\n", "a\nb", "x\n  import os\n", "\r", "a\rb", "\r\n", "\t", "\x00", "a\x00b", "\x1b[31mred", "\x0c", "\x0b", "\x85", " ",
    " ", "\x7f", "\x1c\x1d\x1e", "﻿", "‮",
    "#", "# comment", "a # b", "a') # b",
    "__import__('os').system('x')", "'); import os; ('", "x'); import os #", "]); import os; query('x',[", "')\nimport os\n('",
    "\"); import os; (\"", "a'+__import__('os').system('x')+'b", "a' if True else '", "')]):\n  pass\nimport os\nif (['",
    "{}", "%s", "{0}", "%(x)s", "${x}", "f'{1+1}'", "{__import__('os')}", "\\N{BULLET}".replace("\\", ""),
    "$CUTIF", "cutIf1", "doBreak", "l1", "arg1", "x1", "_",
    "atom", "query", "variable", "unify", "functor", "match_dynamic", "makelist", "listpair", "True", "False", "None",
    "__builtins__", "ATOM_NIL", "__debug__", "__import__", "exec", "eval", "open", "os.system",
    "[]", ".", ",", "=", ":-", "->", ";", "!", "true", "fail", "|", "(", ")", "()", "call", "findall", "once", "assertz",
    "", " ", "  leading and trailing  ", "a b",
    "é", "日本語", "\U0001f600", "\ud800", "\udcff", "İ", "ß", "Å",
    "a" * 10000, "'" * 500, "\n" * 200, "(" * 300, "'); x" * 200,
    "%", "% not a comment", "/* c */", "0", "007", "-1", "1e5", "0x10",
    "def f(): pass", "lambda: 0", "yield", "import os", "return", "pass", "class X: pass", "global query", "del query",
    "query = None", "atom=print", "X", "Xyz", "_x",
]
# raw source tokens that contain backslashes (the reader deletes every backslash)
HOSTILE_RAW_TOKENS = [
    "'a\\nb'", "'\\\\'", "'a\\\\\\'b'", "'\\'); import os; (\\''", "'\\x41'", "'\\u0041'", "'a\\\nb'", "'\\\\n'", "'\\t\\r\\0'",
    "'\\'", "'\\'\\''", "'a\\'", "'\\\\\\''",
    # other spellings of the compiler's internal goal name (a backslash is deleted by the reader)
    "'\\$CUTIF'", "'$\\CUTIF'", "'$CUTI\\F'", "'\\$\\C\\U\\T\\I\\F'",
]
QUERY_NAMES = ["atom", "variable", "functor", "functor1", "functor2", "functor3", "query", "unify", "match_dynamic", "makelist",
               "listpair", "__builtins__", "True", "False", "ATOM_NIL", "None", "exec", "eval", "__import__", "print", "open",
               "x'); import os #", "'); import os; ('", "__import__('os').system('x')", "a\nimport os", "", "_", "_n", "n",
               "atom_1", "query_2", "match", "ATOM", "functor1_1", "os.system", "__class__", "$CUTIF", "cutIf1"]


def hostile_tokens(seed, extra):
    toks = [K.quote_atom(h) for h in HOSTILE_NAMES] + list(HOSTILE_RAW_TOKENS)
    rng = random.Random("c12-tok-%d" % seed)
    alphabet = ["'", '"', "\n", "\r", "#", "(", ")", "[", "]", ",", ";", ":", " ", "\t", "\x00", " ", "é", "import os",
                "__", "query", "atom", "%", "{", "}", "=", ".", "x", "X", "_", "1", "`", "$", "@", "!", "\\"]
    for _ in range(extra):
        n = rng.randint(1, 12)
        s = "".join(rng.choice(alphabet) for _ in range(n))
        # write it as a token: quotes escaped; a raw backslash is kept (the reader drops it) but must not
        # end the token or precede the closing quote
        body = s.replace("'", "\\'")
        if body.endswith("\\"):
            body += "z"
        toks.append("'" + body + "'")
    return toks


# position templates: Q is the hostile token.  Each returns (program text, [(name, arity) to query])
def _t_fact_arg(Q):
    return "p(%s).\n" % Q, [("p", 1)]


def _t_nested_arg(Q):
    return "p(f(g(%s), [h(%s)|T]), T).\n" % (Q, Q), [("p", 2)]


def _t_list_elem(Q):
    return "p([a, %s, b]).\np2([%s|T], T).\n" % (Q, Q), [("p", 1), ("p2", 2)]


def _t_functor_name(Q):
    return "p(%s(a, b)).\np2(%s()).\np3(X) :- X = %s(X1, %s(c)).\n" % (Q, Q, Q, Q), [("p", 1), ("p2", 1), ("p3", 1)]


def _t_goal_name(Q):
    return "p :- %s(a).\np2 :- %s.\np3(X) :- q(X), %s(X, X).\nq(a).\n" % (Q, Q, Q), [("p", 0), ("p2", 0), ("p3", 1)]


def _t_goal_arg(Q):
    return "p(X) :- q(%s, X).\nq(%s, ok).\nq(other, ko).\n" % (Q, Q), [("p", 1), ("q", 2)]


def _t_head_name(Q):
    return "%s(a).\n" % Q, []


def _t_head_name0(Q):
    return "%s.\n" % Q, []


def _t_head_name_rule(Q):
    return "%s(X) :- q(X).\nq(a).\n" % Q, [("q", 1)]


def _t_negation(Q):
    return "p :- \\+ %s(a).\np2 :- \\+ q(%s).\np3 :- \\+ \\+ q(%s).\nq(x).\n" % (Q, Q, Q), [("p", 0), ("p2", 0), ("p3", 0)]


def _t_ite(Q):
    return ("p(X) :- ( q(%s) -> X = %s ; X = %s(%s) ).\np2(X) :- ( %s(a) -> X = y ; X = n ).\nq(z).\n" % (Q, Q, Q, Q, Q),
            [("p", 1), ("p2", 1)])


def _t_unify(Q):
    return "p(X) :- X = %s.\np2 :- %s = %s.\np3 :- %s \\= %s.\n" % (Q, Q, Q, Q, Q), [("p", 1), ("p2", 0), ("p3", 0)]


def _t_call(Q):
    return ("p :- call(%s, a).\np2 :- call(%s).\np3(X) :- G = %s(X), call(G).\np4 :- once(%s(a)).\n" % (Q, Q, Q, Q),
            [("p", 0), ("p2", 0), ("p3", 1), ("p4", 0)])


def _t_findall(Q):
    return "p(L) :- findall(X, %s(X), L).\np2(L) :- findall(%s, q(_), L).\nq(a).\nq(b).\n" % (Q, Q), [("p", 1), ("p2", 1)]


def _t_assert(Q):
    return ("p(X) :- assertz(%s(%s)), %s(X).\np2(X) :- asserta(%s), retract(%s), X = done.\n" % (Q, Q, Q, Q, Q),
            [("p", 1), ("p2", 1)])


def _t_directive(Q):
    return ":- %s(a).\n:- %s.\np.\n" % (Q, Q), [("p", 0)]


def _t_disj(Q):
    return "p(X) :- ( X = %s ; q(%s, X) ; %s(X) ).\nq(_, second).\n" % (Q, Q, Q), [("p", 1)]


def _t_cut(Q):
    return "p(X) :- q(X), !, X = %s.\np(%s).\nq(%s).\nq(b).\n" % (Q, Q, Q), [("p", 1)]


def _t_comment(Q):
    return "%% %s\np(a). %% %s\n" % (Q, Q), [("p", 1)]


def _t_operator(Q):
    return "p(X) :- X = - %s.\np2(%s = %s).\np3 :- %s == %s.\np4 :- %s < %s.\n" % (Q, Q, Q, Q, Q, Q, Q), [("p", 1), ("p2", 1), ("p3", 0), ("p4", 0)]


TEMPLATES = [
    ("fact_arg", _t_fact_arg), ("nested_arg", _t_nested_arg), ("list_elem", _t_list_elem), ("functor_name", _t_functor_name),
    ("goal_name", _t_goal_name), ("goal_arg", _t_goal_arg), ("head_name", _t_head_name), ("head_name0", _t_head_name0),
    ("head_name_rule", _t_head_name_rule), ("negation", _t_negation), ("ite", _t_ite), ("unify", _t_unify), ("call", _t_call),
    ("findall", _t_findall), ("assert", _t_assert), ("directive", _t_directive), ("disj", _t_disj), ("cut", _t_cut),
    ("comment", _t_comment), ("operator", _t_operator),
]

# programs that try to reach the API through plain goals / variables named like generated names
FIXED_PROGRAMS = [
    ("api_goal_atom", "p(X) :- atom(X).\np2 :- atom(a).\np3(X) :- variable(X).\n", [("p", 1), ("p2", 0), ("p3", 1)]),
    ("api_goal_query", "p :- query(a, b).\np2(X) :- query(p2, [X]).\np3 :- query(exec, ['x']).\n", [("p", 0), ("p2", 1), ("p3", 0)]),
    ("api_goal_unify", "p(X, Y) :- unify(X, Y).\np2(X) :- makelist(X).\np3(X) :- listpair(a, X).\np4(X) :- functor(f, [X]).\n",
     [("p", 2), ("p2", 1), ("p3", 1), ("p4", 1)]),
    ("api_call_atom", "p(X) :- call(atom, X).\np2 :- call(query, a, b).\np3 :- call('__builtins__').\np4(X) :- call(variable, X).\n"
     "p5(X, Y) :- call(unify, X, Y).\np6(X) :- G = match_dynamic(a, X), call(G).\n",
     [("p", 1), ("p2", 0), ("p3", 0), ("p4", 1), ("p5", 2), ("p6", 1)]),
    ("api_findall", "p(L) :- findall(X, atom(X), L).\np2(L) :- findall(X, call(functor, a, X), L).\np3(L) :- findall(X, once(variable(X)), L).\n",
     [("p", 1), ("p2", 1), ("p3", 1)]),
    ("api_names_defined", "atom(x).\nvariable(x).\nquery(a, b).\nunify(a, b).\nfunctor(a, b).\nmakelist(a).\nlistpair(a, b).\nmatch_dynamic(a, b).\n"
     "functor1(a, b).\np(X) :- atom(X).\n", [("p", 1)]),
    ("api_as_values", "p(X) :- X = atom.\np2(X) :- X = [query, unify, 'True', 'None', '__builtins__'].\np3(X) :- X = query(unify, atom).\n",
     [("p", 1), ("p2", 1), ("p3", 1)]),
    ("vars_reserved", "p(True, False, None) :- q(ATOM_NIL, __debug__), True = False, r(None).\nq(a, b).\nr(_).\n", [("p", 3)]),
    ("vars_escape_collide", "p(True, True_, True__, None, None_, ATOM_NIL, ATOM_NIL_, __debug__, __debug___) :- q(True, None, ATOM_NIL).\nq(_, _, _).\n",
     [("p", 9)]),
    ("vars_dunder", "p(__builtins__, __import__, __name__, __class__, __file__, __doc__, __spec__, __loader__) :- q(__builtins__).\nq(_).\n", [("p", 8)]),
    ("vars_nil", "p(ATOM_NIL, X) :- X = [], q(ATOM_NIL, []).\nq(a, []).\n", [("p", 2)]),
    ("vars_like_generated", "p(L1, X1, Arg1, DoBreak, CutIf1, _l1, _x1, _arg1, _doBreak, _cutIf1, _) :- q(L1, _), ( r(X1) -> s(Arg1) ; t(_) ).\n"
     "q(a, b).\nr(a).\ns(_).\nt(_).\n", [("p", 11)]),
    ("vars_underscore", "p(_, __, ___, _1, _a) :- q(_, __), q(___, _).\nq(a, b).\n", [("p", 5)]),
    ("vars_singleton_nested", "p(f(X, [Y|Z]), g(X)) :- \\+ q(W, Y), ( r(V) -> s(V, U) ; t(U, Z) ).\nq(a, b).\nr(a).\ns(a, b).\nt(a, b).\n", [("p", 2)]),
    ("once_redefined", "once(X) :- q(X).\nq(a).\np(X) :- once(X).\n", [("p", 1), ("once", 1)]),
    ("call_redefined", "call(X) :- q(X).\nq(a).\np(X) :- call(X).\n", [("p", 1)]),
    ("call_no_goal", "p :- call(call).\np2 :- call.\np3 :- once(call).\n", [("p", 0), ("p2", 0), ("p3", 0)]),
    ("cutif_arg", "p('$CUTIF'(cutIf1)).\np2(X) :- X = '$CUTIF'.\n", [("p", 1), ("p2", 1)]),
]


# ------------------------------------------------------------------------------ static check
def _source_facts(text):
    """(string names, int values, variable spellings, clause keys) of a source text, from the
    independent reader"""
    names, ints, variables = set(), set(), set()

    def term(t):
        stack = [t]
        while stack:
            x = stack.pop()
            tag = x[0]
            if tag == "atom":
                names.add(x[1])
            elif tag == "int":
                ints.add(x[1])
            elif tag == "var":
                variables.add(x[1])
            elif tag == "fun":
                names.add(x[1])
                stack.extend(x[2])

    def goal(g):
        tag = g[0]
        if tag == "call":
            term(g[1])
        elif tag == "\\+":
            goal(g[1])
        elif tag in (",", ";", "->"):
            goal(g[1])
            goal(g[2])

    for c in g4reader.parse_program(text):
        if c[0] == "directive":
            goal(c[1])
            continue
        head, body = c
        if len(head) > 1:
            term(head)
        goal(body)
    for t in g4reader.tokenize(text):           # spellings straight from the tokens as well
        if t.kind == "VARIABLE":
            variables.add(t.text)
        elif t.kind == "NUMERAL":
            ints.add(int(t.text)) if len(t.text) <= 4000 else None
    return names, ints, variables, g4reader.clause_keys(text)


def static_check(code, text):
    problems = []
    try:
        tree = ast.parse(code)
    except BaseException as e:   # noqa: B902
        if isinstance(e, (KeyboardInterrupt, SystemExit)):
            raise
        return ["output does not parse as Python: %s: %s" % (type(e).__name__, str(e)[:150])]
    try:
        names, ints, variables, keys = _source_facts(text)
    except (g4reader.PlSyntaxError, RecursionError) as e:
        return ["independent reader cannot read a text the compiler accepted: %s" % e]
    expected_defs = dict(("%s_%d" % (n, a), a) for n, a in keys)
    for node in ast.walk(tree):
        if not isinstance(node, NODE_WHITELIST):
            problems.append("node type %s (line %s) is not in the whitelist" % (type(node).__name__, getattr(node, "lineno", "?")))
    if problems:
        return problems[:8]
    seen_defs = set()
    for fn in tree.body:
        if not isinstance(fn, ast.FunctionDef):
            problems.append("module-level %s" % type(fn).__name__)
            continue
        if fn.name not in expected_defs:
            problems.append("function %r is not <name>_<arity> of a clause head" % fn.name)
        if fn.name in seen_defs:
            problems.append("function %r defined twice" % fn.name)
        seen_defs.add(fn.name)
        a = fn.args
        if fn.decorator_list or fn.returns is not None or a.vararg or a.kwarg or a.kwonlyargs or a.defaults or a.kw_defaults \
                or getattr(a, "posonlyargs", None) or getattr(fn, "type_params", None):
            problems.append("function %r has decorators/defaults/annotations/star-args" % fn.name)
        params = [x.arg for x in a.args]
        if params != ["arg%d" % (i + 1) for i in range(len(params))] or any(x.annotation is not None for x in a.args):
            problems.append("function %r has parameters %r" % (fn.name, params[:10]))
        if fn.name in expected_defs and len(params) != expected_defs[fn.name]:
            problems.append("function %r has %d parameters" % (fn.name, len(params)))
        problems.extend(_check_function(fn, set(params), names, ints, variables))
    if seen_defs != set(expected_defs):
        problems.append("defs %r != clause heads %r" % (sorted(seen_defs)[:8], sorted(expected_defs)[:8]))
    return problems[:8]


def _check_function(fn, params, names, ints, variables):
    problems = []
    local = set(params)

    def bad(msg, node):
        problems.append("%s: %s (line %s)" % (fn.name, msg, getattr(node, "lineno", "?")))

    def store(target):
        if not isinstance(target, ast.Name):
            bad("assignment target is %s, not a plain name" % type(target).__name__, target)
            return
        n = target.id
        if n in ENGINE_CONTEXT_NAMES and n != "__builtins__" or n in ("None", "__debug__") or n in params or re.match(r"arg[0-9]+\Z", n):
            bad("stores into reserved name %r" % n, target)
        elif BOOKKEEPING.match(n):
            pass
        elif VARIABLE_RE.match(n) and (n in variables or (n.endswith("_") and n[:-1] in variables)):
            pass
        else:
            bad("stored name %r is neither bookkeeping nor a variable of the source" % n, target)
        local.add(n)

    def expr(e, role):
        """role: 'value' (term expression / call argument), 'iter', 'test', 'yield', 'flag'"""
        if isinstance(e, ast.Name):
            if not isinstance(e.ctx, ast.Load):
                bad("name %r in %s context inside an expression" % (e.id, type(e.ctx).__name__), e)
            if e.id not in local and e.id not in API_READABLE:
                bad("reads name %r which is not a parameter, an earlier local or an API name" % e.id, e)
            if e.id in API_CALLABLE and e.id not in local:
                bad("API function %r used as a value" % e.id, e)
        elif isinstance(e, ast.Constant):
            v = e.value
            if e.kind is not None:
                bad("constant with kind %r" % e.kind, e)
            if isinstance(v, bool):
                if role not in ("flag", "yield", "test"):
                    bad("boolean constant %r in %s position" % (v, role), e)
            elif isinstance(v, str):
                if role != "value":
                    bad("string constant in %s position" % role, e)
                if v not in names:
                    bad("string constant %r is not an atom/functor/predicate name of the source" % v[:60], e)
            elif isinstance(v, int):
                if role != "value":
                    bad("int constant in %s position" % role, e)
                if v not in ints:
                    bad("int constant %r is not a numeral of the source" % (str(v)[:40]), e)
            else:
                bad("constant of type %s" % type(v).__name__, e)
        elif isinstance(e, ast.List):
            if not isinstance(e.ctx, ast.Load):
                bad("list in store context", e)
            if role != "value":
                bad("list display in %s position" % role, e)
            for x in e.elts:
                expr(x, "value")
        elif isinstance(e, ast.Call):
            if not isinstance(e.func, ast.Name) or e.func.id not in API_CALLABLE:
                bad("call of %s" % (ast.dump(e.func)[:80]), e)
            elif e.func.id in local:
                bad("called name %r is shadowed by a local" % e.func.id, e)
            if e.keywords:
                bad("call with keyword arguments", e)
            if role == "iter" and not (isinstance(e.func, ast.Name) and e.func.id in ("unify", "query")):
                bad("loop over %s" % ast.dump(e.func)[:60], e)
            if role not in ("iter", "value"):
                bad("call in %s position" % role, e)
            for x in e.args:
                expr(x, "value")
        else:
            bad("expression node %s" % type(e).__name__, e)

    def block(stmts):
        for s in stmts:
            if isinstance(s, ast.Assign):
                if len(s.targets) != 1:
                    bad("chained assignment", s)
                v = s.value
                if isinstance(v, ast.Constant) and isinstance(v.value, bool):
                    expr(v, "flag")
                else:
                    expr(v, "value")
                for t in s.targets:
                    store(t)
            elif isinstance(s, ast.For):
                if s.orelse:
                    bad("for/else", s)
                it = s.iter
                if isinstance(s.target, ast.Name) and s.target.id == "_":
                    if not (isinstance(it, ast.List) and len(it.elts) == 1 and isinstance(it.elts[0], ast.Constant)
                            and it.elts[0].value == 1 and type(it.elts[0].value) is int):
                        bad("`for _ in` over something else than [1]", s)
                else:
                    expr(it, "iter")
                store(s.target)
                block(s.body)
            elif isinstance(s, ast.If):
                t = s.test
                if isinstance(t, ast.Name):
                    if not (BOOKKEEPING.match(t.id) and t.id in local):
                        bad("if on %r" % t.id, s)
                elif isinstance(t, ast.Constant) and t.value is False:
                    pass
                else:
                    bad("if test %s" % ast.dump(t)[:60], s)
                block(s.body)
                block(s.orelse)
            elif isinstance(s, ast.Expr):
                y = s.value
                if not (isinstance(y, ast.Yield) and isinstance(y.value, ast.Constant) and isinstance(y.value.value, bool)):
                    bad("expression statement %s" % ast.dump(y)[:80], s)
            elif isinstance(s, ast.Return):
                if s.value is not None:
                    bad("return with a value", s)
            elif isinstance(s, (ast.Break, ast.Pass)):
                pass
            else:
                bad("statement %s" % type(s).__name__, s)

    block(fn.body)
    return problems


# ------------------------------------------------------------------------------ dynamic check
class Tripwire(object):
    """process-wide recorder: sys audit events plus direct wrappers on __import__ and os.system.
    Events are only recorded while armed."""

    def __init__(self):
        self.armed = False
        self.events = []
        self.installed = False

    def install(self):
        if self.installed:
            return
        self.installed = True
        sys.addaudithook(self._hook)
        real_import = builtins.__import__
        real_system = os.system

        def import_(name, *a, **k):
            if self.armed:
                self.events.append("builtins.__import__(%r)" % (name,))
            return real_import(name, *a, **k)

        def system(cmd):
            if self.armed:
                self.events.append("os.system(%r)" % (cmd,))
                return 0
            return real_system(cmd)
        builtins.__import__ = import_
        os.system = system

    def _hook(self, event, args):
        if self.armed:
            self.events.append(event)

    def __enter__(self):
        self.events = []
        self.armed = True
        return self

    def __exit__(self, *exc):
        self.armed = False
        return False


TRIP = Tripwire()
MAX_ANSWERS = 25


def _run_query(yp, name, args):
    """-> (number of answers (bounded), exception text or None, audit events)"""
    n = 0
    err = None
    old = sys.getrecursionlimit()
    with TRIP:
        try:
            q = yp.query(name, args)
            for _ in q:
                n += 1
                if n >= MAX_ANSWERS:
                    break
            if hasattr(q, "close"):
                q.close()
        except RecursionError:
            err = None                    # runaway recursion of a test program is not the subject here
        except BaseException as e:        # noqa: B902
            if isinstance(e, (KeyboardInterrupt, SystemExit)):
                raise
            err = "%s: %s" % (type(e).__name__, str(e)[:120])
    sys.setrecursionlimit(old)
    return n, err, list(TRIP.events)


def dynamic_check(code, text, queries, notes):
    from yldprolog.engine import YP
    problems = []
    TRIP.install()
    yp = YP()
    before = dict(yp.eval_context)
    with TRIP:
        try:
            yp.load_script_from_string(code)
            err = None
        except BaseException as e:        # noqa: B902
            if isinstance(e, (KeyboardInterrupt, SystemExit)):
                raise
            err = "%s: %s" % (type(e).__name__, str(e)[:150])
    ev = list(TRIP.events)
    if err:
        problems.append("load raised %s" % err)
        return problems
    if ev != ["compile", "exec"]:
        problems.append("audit events during load %r (expected exactly the engine's compile, exec)" % ev[:10])
    after = yp.eval_context
    changed = set(k for k in after if k not in before or after[k] is not before[k])
    try:
        expected = set("%s_%d" % k for k in g4reader.clause_keys(text))
    except (g4reader.PlSyntaxError, RecursionError):
        expected = None
    if expected is not None and changed != expected:
        problems.append("eval_context gained/re-bound %r, expected %r" % (sorted(changed)[:10], sorted(expected)[:10]))
    if set(before) - set(after):
        problems.append("eval_context lost %r" % sorted(set(before) - set(after)))
    # wrap the API entries: a query must never dispatch to them
    invoked = []

    def wrap(name, f):
        def w(*a, **k):
            invoked.append(name)
            return f(*a, **k)
        return w
    for k in ENGINE_CONTEXT_NAMES:
        v = yp.eval_context.get(k)
        if callable(v):
            yp.eval_context[k] = wrap(k, v)
    # the program's own predicates
    for name, arity in queries:
        n, err, ev = _run_query(yp, name, [yp.variable() for _ in range(arity)])
        # An exception out of the program's OWN query is not a C12 violation by itself (once(X) with X
        # unbound when the hostile token happens to be 'once' raises YPException; `p :- call(call).`
        # raises TypeError inside the engine's dispatch): what counts here is whether anything outside
        # the API ran, which the tripwires tell.  The exceptions are surfaced in stats.own_query_exceptions.
        if err:
            notes.append("%s/%d: %s" % (name, arity, err))
        if ev:
            problems.append("query %s/%d caused audit events %r" % (name, arity, ev[:6]))
    # hostile run-time queries
    # predicates the program defines, statically or by assert (the assert template stores facts under
    # the hostile name): answers for those are the program's own and legitimate
    defined = set(g4reader.clause_keys(text)) if expected is not None else set()
    defined |= set(k for k, v in getattr(yp, "_predicates_store", {}).items() if v)
    for name in QUERY_NAMES:
        for arity in range(4):
            for mode in ("var", "atom"):
                args = [yp.variable() if mode == "var" else yp.atom("x") for _ in range(arity)]
                n, err, ev = _run_query(yp, name, args)
                if err:
                    problems.append("hostile query %r/%d raised %s" % (name, arity, err))
                if ev:
                    problems.append("hostile query %r/%d caused audit events %r" % (name, arity, ev[:6]))
                legit = (name, arity) in defined
                if n and not legit:
                    problems.append("hostile query %r/%d (%s args) has %d answers" % (name, arity, mode, n))
                if arity == 0:
                    break
    # the same names reached through the meta-call builtins (call/N, once/1, findall/3 run their goal through query as well)
    ctx_before = set(yp.eval_context)
    for name in META_TARGETS:
        for goal in (yp.atom(name), yp.functor(name, [yp.atom("x")]), yp.functor(name, [yp.variable(), yp.atom("x")])):
            for what, margs in (("call", [goal]), ("once", [goal]), ("findall", [yp.variable(), goal, yp.variable()]),
                                ("call", [yp.atom(name), yp.atom("x")])):
                n, err, ev = _run_query(yp, what, margs)
                if err and "not callable" not in err:
                    problems.append("hostile goal %s(%s ...) raised %s" % (what, name, err))
                if ev:
                    problems.append("hostile goal %s(%s ...) caused audit events %r" % (what, name, ev[:6]))
                if n and what != "findall":
                    problems.append("hostile goal %s(%s ...) has %d answers" % (what, name, n))
    if set(yp.eval_context) != ctx_before:
        problems.append("meta-called API names changed the evaluation context: lost %r, new %r"
                        % (sorted(ctx_before - set(yp.eval_context))[:5], sorted(set(yp.eval_context) - ctx_before)[:5]))
    if invoked:
        problems.append("engine API functions were invoked as predicates: %r" % sorted(set(invoked)))
    return problems


def check(text, queries):
    st = K.try_compile(text)
    if st["status"] != "ok":
        return {"accepted": False, "exc": st["exc"], "msg": st["msg"], "problems": []}
    code = st["code"]
    problems = static_check(code, text)
    try:
        compile(code, "<c12>", "exec")
        loadable = True
    except BaseException as e:            # noqa: B902
        if isinstance(e, (KeyboardInterrupt, SystemExit)):
            raise
        loadable = False
        if not problems:
            problems.append("output is not Python: %s" % str(e)[:120])
    notes = []
    if loadable:
        problems.extend(dynamic_check(code, text, queries, notes))
    return {"accepted": True, "problems": problems[:10], "notes": notes}


def _eval(sc):
    try:
        r = check(sc["text"], [tuple(q) for q in sc["queries"]])
    except BaseException as e:            # noqa: B902
        if isinstance(e, (KeyboardInterrupt, SystemExit)):
            raise
        import traceback
        r = {"accepted": True, "problems": ["driver error %s: %s %s" % (type(e).__name__, str(e)[:200], traceback.format_exc()[-300:])]}
    r["scenario"] = sc
    return r


def build_inputs(seed, count):
    out = []
    for name, text, qs in FIXED_PROGRAMS:
        out.append({"text": text, "hostile": "", "position": "fixed:" + name, "queries": [list(q) for q in qs]})
    nfixed = len(HOSTILE_NAMES) + len(HOSTILE_RAW_TOKENS)
    rounds = (max(0, count - len(out)) // nfixed) + 1
    extra = max(0, (count - len(out)) // 3)
    toks = hostile_tokens(seed, extra)
    T = len(TEMPLATES)
    j = 0
    seen = set()
    while len(out) < count and j < T * 2:
        for i, q in enumerate(toks):
            if len(out) >= count:
                break
            if j >= T and i < nfixed:
                continue
            tname, tf = TEMPLATES[(i + j * 7 + seed) % T]
            text, qs = tf(q)
            if text in seen:
                continue
            seen.add(text)
            out.append({"text": text, "hostile": q, "position": tname, "queries": [list(x) for x in qs]})
        j += 1
    return out[:count]


def _nontrivial(sc):
    q = sc["hostile"]
    if sc["position"].startswith("fixed:"):
        return True
    try:
        return not PLAIN_ATOM.match(g4reader.unquote(q))
    except Exception:
        return True


def run(seed, count):
    items = build_inputs(seed, count)
    results = K.pmap(_eval, items, procs=8)
    failures, samples = [], []
    nontrivial = set()
    rejected = {}
    positions = {}
    for r in results:
        sc = r["scenario"]
        if not r["accepted"]:
            rejected[r["exc"]] = rejected.get(r["exc"], 0) + 1
            continue
        positions[sc["position"].split(":")[0]] = positions.get(sc["position"].split(":")[0], 0) + 1
        if _nontrivial(sc):
            nontrivial.add(sc["text"])
        if r["problems"]:
            failures.append({"scenario": sc, "detail": "; ".join(r["problems"])[:900]})
    for r in results:
        sc = r["scenario"]
        if r["accepted"] and not r["problems"] and len(sc["text"]) < 300 and sc["position"] in ("goal_name", "ite", "fixed:api_call_atom"):
            samples.append(sc)
        if len(samples) >= 3:
            break
    failures.sort(key=lambda f: len(f["scenario"]["text"]))
    exc = {}
    for r in results:
        for n in r.get("notes", ()):
            k = n.split(": ", 1)[1].split(":")[0]
            e = exc.setdefault(k, {"count": 0, "example": [r["scenario"]["text"][:200], n[:200]]})
            e["count"] += 1
    return K.report(len(results), len(nontrivial), RULE, failures, samples,
                    stats={"own_query_exceptions": exc, "accepted": sum(1 for r in results if r["accepted"]), "rejected_by_exception": rejected,
                           "accepted_by_position": positions, "hostile_queries_per_case": len(QUERY_NAMES) * 7})


def replay(sc):
    r = check(sc["text"], [tuple(q) for q in sc.get("queries", [])])
    if not r["accepted"]:
        return True, "compiler rejects the text (%s: %s): nothing to check" % (r["exc"], r["msg"])
    if r["problems"]:
        return False, "; ".join(r["problems"])
    return True, "accepted; output within the whitelist, loaded and queried without tripping anything" + (
        " (own-query exceptions: %s)" % "; ".join(r["notes"])[:300] if r.get("notes") else "")


if __name__ == "__main__":
    sys.exit(K.cli(run, replay))
