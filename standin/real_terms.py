"""Contract-directed bounded search / replay on the REAL dereferencing and unification functions.

Runs under /venv/bin/python against the source tree named by YLD_REPO_SRC (default /repo/src).
The oracle is spec/mirror.py (the executable mirror of the SMT specification).  Labelled
*bounded*: never counted as proved (DESIGN 4.2).

  real_terms.py search <size> <max_cases> <seed>     -> JSON on stdout
  real_terms.py replay <file.json>                   -> exit 0 if the scenario passes, 1 if it fails
"""
import itertools
import json
import os
import random
import sys

HERE = os.path.dirname(os.path.abspath(__file__))
sys.path.insert(0, os.path.join(os.path.dirname(HERE), 'spec'))
sys.path.insert(0, os.environ.get('YLD_REPO_SRC', '/repo/src'))
import mirror  # noqa: E402
from yldprolog import engine  # noqa: E402


def tj(t):
    """mirror term -> JSON"""
    if t[0] == 'fun':
        return ['fun', t[1], [tj(a) for a in t[2]]]
    return list(t)


def jt(j):
    if j[0] == 'fun':
        return ('fun', j[1], tuple(jt(a) for a in j[2]))
    return tuple(j)


class World:
    def __init__(self):
        self.yp = engine.YP()
        self.vars = {}
        self.ids = {}

    def var(self, i):
        if i not in self.vars:
            v = self.yp.variable()
            self.vars[i] = v
            self.ids[id(v)] = i
        return self.vars[i]

    def build(self, t):
        if t[0] == 'atom':
            return self.yp.atom(t[1])
        if t[0] == 'var':
            return self.var(t[1])
        if t[0] == 'const':
            return t[1]
        return self.yp.functor(t[1], [self.build(a) for a in t[2]])

    def back(self, x, depth=0):
        """engine value -> mirror term, as it is (no dereferencing)"""
        if depth > 200:
            return ('atom', '<deep>')
        if isinstance(x, engine.Variable):
            if id(x) not in self.ids:
                n = 1000 + len(self.ids)
                self.ids[id(x)] = n
                self.vars[n] = x
            return ('var', self.ids[id(x)])
        if isinstance(x, engine.Atom):
            return ('atom', x.name())
        if isinstance(x, engine.Functor):
            return ('fun', x._name, tuple(self.back(a, depth + 1) for a in x._args))
        return ('const', x)

    def raw_resolve(self, x, depth=0):
        """independent observer of the binding state (reads the cells, does not call get_value)"""
        if depth > 200:
            return ('atom', '<deep>')
        if isinstance(x, engine.Variable):
            if x._is_bound:
                return self.raw_resolve(x._value, depth + 1)
            return self.back(x)
        if isinstance(x, engine.Functor):
            return ('fun', x._name, tuple(self.raw_resolve(a, depth + 1) for a in x._args))
        return self.back(x)

    def snapshot(self):
        return {i: self.raw_resolve(v) for i, v in sorted(self.vars.items()) if i < 1000}


def run_scenario(sc):
    """returns (ok, detail)"""
    try:
        return _run_scenario(sc)
    except mirror.Cyclic:
        return True, 'skipped (cyclic unifier, unspecified)'
    except RecursionError:
        return True, 'skipped (recursion depth)'
    except Exception as e:      # noqa: the engine raised where the specification has an outcome
        return False, 'the engine raised %s: %s' % (type(e).__name__, e)


def _run_scenario(sc):
    w = World()
    pre = [(jt(a), jt(b)) for a, b in sc.get('pre', [])]
    t1, t2 = jt(sc['t1']), jt(sc['t2'])
    for t in [t1, t2] + [x for p in pre for x in p]:
        for v in mirror.vars_of(t):
            w.var(v)
    s = {}
    active = []
    s_chk = {}
    for a, b in pre:
        r = mirror.su(a, b, s_chk)
        s_chk = r if r is not None else s_chk
    _t1, _t2 = (t2, t1) if sc.get('swap') else (t1, t2)
    if sc.get('kind', 'unify') == 'unify':
        mirror.su(_t1, _t2, s_chk)
    elif sc.get('kind') == 'unify_arrays' and _t1[0] == 'fun' and _t2[0] == 'fun':
        mirror.sua(_t1[2], _t2[2], s_chk)
    for a, b in pre:
        s2 = mirror.su(a, b, s)
        g = iter(engine.unify(w.build(a), w.build(b)))
        try:
            next(g)
            got = True
        except StopIteration:
            got = False
        if got != (s2 is not None):
            return False, 'pre-unification %s = %s: real %s, spec %s' % (a, b, got, s2 is not None)
        if got:
            active.append(g)
            s = s2
    if not mirror.acyclic(s):
        return True, 'skipped (cyclic pre-store)'
    before = w.snapshot()
    kind = sc.get('kind', 'unify')
    if kind == 'get_value':
        r = engine.get_value(w.build(t1))
        want = mirror.resolve(t1, s)
        got = w.back(r)
        if got != want:
            return False, 'get_value(%s) under %s: got %s, want %s' % (t1, s, got, want)
        try:
            engine.to_python(w.build(t1))
        except (TypeError, IndexError):
            pass            # to_python of a partial list / of '.' with another arity than 2 is unspecified
        return True, 'ok'
    if sc.get('swap'):
        t1, t2 = t2, t1
    a1, a2 = w.build(t1), w.build(t2)
    if kind == 'unify_arrays':
        if t1[0] != 'fun' or t2[0] != 'fun':
            return True, 'skipped (unify_arrays needs two compound terms)'
        expect = mirror.sua(t1[2], t2[2], s)
        g = iter(engine.unify_arrays(a1._args, a2._args))
        a1 = engine.Functor('x', a1._args)
        a2 = engine.Functor('x', a2._args)
    else:
        expect = mirror.su(t1, t2, s)
        g = iter(engine.unify(a1, a2))
    if expect is not None and not mirror.acyclic(expect):
        return True, 'skipped (cyclic result, unspecified)'
    n = 0
    how = sc.get('abandon', 'exhaust')
    try:
        for _ in g:
            n += 1
            if n > 1:
                return False, 'yielded more than once'
            snap = w.snapshot()
            for i in snap:
                want = mirror.resolve(('var', i), expect) if expect is not None else None
                if expect is None:
                    return False, 'yielded although the terms do not unify'
                if snap[i] != want:
                    return False, 'at the yield variable %d is %s, spec says %s' % (i, snap[i], want)
                gv = w.back(engine.get_value(w.vars[i]))
                if gv != want:
                    return False, 'at the yield get_value(var %d) = %s, fully dereferenced value is %s' % (i, gv, want)
            r1, r2 = w.raw_resolve(a1), w.raw_resolve(a2)
            if r1 != r2:
                return False, 'at the yield the two terms differ: %s vs %s' % (r1, r2)
            # while this unification is suspended at its answer another one over constants is created (not yet advanced) and
            # one is created and run to the end: neither may make this one yield again or change a binding
            _other = engine.unify(7, 7)
            _n3 = sum(1 for _x in engine.unify(8, 8))
            if _n3 != 1:
                return False, 'a unification of two equal constants started meanwhile yielded %d times' % _n3
            _other2 = engine.unify(7, 7)
            if how == 'close':
                g.close()
                break
            if how == 'drop':
                break
            if how == 'throw':
                try:
                    g.throw(KeyError('x')) if hasattr(g, 'throw') else g.close()
                except KeyError:
                    pass
                break
    except Exception as e:  # noqa
        return False, 'raised %s: %s' % (type(e).__name__, e)
    del g
    if n == 0 and expect is not None:
        return False, 'did not yield although the terms unify (spec store %s)' % (expect,)
    after = w.snapshot()
    if after != before:
        return False, 'bindings not restored: before %s after %s' % (before, after)
    return True, 'ok'


def cases(size, seed, limit):
    rng = random.Random(seed)
    # same functor name with two arities, and a Python string constant spelled like an atom: must never unify
    terms = mirror.enum_terms(size, funs=(('f', 1), ('g', 2), ('f', 2)), consts=(1, 'a'))
    # the Python constants None / 0 / '' / False are constants like any other (never a wildcard, never 'unbound')
    odd = [('const', None), ('const', 0), ('const', ''), ('const', False), ('const', 1.0), ('const', True), ('const', '1'), ('const', '0')]      # 1 == 1.0 == True in Python; '1' and '0' print like 1 and 0 and are different constants
    small = mirror.enum_terms(min(size, 2))
    pres = [[]]
    for v in range(3):
        for t in small:
            pres.append([(('var', v), t)])
    for t in small[:6]:
        for u in small[:6]:
            pres.append([(('var', 0), t), (('var', 1), u)])
    pres.append([(('var', 0), ('fun', 'g', (('var', 1), ('var', 2)))), (('var', 1), ('atom', 'a'))])
    pres.append([(('var', 0), ('fun', 'f', (('var', 1),))), (('var', 1), ('fun', 'f', (('var', 2),))), (('var', 2), ('const', 1))])
    allc = []
    for t1 in terms:
        for t2 in terms:
            allc.append((t1, t2))
    rng.shuffle(allc)
    # the list functor '.' with other arities than 2, and lists of different lengths: never special-cased by name
    a, b, c = ('atom', 'a'), ('atom', 'b'), ('atom', 'c')
    v0, v1 = ('var', 0), ('var', 1)
    dot = lambda *xs: ('fun', '.', tuple(xs))      # noqa: E731
    nil = ('atom', '[]')
    special = [(dot(a, b), dot(a, b, c)), (dot(a, b, c), dot(a, b)), (dot(v0, v1), dot(a, b, c)), (dot(a), dot(a, b)), (dot(a, b), dot(a)),
               (dot(a, nil), dot(a, nil, nil)), (dot(a, dot(b, nil)), dot(a, dot(b, nil), c)), (dot(a, dot(b, nil)), dot(a, dot(b, dot(c, nil)))),
               (dot(a, v0), dot(a, dot(b, nil))), (dot(a, dot(b, v0)), dot(v1, dot(b, dot(c, nil)))), (dot(v0, v0), dot(a, b)),
               (dot(a, b, c), dot(a, b, c)), (dot(a, b, v0), dot(a, b, c)), (('fun', 'g', (a, b)), ('fun', 'g', (a, b, c)))]
    # lists against lists, every direction: 0..3 elements over {a, V2}, closed ([]), open (tail variable) or improper (tail b)
    import itertools as _it
    v2 = ('var', 2)

    def mk(es, tail):
        for x in reversed(es):
            tail = dot(x, tail)
        return tail
    lists = [mk(es, tail) for n_ in range(4) for es in _it.product((a, v2), repeat=n_) for tail in (nil, v1, b)]
    special += [(x, y) for x in lists for y in lists]
    leaves = [t for t in terms if t[0] != 'fun'][:8]
    oddp = [(o, t) for o in odd for t in leaves + odd + [('fun', 'f', (o,)), ('fun', 'g', (('var', 0), o))]]
    oddp += [(('fun', 'g', (('var', 0), ('var', 0))), ('fun', 'g', (o, ('const', 5)))) for o in odd]
    # constants of different Python types as ARGUMENTS of compound terms: equal iff Python's == says so, as at the top level
    consts_ = [t for t in leaves if t[0] == 'const'] + odd
    oddp += [(('fun', 'f', (o,)), ('fun', 'f', (t,))) for o in odd for t in consts_]
    oddp += [(('fun', 'g', (('atom', 'a'), o)), ('fun', 'g', (('var', 0), t))) for o in odd for t in consts_]
    allc = special + [(y, x) for x, y in special] + oddp + [(y, x) for x, y in oddp] + allc
    n = 0
    hows = ['exhaust', 'close', 'drop', 'throw']
    for (t1, t2) in allc:
        pre = pres[rng.randrange(len(pres))] if rng.random() < 0.7 else []
        for kind in ('unify', 'unify_arrays', 'get_value'):
            yield dict(kind=kind, pre=[[tj(a), tj(b)] for a, b in pre], t1=tj(t1), t2=tj(t2),
                       abandon=hows[n % 4], swap=bool(n % 2))
            n += 1
            if n >= limit:
                return


def main():
    if sys.argv[1] == 'replay':
        sc = json.load(open(sys.argv[2]))
        sc = sc.get('scenario', sc)
        ok, detail = run_scenario(sc)
        print(json.dumps(dict(ok=ok, detail=detail)))
        sys.exit(0 if ok else 1)
    size, limit, seed = int(sys.argv[2]), int(sys.argv[3]), int(sys.argv[4])
    fails = []
    n = 0
    nontriv = set()
    samples = []
    skipped = 0
    import signal

    class _Hang(BaseException):
        pass

    def _alarm(_sig, _frm):
        raise _Hang()
    signal.signal(signal.SIGVTALRM, _alarm)
    for sc in cases(size, seed, limit):
        # one case takes well under a millisecond; a case that has used 30 s of CPU time does not terminate (a failure of its
        # own: unification of finite terms over an acyclic store ends)
        signal.setitimer(signal.ITIMER_VIRTUAL, 30)
        try:
            ok, detail = run_scenario(sc)
        except _Hang:
            ok, detail = False, 'did not finish within 30 s of CPU time'
        finally:
            signal.setitimer(signal.ITIMER_VIRTUAL, 0)
        n += 1
        if detail.startswith('skipped'):
            skipped += 1
        if sc['pre'] or sc['t1'][0] == 'fun' or sc['t2'][0] == 'fun':
            nontriv.add(json.dumps([sc['kind'], sc['pre'], sc['t1'], sc['t2']]))
        if len(samples) < 4 and n % 97 == 1:
            samples.append(sc)
        if not ok:
            fails.append(dict(scenario=sc, detail=detail))
            if len(fails) >= 20:
                break
    print(json.dumps(dict(evaluations=n, distinct_nontrivial=len(nontriv), skipped=skipped, failures=fails,
                          samples=samples,
                          rule='all term pairs up to %d nodes over 2 atoms, f/1, f/2, g/2, 3 variables, constants 1 and \'a\' (a str spelled like an atom), shuffled '
                               'by seed, under 0-3 earlier active unifications; kinds unify/unify_arrays/get_value; '
                               'abandonment exhaust/close/drop/throw; non-trivial = compound argument or non-empty '
                               'pre-store' % size)))


if __name__ == '__main__':
    main()
