#!/bin/bash
# Offline setup: nothing to build; verify the tools the checks need are present.
set -e
cd "$(dirname "$0")"
for t in python3-vt z3-new z3 cvc5 lean /venv/bin/python; do command -v $t >/dev/null || { echo "missing tool: $t"; exit 1; }; done
python3-vt -c "import ast, json"
/venv/bin/python -c "import yldprolog, antlr4"
mkdir -p evidence replays
echo setup ok
