; ---------------------------------------------------------------------------------------------
; C15/C16: the Python value of a (resolved) term - the mapping stated by C16:
; atom -> its name ('[]' -> the empty list), Python constant -> itself, proper list -> Python list,
; compound term not named '.' -> (name, [arguments]), unbound variable -> None
; ---------------------------------------------------------------------------------------------
(declare-datatypes ((PV 0) (PVL 0)) (
  ((PNone) (PStr (pstr String)) (PConst (pconst Int)) (PList (pitems PVL)) (PTuple (ptname String) (ptargs PVL)))
  ((pvnil) (pvcons (pvhd PV) (pvtl PVL)))))
(define-funs-rec ((topy ((t Term)) PV) (topyl ((l TList)) PVL))
 ((ite ((_ is TVar) t) PNone
  (ite ((_ is TAtom) t) (ite (= (aname t) "[]") (PList pvnil) (PStr (aname t)))
  (ite ((_ is TConst) t) (PConst (cval t))
       (ite (= (fname t) ".")
            (PList (pvcons (topy (nth (fargs t) 0)) (pitems (topy (nth (fargs t) 1)))))
            (PTuple (fname t) (topyl (fargs t)))))))
  (ite ((_ is nil) l) pvnil (pvcons (topy (hd l)) (topyl (tl l))))))
; the domain of the statement: every '.'/n term is a list cell '.'(H, T) whose tail converts to a list (proper lists)
(define-funs-rec ((wfl ((t Term)) Bool) (wfll ((l TList)) Bool))
 ((ite ((_ is TFun) t)
       (and (wfll (fargs t))
            (=> (= (fname t) ".") (and (= (len (fargs t)) 2) ((_ is PList) (topy (nth (fargs t) 1))))))
       true)
  (ite ((_ is nil) l) true (and (wfl (hd l)) (wfll (tl l))))))
(define-fun topyres ((t Term) (s Store)) PV (topy (resolve t s)))
(define-fun topyresl ((l TList) (s Store)) PVL (topyl (resolvel l s)))
; L-WFL-NTH (proved by induction in vf/lemmas.py): well-formedness is inherited by the arguments
(assert (forall ((l TList) (i Int)) (! (=> (and (wfll l) (<= 0 i) (< i (len l))) (wfl (nth l i))) :pattern ((wfll l) (nth l i)))))
