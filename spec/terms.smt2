; ---------------------------------------------------------------------------------------------
; Specification prelude: terms, binding stores, dereferencing, unification (DESIGN 3.1, 3.2)
; Written from the property statements (C02, C15); the executable mirror is spec/mirror.py and
; the two are compared on ground inputs on every run (vf/props/specsync.py).
; ---------------------------------------------------------------------------------------------
(declare-datatypes ((Term 0) (TList 0)) (
  ((TAtom (aname String)) (TVar (vid Int)) (TConst (cval Int)) (TFun (fname String) (fargs TList)))
  ((nil) (cons (hd Term) (tl TList)))))
(declare-datatypes ((Bnd 0)) (((Unbound) (Bound (bval Term)))))
(define-sort Store () (Array Int Bnd))
(declare-datatypes ((SRes 0)) (((SFail) (SOk (st Store)))))

(define-fun-rec len ((l TList)) Int (ite ((_ is nil) l) 0 (+ 1 (len (tl l)))))
; L-LEN-NONNEG (proved by induction in vf/lemmas.py)
(assert (forall ((l TList)) (! (>= (len l) 0) :pattern ((len l)))))
(define-fun-rec nth ((l TList) (i Int)) Term (ite (<= i 0) (hd l) (nth (tl l) (- i 1))))
(define-fun isbound ((s Store) (v Int)) Bool ((_ is Bound) (select s v)))

; a term is RESOLVED w.r.t. a store when no bound variable occurs in it at any depth
(define-funs-rec ((isres ((t Term) (s Store)) Bool) (isresl ((l TList) (s Store)) Bool))
 ((ite ((_ is TVar) t) (not (isbound s (vid t))) (ite ((_ is TFun) t) (isresl (fargs t) s) true))
  (ite ((_ is nil) l) true (and (isres (hd l) s) (isresl (tl l) s)))))

; resolve: the fully dereferenced term (every bound variable replaced, at every depth)
(define-funs-rec (
  (resolve ((t Term) (s Store)) Term)
  (resolvel ((l TList) (s Store)) TList))
 ((ite ((_ is TVar) t)
       (ite (isbound s (vid t)) (resolve (bval (select s (vid t))) s) t)
       (ite ((_ is TFun) t) (TFun (fname t) (resolvel (fargs t) s)) t))
  (ite ((_ is nil) l) nil (cons (resolve (hd l) s) (resolvel (tl l) s)))))

; L-RES (proved by induction in vf/lemmas.py; acyclic stores): resolve returns a resolved term; a resolved term is a
; fixed point of resolve; resolvel works pointwise and keeps the length
(assert (forall ((t Term) (s Store)) (! (isres (resolve t s) s) :pattern ((resolve t s)))))
(assert (forall ((l TList) (s Store)) (! (isresl (resolvel l s) s) :pattern ((resolvel l s)))))
(assert (forall ((t Term) (s Store)) (! (=> (isres t s) (= (resolve t s) t)) :pattern ((isres t s) (resolve t s)))))
(assert (forall ((l TList) (s Store)) (! (= (len (resolvel l s)) (len l)) :pattern ((resolvel l s)))))
(assert (forall ((l TList) (s Store) (i Int)) (! (=> (and (<= 0 i) (< i (len l))) (= (nth (resolvel l s) i) (resolve (nth l i) s)))
   :pattern ((nth (resolvel l s) i)))))

; walk: follow variable-to-variable bindings at the root only
(define-fun-rec walk ((t Term) (s Store)) Term
  (ite (and ((_ is TVar) t) (isbound s (vid t)))
       (ite ((_ is TVar) (bval (select s (vid t)))) (walk (bval (select s (vid t))) s) (bval (select s (vid t))))
       t))

; unification without occurs check, on dereferenced terms; bindings store resolved values
;   su   : the function `unify`           sud : dispatch on the dereferenced pair
;   sum  : "a.unify(b)" for a an atom, compound term or variable
;   sulk : argument lists from index k on (index form: one unfolding per loop step)
(define-funs-rec (
  (su  ((a Term) (b Term) (s Store)) SRes)
  (sud ((a Term) (b Term) (s Store)) SRes)
  (sum ((a Term) (b Term) (s Store)) SRes)
  (sulk ((x TList) (y TList) (k Int) (s Store)) SRes))
 ((sud (resolve a s) (resolve b s) s)
  (ite ((_ is TConst) a)
       (ite ((_ is TConst) b) (ite (= a b) (SOk s) SFail) (sum b a s))
       (sum a b s))
  (ite ((_ is TVar) a)
       (ite (isbound s (vid a))
            (su a b s)
            (ite (= (resolve b s) a)
                 (SOk s)
                 (SOk (store s (vid a) (Bound (resolve b s))))))
  (ite ((_ is TAtom) a)
       (ite ((_ is TAtom) (resolve b s))
            (ite (= (aname a) (aname (resolve b s))) (SOk s) SFail)
            (ite ((_ is TVar) (resolve b s)) (sum (resolve b s) a s) SFail))
  (ite ((_ is TFun) a)
       (ite ((_ is TFun) (resolve b s))
            (ite (and (= (fname a) (fname (resolve b s))) (= (len (fargs a)) (len (fargs (resolve b s)))))
                 (sulk (fargs a) (fargs (resolve b s)) 0 s)
                 SFail)
            (ite ((_ is TVar) (resolve b s)) (sum (resolve b s) a s) SFail))
       SFail)))
  (ite (>= k (len x))
       (SOk s)
       (ite ((_ is SFail) (su (nth x k) (nth y k) s))
            SFail
            (sulk x y (+ k 1) (st (su (nth x k) (nth y k) s)))))))

; unify_arrays / Answer.match: lists of different length do not unify
(define-fun sua ((x TList) (y TList) (s Store)) SRes
  (ite (= (len x) (len y)) (sulk x y 0 s) SFail))

; footprint-based finalisation: reset every cell bound by going from store a to store b
(declare-fun unbindfp (Store Store Store) Store)
(assert (forall ((r Store) (a Store) (b Store) (v Int))
  (! (= (select (unbindfp r a b) v)
        (ite (and ((_ is Unbound) (select a v)) ((_ is Bound) (select b v))) Unbound (select r v)))
     :pattern ((select (unbindfp r a b) v)))))

; L-SU-FRAME (proved by induction in spec/lemmas_su.smt2): unification only binds unbound cells
(assert (forall ((a Term) (b Term) (s Store) (v Int))
  (! (=> (and ((_ is SOk) (su a b s)) ((_ is Bound) (select s v)))
         (= (select (st (su a b s)) v) (select s v)))
     :pattern ((select (st (su a b s)) v)))))
(assert (forall ((x TList) (y TList) (k Int) (s Store) (v Int))
  (! (=> (and ((_ is SOk) (sulk x y k s)) ((_ is Bound) (select s v)))
         (= (select (st (sulk x y k s)) v) (select s v)))
     :pattern ((select (st (sulk x y k s)) v)))))

; iterator handles (generator calculus, DESIGN 2.3): immutable ghost fields fixed at creation
(declare-fun h_res (Int) SRes)     ; semidet answer specification
(declare-fun h_cs (Int) Store)     ; store at creation
; lifecycle states
(define-fun FRESH () Int 0)
(define-fun SUSP () Int 1)
(define-fun DONE () Int 2)
; store after the first j sub-unifications of unify_arrays (handles are chained)
(declare-fun chain ((Array Int Int) Int Store) Store)
(assert (forall ((its (Array Int Int)) (j Int) (s0 Store))
  (! (= (chain its j s0) (ite (<= j 0) s0 (st (h_res (select its (- j 1))))))
     :pattern ((chain its j s0)))))
