; ---------------------------------------------------------------------------------------------
; The `variables` properties of the AST classes (yp_prolog_visitor): names of the variables of a term / body in
; occurrence order, with repetitions.  control.smt2 declares tavarsl/bodyvars uninterpreted (the compiler contracts hold for
; any such function); this file DEFINES them, and the property functions of the classes are verified against it.
; DEFINES: tavarsl bodyvars
; ---------------------------------------------------------------------------------------------
(define-funs-rec ((tavars ((t TA)) SS) (tavarsl ((l TAL)) SS)) (
  (ite ((_ is TAVar) t) (seq.unit (tavname t))
  (ite ((_ is TAFun) t) (tavarsl (tafargs t))
  (ite ((_ is TAListT) t) (tavarsl (taitems t))
  (ite ((_ is TAPair) t) (seq.++ (tavars (tahead t)) (tavars (tatail t)))
       (as seq.empty SS)))))
  (ite ((_ is tanil) l) (as seq.empty SS) (seq.++ (tavars (tahd l)) (tavarsl (tatl l))))))
; the functor object of a Predicate: the source goal's term, or the compiler's marker '$CUTIF'(label)
(declare-fun labelatom (Int) String)
(define-fun functorobj ((b Body)) TA
  (ite ((_ is BCutIf) b) (TAFun "$CUTIF" (tacons (TAAtom (labelatom (lbl b))) tanil)) (predta (pid b))))
(define-fun-rec bodyvars ((b Body)) SS
  (ite ((_ is BPred) b) (tavars (functorobj b))
  (ite ((_ is BConj) b) (seq.++ (bodyvars (cl b)) (bodyvars (cr b)))
  (ite ((_ is BDisj) b) (seq.++ (bodyvars (dl b)) (bodyvars (dr b)))
  (ite ((_ is BIfThen) b) (seq.++ (bodyvars (ic b)) (bodyvars (ia b)))
  (ite ((_ is BNeg) b) (bodyvars (np b))
       (as seq.empty SS)))))))
