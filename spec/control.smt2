; ---------------------------------------------------------------------------------------------
; Control algebra (DESIGN 3.4): source semantics of clause bodies, target semantics of YPCode trees.
; Behaviours are an UNINTERPRETED sort; the only facts about them are the lemmas below, each of
; which is a theorem of lean/CtlM1.lean (pure model) and lean/CtlM2.lean (effects threaded) under
; the name given in the comment `; LEAN <name>`.  vf/lemmas.py checks on every run that each name
; is a theorem of the Lean files and that the files check.
; ---------------------------------------------------------------------------------------------
(declare-sort Beh 0)
(declare-datatypes ((Body 0)) ((
  (BTrue) (BFail) (BCut) (BPred (pid Int)) (BCutIf (lbl Int))
  (BConj (cl Body) (cr Body)) (BDisj (dl Body) (dr Body))
  (BIfThen (ic Body) (ia Body)) (BNeg (np Body)))))
; source terms (AST classes of yp_prolog_visitor) and the constructor-call expressions emitted for them
(declare-datatypes ((TA 0) (TAL 0)) (
  ((TAAtom (taval String)) (TAVar (tavname String)) (TAFun (tafname String) (tafargs TAL)) (TANum (tanum String))
   (TAListT (taitems TAL)) (TAPair (tahead TA) (tatail TA)))
  ((tanil) (tacons (tahd TA) (tatl TAL)))))
(declare-datatypes ((CE 0) (CEL 0)) (
  ((CEAtom (ceval String)) (CEVar (cevname String)) (CEFun (cefname String) (cefargs CEL)) (CEVal (cenum String))
   (CEMakeList (ceitems CEL)) (CENil) (CEPair (cehead CE) (cetail CE)))
  ((cenil) (cecons (cehd CE) (cetl CEL)))))
(declare-datatypes ((Stmt 0) (Code 0)) ((
  (SYieldF) (SYieldT) (SReturn) (SForeach (fg Body) (fc Code)) (SBlock (bl Int) (bc Code)) (SBreak (brl Int))
  (SAlias (al String) (ar String))                     ; <source variable> = argN
  (SDecl (dv String))                                  ; <variable> = variable()
  (SUnify (uv String) (ue CE) (uc Code))               ; for lN in unify(<argN>, <expr>): <code>
  (SQuery (qn String) (qa CEL) (qc Code)))             ; for lN in query(<name>, [<exprs>]): <code>   (the concrete form of SForeach)
  ((cnil) (ccons (chd Stmt) (ctl Code)))))
(declare-fun yieldB () Beh) (declare-fun failB () Beh) (declare-fun cutB () Beh)
(declare-fun exitB (Int) Beh)
(declare-fun seqB (Beh Beh) Beh) (declare-fun bindB (Beh Beh) Beh)
(declare-fun callB (Int) Beh)              ; the answers of primitive goal number pid (status always done)
(declare-fun blockB (Int Beh) Beh) (declare-fun iteB (Beh Beh Beh) Beh) (declare-fun negB (Beh) Beh)
(declare-fun pureB (Beh) Bool) (declare-fun noexitB (Int Beh) Bool)
(declare-fun semb (Body) Beh) (declare-fun semc (Code) Beh) (declare-fun sems (Stmt) Beh)
(define-fun-rec capp ((x Code) (y Code)) Code (ite ((_ is cnil) x) y (ccons (chd x) (capp (ctl x) y))))

; names of primitive goals; the visitor rejects a source goal named $CUTIF (obligation of C12/C06 on
; YPPrologVisitor.visitTermpredicate), so a BPred never carries that name
(declare-fun pname (Int) String)
(assert (forall ((p Int)) (! (not (= (pname p) "$CUTIF")) :pattern ((pname p)))))

; ---- lemma layer -------------------------------------------------------------------------------
(assert (forall ((x Beh)) (! (= (seqB failB x) x) :pattern ((seqB failB x)))))                        ; LEAN seq_fail_left
(assert (forall ((x Beh)) (! (= (seqB x failB) x) :pattern ((seqB x failB)))))                        ; LEAN seq_fail_right
(assert (forall ((x Beh) (y Beh) (z Beh)) (! (= (seqB (seqB x y) z) (seqB x (seqB y z))) :pattern ((seqB (seqB x y) z)))))  ; LEAN seq_assoc
(assert (forall ((b Beh)) (! (= (bindB yieldB b) b) :pattern ((bindB yieldB b)))))                    ; LEAN bind_yield
(assert (forall ((a Beh)) (! (= (bindB a yieldB) a) :pattern ((bindB a yieldB)))))                    ; LEAN bind_yield_right
(assert (forall ((b Beh)) (! (= (bindB failB b) failB) :pattern ((bindB failB b)))))                  ; LEAN bind_fail
(assert (forall ((b Beh)) (! (= (bindB cutB b) cutB) :pattern ((bindB cutB b)))))                     ; LEAN bind_cut
(assert (forall ((b Beh) (l Int)) (! (= (bindB (exitB l) b) (exitB l)) :pattern ((bindB (exitB l) b)))))   ; LEAN bind_exit
(assert (forall ((x Beh) (y Beh) (b Beh)) (! (= (bindB (seqB x y) b) (seqB (bindB x b) (bindB y b))) :pattern ((bindB (seqB x y) b)))))  ; LEAN bind_seq
(assert (forall ((x Beh) (y Beh) (z Beh)) (! (= (bindB (bindB x y) z) (bindB x (bindB y z))) :pattern ((bindB (bindB x y) z)))))  ; LEAN bind_assoc
(assert (forall ((c Beh) (t Beh) (e Beh) (k Beh)) (! (= (bindB (iteB c t e) k) (iteB c (bindB t k) (bindB e k))) :pattern ((bindB (iteB c t e) k)))))  ; LEAN bind_ite
(assert (forall ((a Beh)) (! (= (negB a) (iteB a failB yieldB)) :pattern ((negB a)))))                ; LEAN neg_ite
(assert (forall ((l Int) (c Beh) (t Beh) (e Beh)) (! (=> (and (pureB c) (noexitB l t) (noexitB l e))
   (= (blockB l (seqB (bindB c (seqB t (exitB l))) e)) (iteB c t e)))
   :pattern ((blockB l (seqB (bindB c (seqB t (exitB l))) e))))))                                      ; LEAN ite_block

; ---- syntax-level predicates (recursive definitions over Body)
(declare-fun plain (Body) Bool)                             ; no cut and no $CUTIF anywhere
(assert (plain BTrue)) (assert (plain BFail)) (assert (not (plain BCut)))
(assert (forall ((p Int)) (! (plain (BPred p)) :pattern ((plain (BPred p))))))
(assert (forall ((l Int)) (! (not (plain (BCutIf l))) :pattern ((plain (BCutIf l))))))
(assert (forall ((a Body) (b Body)) (! (= (plain (BConj a b)) (and (plain a) (plain b))) :pattern ((plain (BConj a b))))))
(assert (forall ((a Body) (b Body)) (! (= (plain (BDisj a b)) (and (plain a) (plain b))) :pattern ((plain (BDisj a b))))))
(assert (forall ((a Body) (b Body)) (! (= (plain (BIfThen a b)) (and (plain a) (plain b))) :pattern ((plain (BIfThen a b))))))
(assert (forall ((a Body)) (! (= (plain (BNeg a)) (plain a)) :pattern ((plain (BNeg a))))))
(declare-fun lblle (Body Int) Bool)                         ; every $CUTIF label in b is <= n
(assert (forall ((n Int)) (! (lblle BTrue n) :pattern ((lblle BTrue n)))))
(assert (forall ((n Int)) (! (lblle BFail n) :pattern ((lblle BFail n)))))
(assert (forall ((n Int)) (! (lblle BCut n) :pattern ((lblle BCut n)))))
(assert (forall ((p Int) (n Int)) (! (lblle (BPred p) n) :pattern ((lblle (BPred p) n)))))
(assert (forall ((l Int) (n Int)) (! (= (lblle (BCutIf l) n) (<= l n)) :pattern ((lblle (BCutIf l) n)))))
(assert (forall ((a Body) (b Body) (n Int)) (! (= (lblle (BConj a b) n) (and (lblle a n) (lblle b n))) :pattern ((lblle (BConj a b) n)))))
(assert (forall ((a Body) (b Body) (n Int)) (! (= (lblle (BDisj a b) n) (and (lblle a n) (lblle b n))) :pattern ((lblle (BDisj a b) n)))))
(assert (forall ((a Body) (b Body) (n Int)) (! (= (lblle (BIfThen a b) n) (and (lblle a n) (lblle b n))) :pattern ((lblle (BIfThen a b) n)))))
(assert (forall ((a Body) (n Int)) (! (= (lblle (BNeg a) n) (lblle a n)) :pattern ((lblle (BNeg a) n)))))
; well-formed bodies: conditions of -> and operands of \+ are plain (cuts there are outside the
; statements of C05/C06); a $CUTIF marker occurs only as the left operand of a conjunction
(declare-fun wfb (Body) Bool)
(assert (wfb BTrue)) (assert (wfb BFail)) (assert (wfb BCut))
(assert (forall ((p Int)) (! (wfb (BPred p)) :pattern ((wfb (BPred p))))))
(assert (forall ((l Int)) (! (not (wfb (BCutIf l))) :pattern ((wfb (BCutIf l))))))
(assert (forall ((a Body) (b Body)) (! (= (wfb (BConj a b)) (and (or ((_ is BCutIf) a) (wfb a)) (wfb b))) :pattern ((wfb (BConj a b))))))
(assert (forall ((a Body) (b Body)) (! (= (wfb (BDisj a b)) (and (wfb a) (wfb b))) :pattern ((wfb (BDisj a b))))))
(assert (forall ((a Body) (b Body)) (! (= (wfb (BIfThen a b)) (and (plain a) (wfb b))) :pattern ((wfb (BIfThen a b))))))
(assert (forall ((a Body)) (! (= (wfb (BNeg a)) (plain a)) :pattern ((wfb (BNeg a))))))
(assert (forall ((b Body)) (! (=> (plain b) (wfb b)) :pattern ((plain b)))))                             ; LEAN wfb_of_plain
(assert (forall ((b Body)) (! (=> (plain b) (pureB (semb b))) :pattern ((plain b)))))                  ; LEAN pure_of_plain
(assert (forall ((b Body) (n Int) (l Int)) (! (=> (and (lblle b n) (< n l)) (noexitB l (semb b)))
   :pattern ((lblle b n) (noexitB l (semb b))))))                                                      ; LEAN noexit_of_lbl
(assert (forall ((b Body) (n Int) (m Int)) (! (=> (and (lblle b n) (<= n m)) (lblle b m)) :pattern ((lblle b n) (lblle b m)))))  ; LEAN lblLe_mono

; ---- target semantics of code trees
(assert (= (semc cnil) failB))
(assert (forall ((s Stmt) (c Code)) (! (= (semc (ccons s c)) (seqB (sems s) (semc c))) :pattern ((semc (ccons s c))))))
(assert (forall ((x Code) (y Code)) (! (= (semc (capp x y)) (seqB (semc x) (semc y))) :pattern ((semc (capp x y))))))   ; LEAN semc_append
(assert (= (sems SYieldF) yieldB)) (assert (= (sems SYieldT) yieldB)) (assert (= (sems SReturn) cutB))
(assert (forall ((g Body) (c Code)) (! (= (sems (SForeach g c)) (bindB (semb g) (semc c))) :pattern ((sems (SForeach g c))))))
(assert (forall ((l Int) (c Code)) (! (= (sems (SBlock l c)) (blockB l (semc c))) :pattern ((sems (SBlock l c))))))
(assert (forall ((l Int)) (! (= (sems (SBreak l)) (exitB l)) :pattern ((sems (SBreak l))))))

; ---- source semantics of bodies (taken from the property statements C01, C05, C06)
(assert (= (semb BTrue) yieldB)) (assert (= (semb BFail) failB)) (assert (= (semb BCut) (seqB yieldB cutB)))
(assert (forall ((p Int)) (! (= (semb (BPred p)) (callB p)) :pattern ((semb (BPred p))))))
(assert (forall ((l Int)) (! (= (semb (BCutIf l)) (seqB yieldB (exitB l))) :pattern ((semb (BCutIf l))))))
(assert (forall ((a Body) (b Body)) (! (= (semb (BConj a b)) (bindB (semb a) (semb b))) :pattern ((semb (BConj a b))))))
(assert (forall ((a Body) (b Body)) (! (= (semb (BDisj a b))
     (ite ((_ is BIfThen) a) (iteB (semb (ic a)) (semb (ia a)) (semb b)) (seqB (semb a) (semb b))))
     :pattern ((semb (BDisj a b))))))
(assert (forall ((c Body) (t Body)) (! (= (semb (BIfThen c t)) (iteB (semb c) (semb t) failB)) :pattern ((semb (BIfThen c t))))))
(assert (forall ((a Body)) (! (= (semb (BNeg a)) (negB (semb a))) :pattern ((semb (BNeg a))))))

; ---------------------------------------------------------------------------------------------
; Clause heads (C01): which head arguments are aliased to argN, which are unified, in which order
; ---------------------------------------------------------------------------------------------
(define-fun-rec talen ((l TAL)) Int (ite ((_ is tanil) l) 0 (+ 1 (talen (tatl l)))))
(assert (forall ((l TAL)) (! (>= (talen l) 0) :pattern ((talen l)))))            ; by induction (as L-LEN-NONNEG)
(define-fun-rec tanth ((l TAL) (i Int)) TA (ite (<= i 0) (tahd l) (tanth (tatl l) (- i 1))))
; the expression emitted for a source term
(define-funs-rec ((cexpr ((t TA)) CE) (cexprl ((l TAL)) CEL))
 ((ite ((_ is TAAtom) t) (CEAtom (taval t))
  (ite ((_ is TAVar) t) (CEVar (tavname t))
  (ite ((_ is TAFun) t) (CEFun (tafname t) (cexprl (tafargs t)))
  (ite ((_ is TANum) t) (CEVal (tanum t))
  (ite ((_ is TAListT) t) (ite ((_ is tanil) (taitems t)) CENil (CEMakeList (cexprl (taitems t))))
       (CEPair (cexpr (tahead t)) (cexpr (tatail t))))))))
  (ite ((_ is tanil) l) cenil (cecons (cexpr (tahd l)) (cexprl (tatl l))))))
; bracket accounting of the emitted expression: (fits t b) = the constructor calls emitted for t, written inside b open brackets, never
; nest deeper than 182 brackets: atom( opens 1, functor( [ and makelist([ open 2 around their arguments, listpair( opens 1 around both
; of its arguments (head AND tail), variables / numerals / ATOM_NIL open none
(define-funs-rec ((fits ((t TA) (b Int)) Bool) (fitsl ((l TAL) (b Int)) Bool))
 ((ite ((_ is TAAtom) t) (<= (+ b 1) 182)
  (ite ((_ is TAFun) t) (and (<= (+ b 2) 182) (fitsl (tafargs t) (+ b 2)))
  (ite ((_ is TAListT) t) (ite ((_ is tanil) (taitems t)) (<= b 182) (and (<= (+ b 2) 182) (fitsl (taitems t) (+ b 2))))
  (ite ((_ is TAPair) t) (and (<= (+ b 1) 182) (fits (tahead t) (+ b 1)) (fits (tatail t) (+ b 1)))
       (<= b 182)))))
  (ite ((_ is tanil) l) true (and (fits (tahd l) b) (fitsl (tatl l) b)))))
; number of positions j < k whose argument is the plain variable n
(define-fun-rec cnt ((a TAL) (n String) (k Int)) Int
  (ite (<= k 0) 0 (+ (cnt a n (- k 1)) (ite (= (tanth a (- k 1)) (TAVar n)) 1 0))))
; L-CNT (proved by induction in vf/lemmas.py): counts are natural numbers; a position holding the variable is counted
(assert (forall ((a TAL) (n String) (k Int)) (! (>= (cnt a n k) 0) :pattern ((cnt a n k)))))
(assert (forall ((a TAL) (n String) (k Int) (j Int)) (! (=> (and (<= 0 j) (< j k) (= (tanth a j) (TAVar n))) (>= (cnt a n k) 1))
   :pattern ((cnt a n k) (tanth a j)))))
; position j is UNIFIED (not aliased): its argument is not a plain variable, or that variable occurs at more than one position
(define-fun unified ((a TAL) (j Int)) Bool
  (not (and ((_ is TAVar) (tanth a j)) (= (cnt a (tavname (tanth a j)) (talen a)) 1))))
(define-fun argname ((i Int)) String (str.++ "arg" (str.from_int (+ i 1))))
; alias assignments for the aliased positions < k, in position order (index form)
(define-fun-rec aliases ((a TAL) (k Int)) Code
  (ite (<= k 0) cnil
       (capp (aliases a (- k 1))
             (ite (unified a (- k 1)) cnil (ccons (SAlias (tavname (tanth a (- k 1))) (argname (- k 1))) cnil)))))
; unification loops for the unified positions >= j, position j outermost, the body innermost
(define-fun-rec wrap ((a TAL) (j Int) (body Code)) Code
  (ite (>= j (talen a)) body
       (ite (unified a j)
            (ccons (SUnify (argname j) (cexpr (tanth a j)) (wrap a (+ j 1) body)) cnil)
            (wrap a (+ j 1) body))))

; ---------------------------------------------------------------------------------------------
; Clause variables (C01): which variables are declared, once, before the head unification loops
; ---------------------------------------------------------------------------------------------
(define-sort SS () (Seq String))
(define-fun-rec sminus ((q SS) (b SS)) SS           ; [v for v in q if v not in b]
  (ite (= (seq.len q) 0) (as seq.empty SS)
       (ite (seq.contains b (seq.unit (seq.nth q 0)))
            (sminus (seq.extract q 1 (- (seq.len q) 1)) b)
            (seq.++ (seq.unit (seq.nth q 0)) (sminus (seq.extract q 1 (- (seq.len q) 1)) b)))))
(define-fun-rec sremoveall ((q SS) (x String)) SS
  (ite (= (seq.len q) 0) (as seq.empty SS)
       (ite (= (seq.nth q 0) x) (sremoveall (seq.extract q 1 (- (seq.len q) 1)) x)
            (seq.++ (seq.unit (seq.nth q 0)) (sremoveall (seq.extract q 1 (- (seq.len q) 1)) x)))))
(define-fun-rec sdedupe ((q SS)) SS                  ; list(dict.fromkeys(q)): first occurrences, in order (A-PY-DICTORDER)
  (ite (= (seq.len q) 0) (as seq.empty SS)
       (seq.++ (seq.unit (seq.nth q 0)) (sdedupe (sremoveall (seq.extract q 1 (- (seq.len q) 1)) (seq.nth q 0))))))
(define-fun-rec decls ((q SS)) Code                  ; one `V = variable()` per name, in order
  (ite (= (seq.len q) 0) cnil (ccons (SDecl (seq.nth q 0)) (decls (seq.extract q 1 (- (seq.len q) 1))))))
; names of the aliased head positions < k, in position order (index form): [v for v in head_args_by_pos if v != None]
(define-fun-rec aliasnames ((a TAL) (k Int)) SS
  (ite (<= k 0) (as seq.empty SS)
       (seq.++ (aliasnames a (- k 1)) (ite (unified a (- k 1)) (as seq.empty SS) (seq.unit (tavname (tanth a (- k 1))))))))
; the `variables` lists of the AST (occurrence order, with repetitions); the AST properties themselves are not verified
(declare-fun tavarsl (TAL) SS)
(declare-fun bodyvars (Body) SS)
; a goal BPred(pid) stands for a term: predid/predta are inverse (the Int is only an identity)
(declare-fun predid (TA) Int)
(declare-fun predta (Int) TA)
(assert (forall ((t TA)) (! (= (predta (predid t)) t) :pattern ((predid t)))))
; the stack of bound-variable lists
(declare-datatypes ((BVS 0)) (((bvnil) (bvpush (bvtop SS) (bvrest BVS)))))
; block-nesting depth of emitted code: every loop (goal or head unification) is one block, a breakable block with a
; non-empty body is one more (its `for _ in [1]:` wrapper); index form over the statement list
(define-fun-rec clen ((c Code)) Int (ite ((_ is cnil) c) 0 (+ 1 (clen (ctl c)))))
(assert (forall ((c Code)) (! (>= (clen c) 0) :pattern ((clen c)))))
(define-fun-rec cnth ((c Code) (i Int)) Stmt (ite (<= i 0) (chd c) (cnth (ctl c) (- i 1))))
(define-funs-rec ((ndk ((c Code) (k Int)) Int) (ndst ((s Stmt)) Int))
 ((ite (<= k 0) 0 (ite (>= (ndk c (- k 1)) (ndst (cnth c (- k 1)))) (ndk c (- k 1)) (ndst (cnth c (- k 1)))))
  (ite ((_ is SForeach) s) (+ 1 (ndk (fc s) (clen (fc s))))
  (ite ((_ is SUnify) s) (+ 1 (ndk (uc s) (clen (uc s))))
  (ite ((_ is SBlock) s) (+ (ite (= (bc s) cnil) 0 1) (ndk (bc s) (clen (bc s)))) 0)))))
; L-NDEPTH-NONNEG (proved by induction in vf/lemmas.py)
(assert (forall ((c Code) (k Int)) (! (>= (ndk c k) 0) :pattern ((ndk c k)))))
(assert (forall ((s Stmt)) (! (>= (ndst s) 0) :pattern ((ndst s)))))
(define-fun ndepth ((c Code)) Int (ndk c (clen c)))
; the non-None entries of head_args_by_pos, in order (index form)
(define-fun-rec hpnames ((hp (Array Int String)) (hpn (Array Int Bool)) (k Int)) SS
  (ite (<= k 0) (as seq.empty SS)
       (seq.++ (hpnames hp hpn (- k 1)) (ite (select hpn (- k 1)) (as seq.empty SS) (seq.unit (select hp (- k 1)))))))
; L-HPNAMES (proved by induction in vf/lemmas.py): when head_args_by_pos holds the final aliasing state for the head arguments a,
; its non-None entries are exactly the alias names, in position order
(assert (forall ((hp (Array Int String)) (hpn (Array Int Bool)) (a TAL) (k Int))
  (! (=> (forall ((j Int)) (! (=> (and (<= 0 j) (< j k)) (and (= (select hpn j) (unified a j))
                                                               (=> (not (unified a j)) (= (select hp j) (tavname (tanth a j))))))
                              :pattern ((select hpn j))))
         (= (hpnames hp hpn k) (aliasnames a k)))
     :pattern ((hpnames hp hpn k) (aliasnames a k)))))

; ---------------------------------------------------------------------------------------------
; Program level (C11): one generator function per predicate key, named name_arity with parameters arg1..argN
; ---------------------------------------------------------------------------------------------
(declare-datatypes ((PK 0)) (((mkPK (pkname String) (pkarity Int)))))        ; dictionary key (name, arity) of visitProgram
(declare-datatypes ((FN 0)) (((mkFN (fnname String) (fnargs SS)))))          ; YPCodeFunction(name, args, <lazy body>)
(define-fun-rec argnames ((n Int)) SS
  (ite (<= n 0) (as seq.empty SS) (seq.++ (argnames (- n 1)) (seq.unit (argname (- n 1))))))
; L-ARGNAMES-LEN (by induction, vf/lemmas.py): the emitted `def name_<len(args)>` carries the key's arity
(assert (forall ((n Int)) (! (= (seq.len (argnames n)) (ite (<= n 0) 0 n)) :pattern ((argnames n)))))
(define-fun fnof ((k PK)) FN (mkFN (pkname k) (argnames (pkarity k))))
; the functions of the first k dictionary entries, in dictionary order
(define-fun-rec progfns ((p (Seq PK)) (k Int)) (Seq FN)
  (ite (<= k 0) (as seq.empty (Seq FN)) (seq.++ (progfns p (- k 1)) (seq.unit (fnof (seq.nth p (- k 1)))))))
