; ---------------------------------------------------------------------------------------------
; C16: what a source literal denotes (tsem, taken from the property statement) and what the emitted
; constructor calls build at run time (denote; the contracts of atom/functor/makelist/listpair are assumed)
; needs terms.smt2 (Term, TList) and control.smt2 (TA, CE, cexpr)
; ---------------------------------------------------------------------------------------------
(declare-fun strint (String) Int)            ; the integer a NUMERAL spelling denotes (int(text), A-PY-STR)
(define-fun-rec plist ((l TList)) Term       ; [t1,...,tn] = '.'(t1, ... '.'(tn, '[]'))
  (ite ((_ is nil) l) (TAtom "[]") (TFun "." (cons (hd l) (cons (plist (tl l)) nil)))))
(define-funs-rec ((tsem ((t TA) (env (Array String Term))) Term) (tseml ((l TAL) (env (Array String Term))) TList))
 ((ite ((_ is TAAtom) t) (TAtom (taval t))
  (ite ((_ is TAVar) t) (select env (tavname t))
  (ite ((_ is TAFun) t) (TFun (tafname t) (tseml (tafargs t) env))
  (ite ((_ is TANum) t) (TConst (strint (tanum t)))
  (ite ((_ is TAListT) t) (plist (tseml (taitems t) env))
       (TFun "." (cons (tsem (tahead t) env) (cons (tsem (tatail t) env) nil))))))))
  (ite ((_ is tanil) l) nil (cons (tsem (tahd l) env) (tseml (tatl l) env)))))
(define-funs-rec ((denote ((c CE) (env (Array String Term))) Term) (denotel ((l CEL) (env (Array String Term))) TList))
 ((ite ((_ is CEAtom) c) (TAtom (ceval c))                                        ; atom(repr(text))
  (ite ((_ is CEVar) c) (select env (cevname c))                                  ; the clause-local variable
  (ite ((_ is CEFun) c) (TFun (cefname c) (denotel (cefargs c) env))              ; functor(name, [...])
  (ite ((_ is CEVal) c) (TConst (strint (cenum c)))                               ; integer literal
  (ite ((_ is CEMakeList) c) (plist (denotel (ceitems c) env))                    ; makelist([...])   (A-EXT-REDUCE)
  (ite ((_ is CENil) c) (TAtom "[]")                                              ; ATOM_NIL
       (TFun "." (cons (denote (cehead c) env) (cons (denote (cetail c) env) nil)))))))))   ; listpair(h, t)
  (ite ((_ is cenil) l) nil (cons (denote (cehd l) env) (denotel (cetl l) env)))))
