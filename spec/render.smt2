; ---------------------------------------------------------------------------------------------
; The text YPPythonCodeGenerator must produce for a YPCode tree (C11, C12: the emitted program is exactly this text;
; what CPython makes of it is A-CPY-TEXT, checked by the bounded runs of standin/s_tv.py against the target semantics).
; Expressions PX, statements PS (one constructor per YPCode class).  The definitions are given by cases as axioms triggered
; on the defined term (no recursive unfolding over symbolic trees by the solvers).
; ---------------------------------------------------------------------------------------------
(declare-datatypes ((EV 0)) (((EVStr (evs String)) (EVBool (evb Bool)))))          ; payload of YPCodeExpr: a str or a bool
(declare-datatypes ((PX 0) (PXL 0)) (
  ((XVar (xvname String)) (XVal (xvtext String)) (XExpr (xe EV)) (XList (xlitems PXL)) (XCall (xcfun String) (xcargs PXL)))
  ((pxnil) (pxcons (pxhd PX) (pxtl PXL)))))
(declare-datatypes ((PS 0) (PSL 0)) (
  ((PYieldF) (PYieldT) (PReturn) (PAssign (pal PX) (parhs PX)) (PIf (pic PX) (pit PSL) (pif PSL)) (PFor (pfe PX) (pfc PSL))
   (PBlock (pblabel String) (pbbody PSL)) (PBreak (pbklabel String)))
  ((psnil) (pscons (pshd PS) (pstl PSL)))))
(declare-datatypes ((PF 0)) (((mkPF (pfname String) (pfargs (Seq String)) (pfbody PSL)))))   ; YPCodeFunction
(declare-fun reprtext (EV) String)            ; repr(value): a Python literal denoting the value (A-CPY-REPR)
(assert (= (reprtext (EVBool false)) "False")) (assert (= (reprtext (EVBool true)) "True"))
(declare-fun decint (String) String)          ; str(int(text)) of a NUMERAL token (A-PY-STR)
; n blanks
(declare-fun sp (Int) String)
(assert (= (sp 0) ""))
(assert (forall ((n Int)) (! (=> (> n 0) (= (sp n) (str.++ " " (sp (- n 1))))) :pattern ((sp n)))))
(define-fun ind ((tw Int) (i Int)) String (sp (* tw i)))
; ---- expressions
(declare-fun rexpr (PX) String) (declare-fun joinc (PXL) String)
(assert (forall ((x PX)) (! (=> ((_ is XVar) x) (= (rexpr x) (xvname x))) :pattern ((rexpr x)))))
(assert (forall ((x PX)) (! (=> ((_ is XVal) x) (= (rexpr x) (decint (xvtext x)))) :pattern ((rexpr x)))))
(assert (forall ((x PX)) (! (=> ((_ is XExpr) x) (= (rexpr x) (reprtext (xe x)))) :pattern ((rexpr x)))))
(assert (forall ((x PX)) (! (=> ((_ is XList) x) (= (rexpr x) (str.++ "[" (joinc (xlitems x)) "]"))) :pattern ((rexpr x)))))
(assert (forall ((x PX)) (! (=> ((_ is XCall) x) (= (rexpr x) (str.++ (xcfun x) "(" (joinc (xcargs x)) ")"))) :pattern ((rexpr x)))))
; ",".join of the rendered elements
(assert (= (joinc pxnil) ""))
(assert (forall ((l PXL)) (! (=> ((_ is pxcons) l) (= (joinc l) (ite ((_ is pxnil) (pxtl l)) (rexpr (pxhd l)) (str.++ (rexpr (pxhd l)) "," (joinc (pxtl l))))))
                             :pattern ((joinc l)))))
; ",".join of a list of names
(declare-fun joinnames ((Seq String) Int) String)       ; of the first k names
(assert (forall ((s (Seq String)) (k Int)) (! (= (joinnames s k) (ite (<= k 0) "" (ite (= k 1) (seq.nth s 0)
                                                    (str.++ (joinnames s (- k 1)) "," (seq.nth s (- k 1)))))) :pattern ((joinnames s k)))))
; ---- statements: rstmt s tw i lv = the lines of statement s at indentation level i inside lv enclosing goal loops
(declare-fun rstmt (PS Int Int Int) String) (declare-fun rlist (PSL Int Int Int) String)
(define-fun breakcode ((tw Int) (i Int)) String (str.++ (ind tw i) "if doBreak:" "\u{a}" (ind tw (+ i 1)) "break"))
(assert (forall ((s PS) (tw Int) (i Int) (lv Int)) (! (=> ((_ is PYieldF) s) (= (rstmt s tw i lv) (str.++ (ind tw i) "yield False"))) :pattern ((rstmt s tw i lv)))))
(assert (forall ((s PS) (tw Int) (i Int) (lv Int)) (! (=> ((_ is PYieldT) s) (= (rstmt s tw i lv) (str.++ (ind tw i) "yield True"))) :pattern ((rstmt s tw i lv)))))
(assert (forall ((s PS) (tw Int) (i Int) (lv Int)) (! (=> ((_ is PReturn) s) (= (rstmt s tw i lv) (str.++ (ind tw i) "return"))) :pattern ((rstmt s tw i lv)))))
(assert (forall ((s PS) (tw Int) (i Int) (lv Int)) (! (=> ((_ is PAssign) s) (= (rstmt s tw i lv) (str.++ (ind tw i) (rexpr (pal s)) " = " (rexpr (parhs s)))))
                                                      :pattern ((rstmt s tw i lv)))))
(assert (forall ((s PS) (tw Int) (i Int) (lv Int)) (! (=> ((_ is PBreak) s) (= (rstmt s tw i lv)
    (str.++ (ind tw i) (pbklabel s) " = True" "\u{a}" (ind tw i) "doBreak = True" "\u{a}" (ind tw i) "break"))) :pattern ((rstmt s tw i lv)))))
; a goal loop: for l<lv+1> in <call>: body (or pass); then the doBreak check
(assert (forall ((s PS) (tw Int) (i Int) (lv Int)) (! (=> ((_ is PFor) s) (= (rstmt s tw i lv)
    (str.++ (ind tw i) "for l" (str.from_int (+ lv 1)) " in " (rexpr (pfe s)) ":" "\u{a}"
            (ite ((_ is psnil) (pfc s)) (str.++ (ind tw (+ i 1)) "pass") (rlist (pfc s) tw (+ i 1) (+ lv 1))) "\u{a}" (breakcode tw i))))
                                                      :pattern ((rstmt s tw i lv)))))
; if: the branches are rendered at the level of the if itself and then prefixed once more (only their first line)
(assert (forall ((s PS) (tw Int) (i Int) (lv Int)) (! (=> ((_ is PIf) s) (= (rstmt s tw i lv)
    (str.++ (ind tw i) "if " (rexpr (pic s)) ":" "\u{a}" (ind tw (+ i 1)) (rlist (pit s) tw i lv)
            (ite (= (rlist (pif s) tw i lv) "") "" (str.++ "\u{a}" (ind tw i) "else:" "\u{a}" (ind tw (+ i 1)) (rlist (pif s) tw i lv))))))
                                                      :pattern ((rstmt s tw i lv)))))
; breakable block: label = False; for _ in [1]: body; if label: doBreak = False; doBreak check
(assert (forall ((s PS) (tw Int) (i Int) (lv Int)) (! (=> ((_ is PBlock) s) (= (rstmt s tw i lv)
    (str.++ (ind tw i) (pblabel s) " = False" "\u{a}"
            (ite ((_ is psnil) (pbbody s)) "" (str.++ (ind tw i) "for _ in [1]:" "\u{a}" (rlist (pbbody s) tw (+ i 1) lv) "\u{a}"))
            (ind tw i) "if " (pblabel s) ":" "\u{a}" (ind tw (+ i 1)) "doBreak = False" "\u{a}" (breakcode tw i))))
                                                      :pattern ((rstmt s tw i lv)))))
; "\n".join of the rendered statements
(assert (forall ((tw Int) (i Int) (lv Int)) (! (= (rlist psnil tw i lv) "") :pattern ((rlist psnil tw i lv)))))
(assert (forall ((l PSL) (tw Int) (i Int) (lv Int)) (! (=> ((_ is pscons) l) (= (rlist l tw i lv)
    (ite ((_ is psnil) (pstl l)) (rstmt (pshd l) tw i lv) (str.++ (rstmt (pshd l) tw i lv) "\u{a}" (rlist (pstl l) tw i lv)))))
                                                      :pattern ((rlist l tw i lv)))))
; a function: def name_<arity>(args): doBreak = False; for _ in [1]: body (or pass); if False: yield False
(define-fun rfunc ((f PF) (tw Int) (i Int) (lv Int)) String
  (str.++ (ind tw i) "def " (pfname f) "_" (str.from_int (seq.len (pfargs f))) "(" (joinnames (pfargs f) (seq.len (pfargs f))) "):" "\u{a}"
          (ind tw (+ i 1)) "doBreak = False" "\u{a}" (ind tw (+ i 1)) "for _ in [1]:" "\u{a}"
          (ite (= (rlist (pfbody f) tw (+ i 2) lv) "") (str.++ (ind tw (+ i 2)) "pass") (rlist (pfbody f) tw (+ i 2) lv)) "\u{a}"
          (rstmt (PIf (XExpr (EVBool false)) (pscons PYieldF psnil) psnil) tw (+ i 1) lv)))
; a program: every function followed by an empty line, joined by line breaks (first k functions)
(declare-fun rprog ((Seq PF) Int Int Int Int) String)
(assert (forall ((fs (Seq PF)) (k Int) (tw Int) (i Int) (lv Int)) (! (= (rprog fs k tw i lv)
    (ite (<= k 0) "" (ite (= k 1) (str.++ (rfunc (seq.nth fs 0) tw i lv) "\u{a}")
         (str.++ (rprog fs (- k 1) tw i lv) "\u{a}" (rfunc (seq.nth fs (- k 1)) tw i lv) "\u{a}")))) :pattern ((rprog fs k tw i lv)))))
