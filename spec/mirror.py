"""Executable mirror of spec/terms.smt2 (DESIGN 3): the same definitions as Python functions.

Used by (a) the bounded check of assumption A-MGU against an independent naive oracle,
(b) the contract-directed bounded search on the real functions (refutation), (c) replay.
Agreement with the SMT prelude is checked on ground inputs on every run (specsync).

Terms:  ('atom', name) | ('var', id) | ('const', value) | ('fun', name, (args...))
Store:  dict id -> term (absent = Unbound)
"""


def is_var(t):
    return t[0] == 'var'


def resolve(t, s):
    if t[0] == 'var':
        if t[1] in s:
            return resolve(s[t[1]], s)
        return t
    if t[0] == 'fun':
        return ('fun', t[1], tuple(resolve(a, s) for a in t[2]))
    return t


def walk(t, s):
    while t[0] == 'var' and t[1] in s:
        t = s[t[1]]
    return t


FAIL = None


class Cyclic(Exception):
    """the unifier would need a cyclic term: unspecified by C02 (no occurs check)"""


def _occurs_resolved(v, t):
    if t[0] == 'var':
        return t[1] == v
    if t[0] == 'fun':
        return any(_occurs_resolved(v, a) for a in t[2])
    return False


def su(a, b, s):
    return sud(resolve(a, s), resolve(b, s), s)


def sud(a, b, s):
    if a[0] == 'const':
        if b[0] == 'const':
            return s if a == b else FAIL
        return sum_(b, a, s)
    return sum_(a, b, s)


def sum_(a, b, s):
    if a[0] == 'var':
        if a[1] in s:
            return su(a, b, s)
        rb = resolve(b, s)
        if rb == a:
            return s
        if _occurs_resolved(a[1], rb):
            raise Cyclic()
        s2 = dict(s)
        s2[a[1]] = rb
        return s2
    rb = resolve(b, s)
    if a[0] == 'atom':
        if rb[0] == 'atom':
            return s if a[1] == rb[1] else FAIL
        if rb[0] == 'var':
            return sum_(rb, a, s)
        return FAIL
    if a[0] == 'fun':
        if rb[0] == 'fun':
            if a[1] == rb[1] and len(a[2]) == len(rb[2]):
                return sulk(a[2], rb[2], 0, s)
            return FAIL
        if rb[0] == 'var':
            return sum_(rb, a, s)
        return FAIL
    return FAIL


def sulk(x, y, k, s):
    while k < len(x):
        s = su(x[k], y[k], s)
        if s is FAIL:
            return FAIL
        k += 1
    return s


def sua(x, y, s):
    if len(x) != len(y):
        return FAIL
    return sulk(x, y, 0, s)


# ---------------------------------------------------------------------------------------------
# Independent naive oracle for A-MGU: unifiability and most-generality decided without `su`.
def vars_of(t, acc=None):
    acc = acc if acc is not None else []
    if t[0] == 'var':
        if t[1] not in acc:
            acc.append(t[1])
    elif t[0] == 'fun':
        for a in t[2]:
            vars_of(a, acc)
    return acc


def occurs(v, t, s):
    t = walk(t, s)
    if t[0] == 'var':
        return t[1] == v
    if t[0] == 'fun':
        return any(occurs(v, a, s) for a in t[2])
    return False


def naive_unify(a, b, s):
    """Martelli-Montanari on an equation list, with occurs check; returns store or None, or
    'CYCLIC' when the only solutions need a cyclic term (unspecified by C02)."""
    s = dict(s)
    eqs = [(a, b)]
    while eqs:
        x, y = eqs.pop()
        x, y = walk(x, s), walk(y, s)
        if x == y:
            continue
        if x[0] == 'var':
            if occurs(x[1], y, s):
                return 'CYCLIC'
            s[x[1]] = y
        elif y[0] == 'var':
            if occurs(y[1], x, s):
                return 'CYCLIC'
            s[y[1]] = x
        elif x[0] == 'fun' and y[0] == 'fun':
            if x[1] != y[1] or len(x[2]) != len(y[2]):
                return None
            eqs.extend(zip(x[2], y[2]))
        else:
            return None
    return s


def acyclic(s):
    def chk(t, seen):
        if t[0] == 'var':
            if t[1] in seen:
                return False
            if t[1] in s:
                return chk(s[t[1]], seen | {t[1]})
            return True
        if t[0] == 'fun':
            return all(chk(a, seen) for a in t[2])
        return True
    return all(chk(('var', v), frozenset()) for v in s)


def to_smt(t):
    if t[0] == 'atom':
        return '(TAtom "%s")' % t[1]
    if t[0] == 'var':
        return '(TVar %d)' % t[1]
    if t[0] == 'const':
        return '(TConst %d)' % t[1]
    return '(TFun "%s" %s)' % (t[1], list_to_smt(t[2]))


def list_to_smt(ts):
    out = 'nil'
    for t in reversed(ts):
        out = '(cons %s %s)' % (to_smt(t), out)
    return out


def store_to_smt(s):
    out = '((as const (Array Int Bnd)) Unbound)'
    for v in sorted(s):
        out = '(store %s %d (Bound %s))' % (out, v, to_smt(s[v]))
    return out


def enum_terms(size, atoms=('a', 'b'), funs=(('f', 1), ('g', 2)), nvars=3, consts=(1,)):
    """all terms with at most `size` nodes"""
    by = {1: [('atom', a) for a in atoms] + [('var', i) for i in range(nvars)] + [('const', c) for c in consts]}
    for n in range(2, size + 1):
        cur = []
        for name, ar in funs:
            if ar == 1:
                for t in by.get(n - 1, []):
                    cur.append(('fun', name, (t,)))
            else:
                for i in range(1, n - 1):
                    for t1 in by.get(i, []):
                        for t2 in by.get(n - 1 - i, []):
                            cur.append(('fun', name, (t1, t2)))
        by[n] = cur
    out = []
    for n in range(1, size + 1):
        out.extend(by[n])
    return out
