; ---------------------------------------------------------------------------------------------
; Heap model of the engine (DESIGN 2.4, 3.3): fact database, fresh copies, answer traces
; ---------------------------------------------------------------------------------------------
(declare-datatypes ((Key 0)) (((mkKey (kname String) (karity Int)))))
(define-sort FSeq () (Seq Int))          ; a clause list: sequence of Answer references
(define-sort Heap () (Array Int FSeq))   ; list reference -> contents

; the facts of a key: empty when the key is absent (reference -1)
(define-fun dbseq ((ps (Array Key Int)) (ls Heap) (k Key)) FSeq
  (ite (>= (select ps k) 0) (select ls (select ps k)) (as seq.empty FSeq)))

; remove every occurrence of reference x (the comprehension [c for c in l if c is not x])
(define-fun-rec sremove ((l FSeq) (x Int)) FSeq
  (ite (= (seq.len l) 0) (as seq.empty FSeq)
       (ite (= (seq.nth l 0) x)
            (sremove (seq.extract l 1 (- (seq.len l) 1)) x)
            (seq.++ (seq.unit (seq.nth l 0)) (sremove (seq.extract l 1 (- (seq.len l) 1)) x)))))

(define-fun-rec tappend ((a TList) (b TList)) TList
  (ite ((_ is nil) a) b (cons (hd a) (tappend (tl a) b))))

; every variable id occurring in a term is >= b
(define-funs-rec ((varsge ((t Term) (b Int)) Bool) (varsgel ((l TList) (b Int)) Bool))
 ((ite ((_ is TVar) t) (>= (vid t) b) (ite ((_ is TFun) t) (varsgel (fargs t) b) true))
  (ite ((_ is nil) l) true (and (varsge (hd l) b) (varsgel (tl l) b)))))
(define-fun mapok ((m (Array Int Int)) (b Int)) Bool
  (forall ((k Int)) (! (=> (>= (select m k) 0) (>= (select m k) b)) :pattern ((select m k)))))
; ---- fresh copies of terms (C13): resolve, then replace every unbound variable through the
;      mapping m (variable id -> new id, -1 = not yet mapped), allocating new ids from n upwards
(declare-datatypes ((RnT 0) (RnL 0)) (
  ((mkRnT (rt Term) (rtm (Array Int Int)) (rtn Int)))
  ((mkRnL (rl TList) (rlm (Array Int Int)) (rln Int)))))
(define-funs-rec (
  (rnt ((t Term) (m (Array Int Int)) (n Int) (s Store)) RnT)
  (rnl ((l TList) (m (Array Int Int)) (n Int) (s Store)) RnL))
 ((ite ((_ is TVar) (resolve t s))
       (ite (>= (select m (vid (resolve t s))) 0)
            (mkRnT (TVar (select m (vid (resolve t s)))) m n)
            (mkRnT (TVar n) (store m (vid (resolve t s)) n) (+ n 1)))
  (ite ((_ is TFun) (resolve t s))
       (mkRnT (TFun (fname (resolve t s)) (rl (rnl (fargs (resolve t s)) m n s)))
              (rlm (rnl (fargs (resolve t s)) m n s))
              (rln (rnl (fargs (resolve t s)) m n s)))
       (mkRnT (resolve t s) m n)))
  (ite ((_ is nil) l)
       (mkRnL nil m n)
       (mkRnL (cons (rt (rnt (hd l) m n s)) (rl (rnl (tl l) (rtm (rnt (hd l) m n s)) (rtn (rnt (hd l) m n s)) s)))
              (rlm (rnl (tl l) (rtm (rnt (hd l) m n s)) (rtn (rnt (hd l) m n s)) s))
              (rln (rnl (tl l) (rtm (rnt (hd l) m n s)) (rtn (rnt (hd l) m n s)) s))))))
; L-RN-MONO (proved by induction in vf/lemmas.py): fresh copies allocate variable ids upwards
(assert (forall ((t Term) (m (Array Int Int)) (n Int) (s Store)) (! (>= (rtn (rnt t m n s)) n) :pattern ((rnt t m n s)))))
(assert (forall ((l TList) (m (Array Int Int)) (n Int) (s Store)) (! (>= (rln (rnl l m n s)) n) :pattern ((rnl l m n s)))))
(define-fun emptymap () (Array Int Int) ((as const (Array Int Int)) (- 1)))
; copy_terms(values) under store s with allocation counter n
(define-fun fresh_copy ((l TList) (n Int) (s Store)) TList (rl (rnl l emptymap n s)))
(define-fun fresh_next ((l TList) (n Int) (s Store)) Int (rln (rnl l emptymap n s)))

; ---- answer specifications of nondeterministic iterators (what a handle enumerates)
(declare-datatypes ((Ans 0)) ((
  (ANone)
  (ADyn (dargs TList) (dlist Int))                 ; facts of the clause list `dlist` matching dargs
  (AFun (ffn Int) (fargsl TList))                   ; the registered/compiled function ffn applied to the arguments
  (AQuery (qname String) (qargs TList))             ; YP.query(name, args)
  (ACall (cgoal Term) (cextra TList))               ; YP.call(goal, *extra)
  (ASemidet (sres SRes))                            ; a semidet iterator of the unify family
  (AOther (oid Int)))))
(declare-fun h_ans (Int) Ans)

; function values: methods of this engine and module-level functions, as abstract ids
(declare-fun fn_method (String) Int)
(declare-fun fn_builtin_eq () Int) (declare-fun fn_unify () Int) (declare-fun fn_get_value () Int) (declare-fun fn_to_python () Int)
(assert (forall ((s String)) (! (>= (fn_method s) 0) :pattern ((fn_method s)))))
(assert (>= fn_builtin_eq 0)) (assert (>= fn_unify 0))

; whether a stored fact matches an argument list: unify with a fresh copy of the fact (C13: per-use renaming)
(declare-fun amatch (TList TList Int Store) SRes)
(assert (forall ((args TList) (vals TList) (nv Int) (s Store))
  (! (= (amatch args vals nv s) (sua args (fresh_copy vals nv s) s)) :pattern ((amatch args vals nv s)))))

; ghost fields of handles returned by Answer.match: which fact, which arguments
(declare-fun h_mfact (Int) Int)
(declare-fun h_margs (Int) TList)

; A-RN-INV (assumed, bounded-checked on the mirror): whether a fact matches does not depend on which
; fresh variable ids the per-use copy gets.  `matches` is the id-independent notion the contracts use.
(declare-fun matches (TList TList Store) Bool)
(assert (forall ((args TList) (vals TList) (nv Int) (s Store))
  (! (= ((_ is SOk) (amatch args vals nv s)) (matches args vals s)) :pattern ((amatch args vals nv s)))))

; the facts among the first k of sequence q that do NOT match args (index form, for retractall's loop)
(define-fun-rec sfilter ((q FSeq) (k Int) (args TList) (av (Array Int TList)) (s Store)) FSeq
  (ite (<= k 0) (as seq.empty FSeq)
       (ite (matches args (select av (seq.nth q (- k 1))) s)
            (sfilter q (- k 1) args av s)
            (seq.++ (sfilter q (- k 1) args av s) (seq.unit (seq.nth q (- k 1)))))))

; database key of a callable term (resolved)
(define-fun callable ((t Term)) Bool (or ((_ is TAtom) t) ((_ is TFun) t)))
(define-fun tkey ((t Term)) Key (ite ((_ is TFun) t) (mkKey (fname t) (len (fargs t))) (mkKey (aname t) 0)))
(define-fun targs ((t Term)) TList (ite ((_ is TFun) t) (fargs t) nil))

; effect of assert_fact(key, values, append) on the heap (C07, C13, C14): a NEW list object is
; published under the key, holding the old facts and one new Answer with a fresh copy of the values;
; no existing list or Answer object is changed (so running enumerations keep their snapshot)
(define-fun asserted ((ps0 (Array Key Int)) (ls0 Heap) (av0 (Array Int TList)) (nr0 Int) (nv0 Int) (pb0 (Array Int Bool))
                      (ps (Array Key Int)) (ls Heap) (av (Array Int TList)) (nr Int) (nv Int) (pb (Array Int Bool))
                      (k Key) (vals TList) (app Bool) (s Store)) Bool
  (let ((r (select ps k)) (old (dbseq ps0 ls0 k)))
  (let ((L (select ls r)) (n0 (seq.len old)))
  (let ((nf (ite app (seq.nth L n0) (seq.nth L 0))))
   (and (>= r nr0) (< r nr) (select pb r) (>= nr nr0) (>= nv nv0)
        (= ps (store ps0 k r))
        (= (seq.len L) (+ n0 1))
        (ite app (= (seq.extract L 0 n0) old) (= (seq.extract L 1 n0) old))
        (>= nf nr0) (< nf nr)
        (= (select av nf) (fresh_copy vals nv0 s))
        (forall ((q Int)) (! (=> (< q nr0) (= (select ls q) (select ls0 q))) :pattern ((select ls q))))
        (forall ((q Int)) (! (=> (< q nr0) (= (select av q) (select av0 q))) :pattern ((select av q))))
        (forall ((q Int)) (! (=> (< q nr0) (= (select pb q) (select pb0 q))) :pattern ((select pb q)))))))))

; makelist: Python list of terms -> Prolog list
(define-fun-rec mklist ((l TList)) Term
  (ite ((_ is nil) l) (TAtom "[]") (TFun "." (cons (hd l) (cons (mklist (tl l)) nil)))))
; number of positional parameters of a function value (inspect.signature, A-EXT-INSPECT)
(declare-fun nparams (Int) Int)
; an opaque Python object (a value produced by user code) may be None: unknown, but the same answer for the same object
(declare-fun any_none (Int) Bool)
(assert (forall ((f Int)) (! (>= (nparams f) 0) :pattern ((nparams f)))))
; recursion depth of the running interpreter (ghost): sys.setrecursionlimit(n) raises iff n <= depth
(declare-fun rdepth () Int)
; L-RN-LEN (proved by induction in vf/lemmas.py): a fresh copy has the length of the original
(assert (forall ((l TList) (m (Array Int Int)) (n Int) (s Store)) (! (= (len (rl (rnl l m n s))) (len l)) :pattern ((rnl l m n s)))))

; L-RN-FRESH (C13; proved by induction in vf/lemmas.py): a fresh copy made with allocation counter n
; contains only variables with id >= n - it shares no variable with anything that existed before
(assert (forall ((l TList) (n Int) (s Store)) (! (varsgel (fresh_copy l n s) n) :pattern ((fresh_copy l n s)))))

; chain_functions(f1, f2): a function value whose answers are those of f1 then those of f2 (None dropped);
; each part is its own generator, so a cut (return) inside f1 ends f1 only (A-EXT-ITERTOOLS)
(declare-fun chainfn (Int Int) Int)
(assert (forall ((a Int) (b Int)) (! (>= (chainfn a b) 0) :pattern ((chainfn a b)))))
