; ---------------------------------------------------------------------------------------------
; Heap model of the engine (DESIGN 2.4, 3.3): fact database, fresh copies, answer traces
; ---------------------------------------------------------------------------------------------
(declare-datatypes ((Key 0)) (((mkKey (kname String) (karity Int)))))
(define-sort FSeq () (Seq Int))          ; a clause list: sequence of Answer references
(define-sort Heap () (Array Int FSeq))   ; list reference -> contents

; the facts of a key: empty when the key is absent (reference -1)
(define-fun dbseq ((ps (Array Key Int)) (ls Heap) (k Key)) FSeq
  (ite (>= (select ps k) 0) (select ls (select ps k)) (as seq.empty FSeq)))

; remove every occurrence of reference x (the comprehension [c for c in l if c is not x])
(define-fun-rec sremove ((l FSeq) (x Int)) FSeq
  (ite (= (seq.len l) 0) (as seq.empty FSeq)
       (ite (= (seq.nth l 0) x)
            (sremove (seq.extract l 1 (- (seq.len l) 1)) x)
            (seq.++ (seq.unit (seq.nth l 0)) (sremove (seq.extract l 1 (- (seq.len l) 1)) x)))))

(define-fun-rec tappend ((a TList) (b TList)) TList
  (ite ((_ is nil) a) b (cons (hd a) (tappend (tl a) b))))

; ---- fresh copies of terms (C13): resolve, then replace every unbound variable through the
;      mapping m (variable id -> new id, -1 = not yet mapped), allocating new ids from n upwards
(declare-datatypes ((RnT 0) (RnL 0)) (
  ((mkRnT (rt Term) (rtm (Array Int Int)) (rtn Int)))
  ((mkRnL (rl TList) (rlm (Array Int Int)) (rln Int)))))
(define-funs-rec (
  (rnt ((t Term) (m (Array Int Int)) (n Int) (s Store)) RnT)
  (rnl ((l TList) (m (Array Int Int)) (n Int) (s Store)) RnL))
 ((ite ((_ is TVar) (resolve t s))
       (ite (>= (select m (vid (resolve t s))) 0)
            (mkRnT (TVar (select m (vid (resolve t s)))) m n)
            (mkRnT (TVar n) (store m (vid (resolve t s)) n) (+ n 1)))
  (ite ((_ is TFun) (resolve t s))
       (mkRnT (TFun (fname (resolve t s)) (rl (rnl (fargs (resolve t s)) m n s)))
              (rlm (rnl (fargs (resolve t s)) m n s))
              (rln (rnl (fargs (resolve t s)) m n s)))
       (mkRnT (resolve t s) m n)))
  (ite ((_ is nil) l)
       (mkRnL nil m n)
       (mkRnL (cons (rt (rnt (hd l) m n s)) (rl (rnl (tl l) (rtm (rnt (hd l) m n s)) (rtn (rnt (hd l) m n s)) s)))
              (rlm (rnl (tl l) (rtm (rnt (hd l) m n s)) (rtn (rnt (hd l) m n s)) s))
              (rln (rnl (tl l) (rtm (rnt (hd l) m n s)) (rtn (rnt (hd l) m n s)) s))))))
(define-fun emptymap () (Array Int Int) ((as const (Array Int Int)) (- 1)))
; copy_terms(values) under store s with allocation counter n
(define-fun fresh_copy ((l TList) (n Int) (s Store)) TList (rl (rnl l emptymap n s)))
(define-fun fresh_next ((l TList) (n Int) (s Store)) Int (rln (rnl l emptymap n s)))

; ---- answer specifications of nondeterministic iterators (what a handle enumerates)
(declare-datatypes ((Ans 0)) ((
  (ANone)
  (ADyn (dkey Key) (dargs TList) (dlist Int))      ; facts of the clause list `dlist` matching dargs
  (AFun (ffn Int) (fargsl TList))                   ; the registered/compiled function ffn applied to the arguments
  (AQuery (qname String) (qargs TList))             ; YP.query(name, args)
  (ACall (cgoal Term) (cextra TList))               ; YP.call(goal, *extra)
  (ASemidet (sres SRes))                            ; a semidet iterator of the unify family
  (AOther (oid Int)))))
(declare-fun h_ans (Int) Ans)
