; ---------------------------------------------------------------------------------------------
; Lexical classes (C11, C12, C16): token rules of prolog.g4 and Python's lexical categories
; ---------------------------------------------------------------------------------------------
(define-fun UC () RegLan (re.range "A" "Z"))
(define-fun LC () RegLan (re.union (re.range "a" "z") (str.to_re "_")))        ; fragment LCLETTER : [a-z_]
(define-fun DIGIT () RegLan (re.range "0" "9"))
(define-fun CHARACTER () RegLan (re.union LC UC DIGIT))
; VARIABLE: (UCLETTER|'_') CHARACTER*
(define-fun VARIABLE () RegLan (re.++ (re.union UC (str.to_re "_")) (re.* CHARACTER)))
(define-fun NUMERAL () RegLan (re.+ DIGIT))
; Python (ASCII) identifier
(define-fun IDENT () RegLan (re.++ (re.union (re.range "a" "z") UC (str.to_re "_")) (re.* CHARACTER)))
; Python decimal integer literal without leading zeros
(define-fun DECINT () RegLan (re.union (str.to_re "0") (re.++ (re.range "1" "9") (re.* DIGIT))))

; A-STR-INT (assumed, part of A-PY-STR): str(n) of a natural number is a decimal literal without leading zeros
(assert (forall ((n Int)) (! (=> (>= n 0) (str.in_re (str.from_int n) DECINT)) :pattern ((str.from_int n)))))

; unquoteString: the characters of s at positions 1 .. i-1 that are not backslashes (index form)
(define-fun-rec filt ((s String) (i Int)) String
  (ite (<= i 1) ""
       (ite (= (str.at s (- i 1)) "\u{5c}") (filt s (- i 1)) (str.++ (filt s (- i 1)) (str.at s (- i 1))))))
; renaming of reserved variable names (generated from _RESERVED_PYTHON_NAMES of the visitor by vf/props/lexical.py)
;MANGLE
