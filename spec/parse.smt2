; ---------------------------------------------------------------------------------------------
; Parse trees of prolog.g4 (rules term, atom, functor, termlist, termpredicate, simplepredicate, predicateexpression)
; as datatypes - one constructor per grammar alternative - and the AST the visitor must build for them
; (C16 literals, C01 `_`, C06 operators, C12 reserved goal name).  Loaded after control.smt2 (TA, TAL, Body).
; A-EXT-ANTLR: the tree handed to the visitor is a derivation of the grammar; token texts match their lexer rules.
; ---------------------------------------------------------------------------------------------
(declare-datatypes ((TT 0) (TTL 0)) (
  ((TTAtom (ttatext String))                            ; atom: ATOM
   (TTNum (ttntext String))                             ; atom: NUMERAL
   (TTStr (ttstext String))                             ; atom: STRING  (text including the quotes)
   (TTFun (ttfa TT) (ttfargs TTL))                      ; functor: atom '(' termlist ')'
   (TTSlash (ttsa String) (ttsn String))                ; ATOM '/' NUMERAL            (not supported by the visitor)
   (TTVar (ttv String))                                 ; VARIABLE
   (TTUn (ttuop String) (ttu1 TT))                      ; UNOP term
   (TTBin (ttbop String) (ttb1 TT) (ttb2 TT))           ; term BINOP term | BINOP '(' term ',' term ')'
   (TTParen (ttp TT))                                   ; '(' term ')'
   (TTList (ttitems TTL))                               ; LBRACK termlist RBRACK
   (TTPairs (ttph TT) (ttphas Bool) (ttprest TTL) (ttptail String)))   ; LBRACK term (',' termlist)? '|' VARIABLE RBRACK
  ((ttnil) (ttcons (tthd TT) (tttl TTL)))))

(declare-fun ttsrc (TT) String)              ; the source text of a term node (getText()): no function of the AST is determined by it
(declare-fun isvartok (String) Bool)      ; the text matches the VARIABLE token rule   (concretely: spec/strings.smt2 VARIABLE)
(declare-fun isstrtok (String) Bool)      ; the text matches the STRING token rule (quoted, length >= 2)
(declare-fun mangle (String) String)      ; renaming of reserved variable names        (concretely: spec/strings.smt2 mangle)
(declare-fun unq (String) String)         ; text of a quoted atom                      (concretely: filt s (len s - 1))
(define-fun atomkind ((t TT)) Bool (or ((_ is TTAtom) t) ((_ is TTNum) t) ((_ is TTStr) t)))

; Well-formedness (A-EXT-ANTLR: what every tree produced by the parser satisfies) and support, given by their one-step
; consequences only - the verification needs nothing else, and uninterpreted predicates with selector-triggered axioms keep the
; solvers from unfolding a recursive predicate over a symbolic tree.
;   well-formed: functor names are atoms of the grammar, token texts match their rules, the optional termlist of a list-pair
;                pattern is empty when absent
;   supported:   everything but `name/arity` terms and compound terms whose functor is a numeral (the visitor builds no usable
;                AST for those; compilation ends in an AttributeError - a rejection, observed by the bounded runs)
(declare-fun ttwf (TT) Bool) (declare-fun ttwfl (TTL) Bool) (declare-fun ttsup (TT) Bool) (declare-fun ttsupl (TTL) Bool)
(assert (forall ((t TT)) (! (=> (and ((_ is TTStr) t) (ttwf t)) (isstrtok (ttstext t))) :pattern ((ttstext t)))))
(assert (forall ((t TT)) (! (=> (and ((_ is TTVar) t) (ttwf t)) (isvartok (ttv t))) :pattern ((ttv t)))))
(assert (forall ((t TT)) (! (=> (and ((_ is TTFun) t) (ttwf t)) (and (atomkind (ttfa t)) (ttwf (ttfa t)))) :pattern ((ttfa t)))))
(assert (forall ((t TT)) (! (=> (and ((_ is TTFun) t) (ttwf t)) (ttwfl (ttfargs t))) :pattern ((ttfargs t)))))
(assert (forall ((t TT)) (! (=> (and ((_ is TTUn) t) (ttwf t)) (ttwf (ttu1 t))) :pattern ((ttu1 t)))))
(assert (forall ((t TT)) (! (=> (and ((_ is TTBin) t) (ttwf t)) (ttwf (ttb1 t))) :pattern ((ttb1 t)))))
(assert (forall ((t TT)) (! (=> (and ((_ is TTBin) t) (ttwf t)) (ttwf (ttb2 t))) :pattern ((ttb2 t)))))
(assert (forall ((t TT)) (! (=> (and ((_ is TTParen) t) (ttwf t)) (ttwf (ttp t))) :pattern ((ttp t)))))
(assert (forall ((t TT)) (! (=> (and ((_ is TTList) t) (ttwf t)) (ttwfl (ttitems t))) :pattern ((ttitems t)))))
(assert (forall ((t TT)) (! (=> (and ((_ is TTPairs) t) (ttwf t)) (ttwf (ttph t))) :pattern ((ttph t)))))
(assert (forall ((t TT)) (! (=> (and ((_ is TTPairs) t) (ttwf t)) (and (ttwfl (ttprest t)) (=> (not (ttphas t)) ((_ is ttnil) (ttprest t)))))
                            :pattern ((ttprest t)))))
(assert (forall ((t TT)) (! (=> (and ((_ is TTPairs) t) (ttwf t)) (isvartok (ttptail t))) :pattern ((ttptail t)))))
(assert (forall ((l TTL)) (! (=> (and ((_ is ttcons) l) (ttwfl l)) (ttwf (tthd l))) :pattern ((tthd l)))))
(assert (forall ((l TTL)) (! (=> (and ((_ is ttcons) l) (ttwfl l)) (ttwfl (tttl l))) :pattern ((tttl l)))))
(assert (forall ((t TT)) (! (=> (ttsup t) (not ((_ is TTSlash) t))) :pattern ((ttsup t)))))
(assert (forall ((t TT)) (! (=> (and ((_ is TTFun) t) (ttsup t)) (not ((_ is TTNum) (ttfa t)))) :pattern ((ttfa t)))))
(assert (forall ((t TT)) (! (=> (and ((_ is TTFun) t) (ttsup t)) (ttsupl (ttfargs t))) :pattern ((ttfargs t)))))
(assert (forall ((t TT)) (! (=> (and ((_ is TTUn) t) (ttsup t)) (ttsup (ttu1 t))) :pattern ((ttu1 t)))))
(assert (forall ((t TT)) (! (=> (and ((_ is TTBin) t) (ttsup t)) (ttsup (ttb1 t))) :pattern ((ttb1 t)))))
(assert (forall ((t TT)) (! (=> (and ((_ is TTBin) t) (ttsup t)) (ttsup (ttb2 t))) :pattern ((ttb2 t)))))
(assert (forall ((t TT)) (! (=> (and ((_ is TTParen) t) (ttsup t)) (ttsup (ttp t))) :pattern ((ttp t)))))
(assert (forall ((t TT)) (! (=> (and ((_ is TTList) t) (ttsup t)) (ttsupl (ttitems t))) :pattern ((ttitems t)))))
(assert (forall ((t TT)) (! (=> (and ((_ is TTPairs) t) (ttsup t)) (ttsup (ttph t))) :pattern ((ttph t)))))
(assert (forall ((t TT)) (! (=> (and ((_ is TTPairs) t) (ttsup t)) (ttsupl (ttprest t))) :pattern ((ttprest t)))))
(assert (forall ((l TTL)) (! (=> (and ((_ is ttcons) l) (ttsupl l)) (ttsup (tthd l))) :pattern ((tthd l)))))
(assert (forall ((l TTL)) (! (=> (and ((_ is ttcons) l) (ttsupl l)) (ttsupl (tttl l))) :pattern ((tttl l)))))

; number of anonymous variables `_` in a term, left to right
(define-fun vcnt ((v String)) Int (ite (= v "_") 1 0))
(define-funs-rec ((tcnt ((t TT)) Int) (tcntl ((l TTL)) Int)) (
  (ite ((_ is TTFun) t) (tcntl (ttfargs t))
  (ite ((_ is TTVar) t) (vcnt (ttv t))
  (ite ((_ is TTUn) t) (tcnt (ttu1 t))
  (ite ((_ is TTBin) t) (+ (tcnt (ttb1 t)) (tcnt (ttb2 t)))
  (ite ((_ is TTParen) t) (tcnt (ttp t))
  (ite ((_ is TTList) t) (tcntl (ttitems t))
  (ite ((_ is TTPairs) t) (+ (tcnt (ttph t)) (tcntl (ttprest t)) (vcnt (ttptail t)))
       0)))))))
  (ite ((_ is ttnil) l) 0 (+ (tcnt (tthd l)) (tcntl (tttl l))))))
(assert (forall ((t TT)) (! (>= (tcnt t) 0) :pattern ((tcnt t)))))          ; L-TCNT-NONNEG (by induction, vf/lemmas.py)
(assert (forall ((l TTL)) (! (>= (tcntl l) 0) :pattern ((tcntl l)))))

; a variable occurrence: `_` is the n+1-st anonymous variable of the compilation unit, named x<n+1> (x.. is not a
; VARIABLE token, so it is distinct from every source variable and, by the numbering, from every other `_`);
; any other name is kept up to the renaming of reserved names
(define-fun varast ((v String) (n Int)) TA (ite (= v "_") (TAVar (str.++ "x" (str.from_int (+ n 1)))) (TAVar (mangle v))))
(define-fun atomtext ((t TT)) String (ite ((_ is TTAtom) t) (ttatext t) (ite ((_ is TTStr) t) (unq (ttstext t)) (ttntext t))))
; [t1,...,tk|V]
(define-fun-rec pairs ((l TAL) (v TA)) TA (ite ((_ is tanil) l) v (TAPair (tahd l) (pairs (tatl l) v))))

; the term AST a parse tree denotes, n = number of anonymous variables seen before it
(define-funs-rec ((tast ((t TT) (n Int)) TA) (tastl ((l TTL) (n Int)) TAL)) (
  (ite ((_ is TTAtom) t) (TAAtom (ttatext t))
  (ite ((_ is TTNum) t) (TANum (ttntext t))
  (ite ((_ is TTStr) t) (TAAtom (unq (ttstext t)))
  (ite ((_ is TTFun) t) (TAFun (atomtext (ttfa t)) (tastl (ttfargs t) n))
  (ite ((_ is TTVar) t) (varast (ttv t) n)
  (ite ((_ is TTUn) t) (TAFun (ttuop t) (tacons (tast (ttu1 t) n) tanil))
  (ite ((_ is TTBin) t) (TAFun (ttbop t) (tacons (tast (ttb1 t) n) (tacons (tast (ttb2 t) (+ n (tcnt (ttb1 t)))) tanil)))
  (ite ((_ is TTParen) t) (tast (ttp t) n)
  (ite ((_ is TTList) t) (TAListT (tastl (ttitems t) n))
  (ite ((_ is TTPairs) t) (pairs (tacons (tast (ttph t) n) (tastl (ttprest t) (+ n (tcnt (ttph t)))))
                                 (varast (ttptail t) (+ n (tcnt (ttph t)) (tcntl (ttprest t)))))
       (TAAtom "<name/arity>")))))))))))
  (ite ((_ is ttnil) l) tanil (tacons (tast (tthd l) n) (tastl (tttl l) (+ n (tcnt (tthd l))))))))

; ---- goals and bodies -------------------------------------------------------------------------
(declare-datatypes ((SP 0)) (((SPTrue) (SPFail) (SPCut) (SPTerm (sptt TT)))))   ; TRUE | FAIL | CUT | termpredicate
(declare-fun cutlbl (TA) Int)
; an atom used as a goal is the functor of arity 0
(define-fun functorof ((t TA)) TA (ite ((_ is TAAtom) t) (TAFun (taval t) tanil) t))
; how compile_body reads Predicate(t): by the functor NAME alone, '$CUTIF' is the compiler's internal break marker
(define-fun predof ((t TA)) Body (ite (= (tafname t) "$CUTIF") (BCutIf (cutlbl t)) (BPred (predid t))))
; what the property demands: a source goal is always an ordinary goal (never the internal marker), whatever its arity
(define-fun spbody ((s SP) (n Int)) Body
  (ite ((_ is SPTrue) s) BTrue (ite ((_ is SPFail) s) BFail (ite ((_ is SPCut) s) BCut
       (BPred (predid (functorof (tast (sptt s) n))))))))
(define-fun spcnt ((s SP)) Int (ite ((_ is SPTerm) s) (tcnt (sptt s)) 0))
(define-fun spwf ((s SP)) Bool (=> ((_ is SPTerm) s) (and (ttwf (sptt s)) (ttsup (sptt s)))))
(declare-datatypes ((PE 0)) ((
  (PESimple (pesp SP))                       ; simplepredicate
  (PENeg (pen PE))                           ; op='\+' predicateexpression
  (PEBin (peop String) (pel PE) (per PE))    ; predicateexpression op=(','|'->'|';') predicateexpression
  (PEParen (pep PE)))))                      ; '(' predicateexpression ')'
; the grammar only has the three binary operators; the simple predicates are well-formed and supported (one-step consequences)
(declare-fun wfpe (PE) Bool)
(assert (forall ((p PE)) (! (=> (and ((_ is PESimple) p) (wfpe p)) (spwf (pesp p))) :pattern ((pesp p)))))
(assert (forall ((p PE)) (! (=> (and ((_ is PENeg) p) (wfpe p)) (wfpe (pen p))) :pattern ((pen p)))))
(assert (forall ((p PE)) (! (=> (and ((_ is PEParen) p) (wfpe p)) (wfpe (pep p))) :pattern ((pep p)))))
(assert (forall ((p PE)) (! (=> (and ((_ is PEBin) p) (wfpe p)) (or (= (peop p) ",") (= (peop p) "->") (= (peop p) ";"))) :pattern ((peop p)))))
(assert (forall ((p PE)) (! (=> (and ((_ is PEBin) p) (wfpe p)) (wfpe (pel p))) :pattern ((pel p)))))
(assert (forall ((p PE)) (! (=> (and ((_ is PEBin) p) (wfpe p)) (wfpe (per p))) :pattern ((per p)))))
(define-fun-rec pecnt ((p PE)) Int
  (ite ((_ is PESimple) p) (spcnt (pesp p))
  (ite ((_ is PENeg) p) (pecnt (pen p))
  (ite ((_ is PEParen) p) (pecnt (pep p))
       (+ (pecnt (pel p)) (pecnt (per p)))))))
(assert (forall ((p PE)) (! (>= (pecnt p) 0) :pattern ((pecnt p)))))        ; L-PECNT-NONNEG (by induction)
; ',' is conjunction, '->' if-then, ';' disjunction, '\+' negation, parentheses are transparent
(define-fun-rec pebody ((p PE) (n Int)) Body
  (ite ((_ is PESimple) p) (spbody (pesp p) n)
  (ite ((_ is PENeg) p) (BNeg (pebody (pen p) n))
  (ite ((_ is PEParen) p) (pebody (pep p) n)
  (ite (= (peop p) ",") (BConj (pebody (pel p) n) (pebody (per p) (+ n (pecnt (pel p)))))
  (ite (= (peop p) "->") (BIfThen (pebody (pel p) n) (pebody (per p) (+ n (pecnt (pel p)))))
       (BDisj (pebody (pel p) n) (pebody (per p) (+ n (pecnt (pel p)))))))))))

; ---- clauses ----------------------------------------------------------------------------------
(declare-datatypes ((CL 0)) (((CLFact (clhead SP)) (CLRule (clrhead SP) (clbody PE)))))   ; head '.'  |  head ':-' body '.'
(define-fun clhd ((c CL)) SP (ite ((_ is CLRule) c) (clrhead c) (clhead c)))
; Python (ASCII) identifier - same definition as spec/strings.smt2
(define-fun IDENT () RegLan (re.++ (re.union (re.range "a" "z") (re.range "A" "Z") (str.to_re "_"))
                                   (re.* (re.union (re.range "a" "z") (re.range "A" "Z") (re.range "0" "9") (str.to_re "_")))))
(define-fun clwf ((c CL)) Bool (and (spwf (clhd c)) (=> ((_ is CLRule) c) (wfpe (clbody c)))))
(define-fun clbodyof ((c CL) (n Int)) Body (ite ((_ is CLRule) c) (pebody (clbody c) (+ n (spcnt (clhd c)))) BTrue))
(define-fun clcnt ((c CL)) Int (+ (spcnt (clhd c)) (ite ((_ is CLRule) c) (pecnt (clbody c)) 0)))

; ---- programs (C01 clause order, C11 exactly the program's predicates) ------------------------
(declare-datatypes ((CD 0)) (((CDClause (cdcl CL)) (CDDir (cddir SP)))))       ; clauseordirective: clause | ':-' simplepredicate '.'
(declare-datatypes ((CA 0)) (((mkCA (cahead Body) (cabody Body)))))            ; Clause(head, body)
(define-fun cdcnt ((d CD)) Int (ite ((_ is CDClause) d) (clcnt (cdcl d)) (spcnt (cddir d))))
(define-fun cdwf ((d CD)) Bool (ite ((_ is CDClause) d) (clwf (cdcl d)) (spwf (cddir d))))
(define-fun caof ((c CL) (n Int)) CA (mkCA (spbody (clhd c) n) (clbodyof c n)))
; the dictionary key of a clause: name and number of arguments of its head
(define-fun cakey ((a CA)) PK (mkPK (tafname (predta (pid (cahead a)))) (talen (tafargs (predta (pid (cahead a)))))))
; number of `_` seen before item k (directives are visited too)
(define-fun-rec pgavc ((p (Seq CD)) (k Int) (n Int)) Int
  (ite (<= k 0) n (+ (pgavc p (- k 1) n) (cdcnt (seq.nth p (- k 1))))))
; the clause AST of item j
(define-fun pgca ((p (Seq CD)) (j Int) (n Int)) CA (caof (cdcl (seq.nth p j)) (pgavc p j n)))
; the program dictionary after the first k items: keys in first-occurrence order, and per key the clauses with that key
; in source order (the definition a predicate's clause order rests on)
(define-fun-rec pgkeys ((p (Seq CD)) (k Int) (n Int)) (Seq PK)
  (ite (<= k 0) (as seq.empty (Seq PK))
       (ite (and ((_ is CDClause) (seq.nth p (- k 1))) (not (seq.contains (pgkeys p (- k 1) n) (seq.unit (cakey (pgca p (- k 1) n))))))
            (seq.++ (pgkeys p (- k 1) n) (seq.unit (cakey (pgca p (- k 1) n))))
            (pgkeys p (- k 1) n))))
(define-fun-rec pgvals ((p (Seq CD)) (k Int) (n Int)) (Array PK (Seq CA))
  (ite (<= k 0) ((as const (Array PK (Seq CA))) (as seq.empty (Seq CA)))
       (ite ((_ is CDClause) (seq.nth p (- k 1)))
            (store (pgvals p (- k 1) n) (cakey (pgca p (- k 1) n))
                   (seq.++ (select (pgvals p (- k 1) n) (cakey (pgca p (- k 1) n))) (seq.unit (pgca p (- k 1) n))))
            (pgvals p (- k 1) n))))
; "no key occurs twice", as the inductive predicate generated by: the empty sequence; s ++ [x] when x does not occur in s
(declare-fun nodup ((Seq PK)) Bool)
(assert (nodup (as seq.empty (Seq PK))))
(assert (forall ((s (Seq PK)) (x PK)) (! (=> (and (nodup s) (not (seq.contains s (seq.unit x)))) (nodup (seq.++ s (seq.unit x))))
                                         :pattern ((nodup (seq.++ s (seq.unit x)))))))
