"""Solver portfolio: one process per obligation, z3-new -> cvc5 -> z3 (4.8.12).

An obligation is an SMT-LIB script whose last command is (check-sat); it is *discharged* when a
solver answers `unsat`.  `sat` answers are kept with their model, `unknown`/timeouts are kept as
such and never mapped to anything else.
"""
import hashlib
import os
import subprocess
import tempfile
import time
from concurrent.futures import ThreadPoolExecutor

WORK = os.environ.get('VF_WORK', '/tmp/vf-work-%d' % os.getuid())

SOLVERS = [
    ('z3-new', lambda f, t: ['z3-new', '-T:%d' % t, f]),
    ('cvc5', lambda f, t: ['cvc5', '--tlimit=%d' % (t * 1000), '--strings-exp', f]),
    ('z3-4.8', lambda f, t: ['/usr/bin/z3', '-T:%d' % t, f]),
]


def _cvc5_text(text):
    # cvc5 1.0.3 rejects the symbol `exit`-style reserved words only; our generator avoids them.
    return text


def run_one(name, text, timeout=10, want_model=False, solvers=None, prefer=None):
    os.makedirs(WORK, exist_ok=True)
    h = hashlib.sha1((name + text).encode()).hexdigest()[:16]
    path = os.path.join(WORK, 'ob_%s.smt2' % h)
    with open(path, 'w') as f:
        f.write(text)
    tried = []
    total = 0.0
    verdict, by, out = 'unknown', None, ''
    order = sorted(SOLVERS, key=lambda x: 0 if x[0] == prefer else 1) if prefer else SOLVERS
    for sname, mk in order:
        if solvers and sname not in solvers:
            continue
        t0 = time.time()
        try:
            p = subprocess.run(mk(path, timeout), capture_output=True, text=True, timeout=timeout + 5)
            o = (p.stdout or '') + (p.stderr or '')
        except subprocess.TimeoutExpired:
            o = 'timeout'
        dt = time.time() - t0
        total += dt
        first = o.strip().split('\n')[0].strip() if o.strip() else ''
        tried.append((sname, first[:40], round(dt, 3)))
        if first == 'unsat':
            verdict, by, out = 'unsat', sname, o
            break
        if first == 'sat':
            verdict, by, out = 'sat', sname, o
            break
        if 'error' in o and verdict == 'unknown':
            out = o
    try:
        os.unlink(path)
    except OSError:
        pass
    return dict(name=name, verdict=verdict, solver=by, seconds=round(total, 3), tried=tried,
                output=out[:4000])


_PREFER = None


def preferred():
    """solver that discharged each obligation when the baseline was recorded (tried first: stable and fast)"""
    global _PREFER
    if _PREFER is None:
        _PREFER = {}
        try:
            import json
            base = json.load(open(os.path.join(os.path.dirname(os.path.dirname(os.path.abspath(__file__))), 'baseline_obligations.json')))
            for fn in base.values():
                for n, v in fn.get('solver', {}).items():
                    _PREFER[n] = v
        except (OSError, ValueError):
            pass
    return _PREFER


def run_many(obls, timeout=10, jobs=None, solvers=None):
    """obls: list of (name, smt_text). Returns list of result dicts in the same order."""
    jobs = jobs or min(16, os.cpu_count() or 4)
    pref = preferred()
    with ThreadPoolExecutor(max_workers=jobs) as ex:
        futs = [ex.submit(run_one, n, t, timeout, False, solvers, pref.get(n)) for n, t in obls]
        return [f.result() for f in futs]


def get_model(text, timeout=10):
    """Re-run a sat obligation asking for a model (z3-new)."""
    os.makedirs(WORK, exist_ok=True)
    fd, path = tempfile.mkstemp(suffix='.smt2', dir=WORK)
    with os.fdopen(fd, 'w') as f:
        f.write(text + '\n(get-model)\n')
    try:
        p = subprocess.run(['z3-new', '-T:%d' % timeout, path], capture_output=True, text=True,
                           timeout=timeout + 5)
        return p.stdout
    except subprocess.TimeoutExpired:
        return 'timeout'
    finally:
        os.unlink(path)
