"""C16 - source literals and Python values denote the same terms."""
from .. import framework as fw
from . import lexical, enginep
from .common import A

LEVEL = 'proof'


def run(rep):
    lexical.visitor_deductive(rep)
    from . import control
    control.clause_deductive(rep, targets=['yp_generator.YPPrologCompiler.compile_expression', 'yp_generator.YPPrologCompiler.compile_list'])
    enginep.engine_deductive(rep, ['engine.Atom.unify', 'engine.unify', 'engine.Functor.unify', 'engine.get_value'] + enginep.CTOR_API, heap_lemmas=False)
    control.parse_deductive(rep)
    # equal atom names are one atom object per engine: YP.atom against the atom table itself
    enginep.atom_table_deductive(rep)
    enginep.file_loader_obligation(rep)       # a compiled script read back from a file is the text that was written (utf8)
    # the text that is lexed is the caller's bytes decoded as utf8, whichever entry point (string, file, command line) is used
    from . import compilerp
    compilerp.io_obligations(rep)
    # ... and whichever debug options are on: debug text (which prints atoms unquoted, possibly with line breaks) stays inside comment lines
    compilerp.debug_noninterference_obligations(rep)
    enginep.topython_deductive(rep)
    q = rep.tier == 'quick'
    fw.standin(rep, 's_c16.py', ['run', rep.seed, 1000 if q else 8000],
               'random literals (Unicode, quotes, newlines, nesting, list shapes) in fact/head/body/query position: to_python vs independent '
               'rendering; API-built terms unify with compiled literals; interning; cross-engine unification; distinct _',
               'literal terms depth <= 4')
    fw.standin(rep, 'recog.py', ['run', 'tree', rep.seed + 5, 4000 if q else 30000],
               'terms and clause bodies read by the real parser+visitor vs the independent reader', 'grammar-derived programs')
    rep.assumptions += [A['A-EXT-ANTLR'], A['A-CPY-REPR'], A['A-EXT-REDUCE'], A['A-PY-STR']]
    rep.notes.append('unquoteString is verified with a loop invariant (result = the text between the quotes with every backslash removed); every `_` '
                     'gets a new name x<counter+1> (visitVARIABLE); atoms unify by name (Atom.unify, C02) so they unify across engines; compile_expression/'
                     'compile_list emit cexpr(term) and L-LITERAL (induction) shows that these constructor calls build exactly the term the literal '
                     'denotes (tsem: atoms by name, integers, compound terms, [..] = nested ./2 ending in [], [H|T] = ./2); the token -> AST mapping '
                     'of visitTerm/visitAtom is decided by the bounded stand-in; to_python is verified against topy (atoms to names, [] to the empty list, constants to themselves, proper lists to Python lists, other compound terms to (name, args), unbound variables to None)')
