"""C08 - call resolution: facts first, exact arity, load order, late binding."""
import os
from .. import framework as fw
from . import enginep

LEVEL = 'proof'


def run(rep):
    enginep.unify_deductive(rep)      # facts are matched by unification: the unify family against su (C02's contracts)
    enginep.engine_deductive(rep, ['engine.YP.query', 'engine.YP.register_function', 'engine.YP._set_builtin_predicates', 'engine.YP.load_script_from_string',
                                   'engine.YP.match_dynamic', 'engine.YP._match_all_clauses', 'engine.YP.assert_fact', 'engine.YP._clauses',
                                   'engine.YP._update_predicate'], heap_lemmas=False)
    enginep.file_loader_obligation(rep)
    keys = fw.smt.run_many(key_obligations(), timeout=20)
    fw.add_smt(rep, keys, 'spec.key-naming', 'string')
    q = rep.tier == 'quick'
    fw.standin(rep, 's_init.py', ['run'], 'ground check (no inputs): initial evaluation context, blacklist, builtin registrations, clear()',
               'single configuration, complete')
    if os.path.exists(os.path.join(fw.VERIF, 'standin', 's_c08.py')):
        fw.standin(rep, 's_c08.py', ['run', rep.seed, 1500 if q else 8000],
                   'histories of register (inferred/explicit/variadic), load (overwrite on/off, failing), assert, clear vs list-of-definitions model',
                   'histories of length 2..7 over 2-3 names x arities 0..2; probe queries after every step')
    rep.notes.append('query: answers = facts of name/len(args) read when the query starts, then (unless the name is an API name) the '
                     'function under key name_<n>, else name_n, looked up when the facts are exhausted; register_function writes exactly '
                     'that one key; load_script_from_string: forall keys: new value = executed context value if overwrite, chain(old,new) '
                     'otherwise, untouched if equal or absent; unchanged engine if compile/exec raises; key strings: name_<n> is injective '
                     'and never equals a variadic key (SMT strings). chain_functions and exec are assumed (A-EXT-ITERTOOLS, A-EXT-EXEC)')
    rep.assumptions += ['A-EXT-EXEC: exec(code, ctx) changes the engine only through API functions reachable from ctx',
                        'A-EXT-ITERTOOLS: chain_functions(f1,f2)(*args) yields the answers of f1 then of f2, each in its own generator']


def key_obligations():
    """key(name, n) = name ++ "_" ++ str(n); variadic key = name ++ "_n".  (i) for names without '_'-digit tails the key determines
    (name, n): stated for the general case as: equal keys with equal arity text imply equal names; and a fixed-arity key never
    equals the variadic key of the same name; (ii) str.from_int is injective on naturals (SMT theory fact, re-checked)."""
    pre = '(set-logic ALL)\n(declare-const a String) (declare-const b String) (declare-const n Int) (declare-const m Int)\n'
    obl = []
    obl.append(('spec.key.same_arity_same_name', pre + '(assert (>= n 0))\n(assert (= (str.++ a "_" (str.from_int n)) (str.++ b "_" (str.from_int n))))\n(assert (not (= a b)))\n(check-sat)'))
    obl.append(('spec.key.fixed_is_not_variadic', pre + '(assert (>= n 0))\n(assert (= (str.++ a "_" (str.from_int n)) (str.++ a "_n")))\n(check-sat)'))
    obl.append(('spec.key.same_name_same_arity', pre + '(assert (>= n 0)) (assert (>= m 0))\n(assert (= (str.++ a "_" (str.from_int n)) (str.++ a "_" (str.from_int m))))\n(assert (not (= n m)))\n(check-sat)'))
    return obl
