"""C01 - compiled clauses compute exactly Prolog's answers, in order."""
from .. import framework as fw
from . import control

LEVEL = 'translation_validation'


def run(rep):
    control.body_deductive(rep)
    control.clause_deductive(rep)
    # distinct source variables stay distinct Python variables, every `_` gets its own (visitVARIABLE contract)
    from . import lexical
    lexical.visitor_deductive(rep, targets=('yp_prolog_visitor.YPPrologVisitor.visitVARIABLE', 'yp_prolog_visitor.YPPrologVisitor.unquoteString'))
    # the run-time half of the pipeline: C01 rests on unification (C02), dereferencing (C15), finalisation (C03) and call
    # resolution (C08); their contracts on the functions every compiled clause goes through are part of this check
    from .common import UNIFY_FAMILY
    from . import enginep, syntactic
    fw.deductive(rep, UNIFY_FAMILY, ['engine_terms'], ['terms.smt2'], timeout=25 if rep.tier == 'quick' else 60)
    enginep.engine_deductive(rep, ['engine.YP.query', 'engine.YP.match_dynamic', 'engine.YP._match_all_clauses', 'engine.Answer.match'] + enginep.CTOR_API, heap_lemmas=False)
    control.parse_deductive(rep)
    control.text_deductive(rep)
    control.program_deductive(rep)
    control.astvars_deductive(rep)
    syntactic.no_direct_cell_writes(rep)
    q = rep.tier == 'quick'
    fw.standin(rep, 'difftest.py', ['run', 'F1', rep.seed, 6000 if q else 40000],
               'translation validation: whole programs (facts, rules, lists, recursion) vs reference SLD interpreter',
               'random layered and recursive programs, queries with unbound/partial/ground arguments')
    if not q:
        fw.standin(rep, 'difftest.py', ['run', 'F1', rep.seed, 0, '--exhaustive'], 'exhaustive head-pattern x query-pattern family',
                   'all head patterns x query patterns of the F1 enumerator', timeout=1800)
    fw.standin(rep, 's_tv.py', ['run', rep.seed, 8000 if q else 80000],
               'A-CPY-TEXT: YPCode trees rendered by the real generator and executed by CPython vs the target semantics <<.>> (calls, answers, yields in order)',
               'all code lists of <=2 statements of depth <=1 + random trees of depth <=4 over goals with 0/1/2 answers, nested blocks')
    fw.standin(rep, 's_ctl.py', ['run', rep.seed, 2000 if q else 12000],
               'control constructs in clauses with plain distinct head variables (no enclosing loop), nested in conditions and under negation',
               'systematic nested-condition trees + random F2 trees')
    rep.notes.append('deductive part: compile_body (conjunction nesting = left-to-right depth-first search); head arguments: exactly the '
                     'once-occurring plain variables are aliased to argN (find_clause_head_variable_arguments against cnt), one alias assignment '
                     'each in position order, the other positions are unified left to right with position 1 outermost and the body innermost '
                     '(compile_arg_list_unification against wrap), terms become cexpr(term); compile_function_body emits the aliases, then exactly one '
                     'declaration per further head variable and per further body variable (first-occurrence order, sdedupe/sminus), then the head '
                     'unifications around code whose meaning is the body\'s. The `variables` properties of the AST, the meaning of aliasing (L-ALIAS), '
                     'compile_program and the emitted text are covered by the bounded stand-ins')
