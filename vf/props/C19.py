"""C19 - the yldpc command line equals the library; debug options only add comments."""
import os
from .. import framework as fw
from . import compilerp
from .common import A

LEVEL = 'proof'


def run(rep):
    compilerp.debug_noninterference_obligations(rep)
    compilerp.strict_parsing_obligations(rep)
    q = rep.tier == 'quick'
    if os.path.exists(os.path.join(fw.VERIF, 'standin', 's_c19.py')):
        fw.standin(rep, 's_c19.py', ['run', rep.seed, 400 if q else 3000],
                   'CLI vs library: programs (incl. embedded newlines, non-ASCII) x flag combinations x stdout/-o x file/stdin x several sources; failing inputs',
                   'sampled flag combinations, all 16 covered overall')
    rep.assumptions += [A['A-EXT-CLICK'], A['A-EXT-ANTLR'], 'str.splitlines() returns pieces without line terminators (A-PY-STR)']
    rep.notes.append('the debug flags are read only in the guards of the two _debug methods (whose guarded statement writes "# "+line+"\\n" per '
                     'line of the message), in the visitor constructor and in the header choice of generate() (both alternatives are comment '
                     'text); debug message arguments and __str__ methods are effect-free; the tracing wrapper returns the wrapped result; main '
                     'and the library functions share _compile_prolog_from_stream and decode as UTF-8; CompilerError becomes ClickException')
