"""C06 - disjunction, if-then-else and negation follow standard semantics."""
from .. import framework as fw
from . import control

LEVEL = 'proof'


def run(rep):
    control.body_deductive(rep)
    control.parse_deductive(rep, control.PARSE_BODY)
    control.text_deductive(rep)
    control.astvars_deductive(rep)
    q = rep.tier == 'quick'
    fw.standin(rep, 'difftest.py', ['run', 'F2', rep.seed + 1, 6000 if q else 40000, '--max-depth', 4],
               'translation validation: compiled ;/->/\\+ bodies vs reference interpreter',
               'random body trees depth<=4')
    fw.standin(rep, 'recog.py', ['run', 'tree', rep.seed, 8000 if q else 40000],
               'precedence/associativity: real ANTLR parse + visitor vs independent reader of prolog.g4',
               'grammar-derived and corrupted programs; operator trees of every clause body compared')
    fw.standin(rep, 's_tv.py', ['run', rep.seed, 8000 if q else 80000],
               'A-CPY-TEXT: YPCode trees rendered by the real generator and executed by CPython vs the target semantics <<.>> (calls, answers, yields in order)',
               'all code lists of <=2 statements of depth <=1 + random trees of depth <=4 over goals with 0/1/2 answers, nested blocks')
    fw.standin(rep, 's_ctl.py', ['run', rep.seed, 2000 if q else 12000],
               'control constructs in clauses with plain distinct head variables (no enclosing loop), nested in conditions and under negation',
               'systematic nested-condition trees + random F2 trees')
    rep.notes.append('the visitor mapping and the ANTLR precedence are bounded-checked against the independent reader (A-EXT-ANTLR)')
