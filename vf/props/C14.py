"""C14 - changing a predicate while it is being enumerated (logical update view)."""
from .. import framework as fw
from . import enginep

LEVEL = 'proof'


def run(rep):
    enginep.unify_deductive(rep)      # facts are matched by unification: the unify family against su (C02's contracts)
    enginep.engine_deductive(rep, enginep.DB_FUNS)
    q = rep.tier == 'quick'
    own = [r for r in rep.obligations if '.ownership.' in r['name']]
    fw.standin(rep, 's_dbx.py', ['run', rep.seed, 6000 if q else 24000],
               'systematic small-scope database histories: repeated-variable and all-unbound patterns, non-ground facts, retract resumed after other operations',
               'e/2 over {a,b}: 5 databases x 7 patterns x {retract, plain enumeration} suspended x 26 inner operations + random histories')
    rep.notes.append('%d ownership obligations (every in-place list mutation in the database functions targets an unpublished list); '
                     'with the rely condition this gives: an enumeration iterates the list object it read at its start, whose contents '
                     'never change (obligation yield.ok3/loop invariant of _match_all_clauses); retract removes a fact only if it is '
                     'still in the current list and publishes current minus that fact (yield.ok5-ok9)' % len(own))
    q = rep.tier == 'quick'
    fw.standin(rep, 'difftest.py', ['run', 'F4', rep.seed + 7, 6000 if q else 40000],
               'interleaved modification during enumeration (drain loops, counter update loops, assert during own enumeration)',
               'random F4 programs and API histories incl. modification during suspended enumerations')
