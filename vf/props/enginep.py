"""Shared by the engine properties: deductive run over engine.py with the heap theory."""
from .. import framework as fw
from .. import lemmas
from ..pyvc.theory_engine import EngineTheory
from .common import A, UNIFY_FAMILY

DB_FUNS = ['engine.YP._clauses', 'engine.YP._find_predicates', 'engine.YP._update_predicate', 'engine.YP.assert_fact',
           'engine.YP.asserta', 'engine.YP.assertz', 'engine.YP.retract', 'engine.YP.retractall',
           'engine.YP.match_dynamic', 'engine.YP._match_all_clauses']
COPY_FUNS = ['engine._copy_term', 'engine.copy_terms', 'engine.Answer.match']
BUILTIN_REG = ['engine.YP._set_builtin_predicates', 'engine.YP.register_function']
META_FUNS = ['engine.YP.call', 'engine.YP.once', 'engine.YP.findall', 'engine.YP.builtin_neq', 'engine.builtin_eq'] + BUILTIN_REG
CTOR_API = ['engine.YP.' + f for f in ('functor', 'functor1', 'functor2', 'functor3', 'listpair', 'variable', 'makelist')]
RESOLVE_FUNS = ['engine.YP.query', 'engine.YP.register_function']
ITER_CLASSES = ['engine.YPSuccess.__init__', 'engine.YPSuccess.__next__', 'engine.YPSuccess.close', 'engine.YPFail.__next__', 'engine.YPFail.close']
GEN_FUNS = ['engine.YP.query', 'engine.YP.call', 'engine.YP.once', 'engine.YP.findall', 'engine.YP.builtin_neq',
            'engine.YP.retract', 'engine.YP._match_all_clauses']


def engine_deductive(rep, targets, heap_lemmas=True, term_lemmas=False):
    fw.deductive(rep, targets, ['engine_heap'], ['terms.smt2', 'heap.smt2'], theory=EngineTheory)
    # A-PY-CLASSES as obligations: the classes of engine.py define no special method that changes what ==, in, object creation,
    # attribute access ... mean in the verification conditions, and no function is replaced by a decorator
    from . import syntactic
    syntactic.no_operator_overloading(rep, 'engine')
    if heap_lemmas:
        fw.add_smt(rep, lemmas.prove_heap_lemmas(), 'spec.heap-lemmas')
        rep.lemmas.append('L-RN-MONO, L-RN-LEN, L-RN-FRESH (fresh copies allocate upwards, keep the length, contain only new '
                          'variables): proved by induction over the definitions of rnt/rnl (SMT)')
    if term_lemmas or True:
        fw.add_smt(rep, lemmas.prove_frame(), 'spec.L-SU-FRAME')
        rep.lemmas.append('L-SU-FRAME, L-LEN-NONNEG: proved by induction over the spec definitions (SMT)')
    rep.assumptions += [A['A-PY-ATTR'], A['A-PY-CLASSES'], A['A-PY-GEN'], A['A-REFCOUNT'], A['A-PY-EXC'], A['A-PY-DICTORDER'],
                        A['TERMINATION'], A['MATH-INT'],
                        'A-RN-INV: whether a stored fact matches does not depend on the fresh variable ids of the per-use copy '
                        '(axiom `matches`, spec/heap.smt2; bounded-checked by the differential runs)',
                        'A-FRESH: Variable() returns an object distinct from every existing one, unbound',
                        'assumed contracts (not verified): chain_functions (closure over itertools.chain); YP.atom is used as the pure function name -> TAtom(name) '
                        '(verified against the atom table under C04/C16; object identity of atoms is not modelled: atoms are compared by name), '
                        'A-EXT-REDUCE (functools.reduce over reversed(l) is the right fold: makelist is verified relative to it), '
                        'inspect.signature, sys.get/setrecursionlimit (raises iff the limit is not above the current depth)',
                        'rely at every yield: the consumer changes the database only through the engine API, whose functions '
                        'never change a published list or an Answer object in place (that is itself proved for every mutation '
                        'site: obligations ownership.*)']
    rep.trusted += [A['SOLVERS'], 'spec/terms.smt2 + spec/heap.smt2 (heap model, asserted/sfilter/sremove/fresh_copy specifications)',
                    'meta-lemma (paper, DESIGN 5/C03): a generator that never writes a variable cell itself, owns its iterators and '
                    'has finalised all of them on every exit restores the binding store']


TOPY_FUNS = ['engine.to_python', 'engine.Atom.to_python', 'engine.Variable.to_python', 'engine.Functor.to_python']


def topython_deductive(rep):
    """to_python family against topy(resolve(t)) on proper lists (C15, C16)"""
    from ..pyvc.theory_pyval import PyvalTheory
    fw.deductive(rep, TOPY_FUNS, ['engine_terms'], ['terms.smt2', 'pyval.smt2'], theory=PyvalTheory)
    fw.add_smt(rep, lemmas.prove_pyval_lemmas(), 'spec.pyval-lemmas')
    rep.lemmas.append('L-RES-RES / L-RES-FIX / L-RESL (resolve returns a resolved term, resolved terms are fixed points, resolvel is pointwise), '
                      'L-WFL-NTH: proved by induction (SMT)')


def atom_table_deductive(rep):
    """YP.atom verified against the atom table itself (contracts/engine_atom.py, AtomStoreTheory) + encapsulation of the table"""
    import ast
    from ..pyvc import core
    from ..pyvc.theory_engine import AtomStoreTheory
    fw.deductive(rep, ['engine.YP.atom'], ['engine_atom'], ['terms.smt2', 'heap.smt2'], theory=AtomStoreTheory)
    # the representation invariant is about a private table: `_atom_store` is named only in __init__ / clear (which install an empty
    # dict display) and in atom; no getattr / __dict__ / vars access to engine objects anywhere in the module
    mod = core.module('engine')
    probs = []
    for q, fn in mod.functions.items():
        for n in core.walk_own(fn):
            if isinstance(n, ast.Attribute) and n.attr == '_atom_store' and not isinstance(n.ctx, ast.Store) and q != 'YP.atom':
                probs.append('%s line %d: %s is used outside atom()' % (q, n.lineno, ast.unparse(n)))
            if isinstance(n, ast.Constant) and n.value == '_atom_store':
                probs.append('%s line %d: the attribute name as a string' % (q, n.lineno))
            if isinstance(n, ast.Attribute) and n.attr == '__dict__':
                probs.append('%s line %d: __dict__' % (q, n.lineno))
            if isinstance(n, (ast.Assign, ast.AugAssign, ast.AnnAssign)):
                tg = n.targets if isinstance(n, ast.Assign) else [n.target]
                if any(isinstance(t, ast.Attribute) and t.attr == '_atom_store' for x in tg for t in ast.walk(x)):
                    v = n.value
                    empty = (isinstance(v, ast.Dict) and not v.keys) or (isinstance(v, ast.Call) and ast.unparse(v) == 'dict()')
                    if not (isinstance(n, ast.Assign) and len(tg) == 1 and ast.unparse(tg[0]) == 'self._atom_store' and empty and q.startswith('YP.')):
                        probs.append('%s line %d: the atom table is set to something else than an empty dict: %s' % (q, n.lineno, ast.unparse(n)[:60]))

    def flat(fn, depth=0):
        """top-level statements of a method with calls `self.m()` of argument-less helper methods of YP expanded in place"""
        out = []
        for s_ in core.strip_doc(fn.body):
            c = s_.value if isinstance(s_, ast.Expr) and isinstance(s_.value, ast.Call) else None
            if c is not None and isinstance(c.func, ast.Attribute) and ast.unparse(c.func.value) == 'self' and not c.args and not c.keywords \
                    and depth < 3 and ('YP.' + c.func.attr) in mod.functions and c.func.attr != 'atom':
                out.extend(flat(mod.functions['YP.' + c.func.attr], depth + 1))
            else:
                out.append(s_)
        return out
    for q in ('YP.__init__', 'YP.clear'):
        fn = mod.functions.get(q)
        installed = False
        for s_ in (flat(fn) if fn else []):
            if any(isinstance(t, ast.Attribute) and t.attr == '_atom_store' and isinstance(t.ctx, ast.Store) for t in ast.walk(s_)):
                installed = True
            elif not installed and any(isinstance(n, ast.Call) and ast.unparse(n.func) == 'self.atom' for n in ast.walk(s_)):
                probs.append('%s makes an atom before the table is installed (line %d)' % (q, s_.lineno))
        if not installed:
            probs.append('%s does not install an empty atom table' % q)
    rep.add_checked('engine.YP._atom_store.encapsulated', not probs, '; '.join(probs), 'ast', function='engine.YP.atom', witness=probs or None)


def unify_deductive(rep):
    """the unification family against su (C02's contracts): every property whose statement says `matches` / `unifies` rests on it"""
    if getattr(rep, '_unify_done', False):
        return
    rep._unify_done = True
    fw.deductive(rep, [t for t in UNIFY_FAMILY if 'get_value' not in t], ['engine_terms'], ['terms.smt2'], timeout=25 if rep.tier == 'quick' else 60)


def file_loader_obligation(rep):
    """load_script_from_file is "the same as load_script_from_string, but from file fn" (its docstring): same default for every
    parameter the two share, and its body hands the text read from open(fn) and its own `overwrite` / `fn` on to load_script_from_string"""
    import ast
    from ..pyvc import core
    mod = core.module('engine')
    f1, f2 = mod.functions.get('YP.load_script_from_file'), mod.functions.get('YP.load_script_from_string')
    probs = []
    if f1 is None or f2 is None:
        probs.append('function not found')
    else:
        def defaults(f):
            a = f.args.args
            return {p.arg: ast.unparse(d) for p, d in zip(a[len(a) - len(f.args.defaults):], f.args.defaults)}
        d1, d2 = defaults(f1), defaults(f2)
        for n in sorted(set(d1) & set(d2)):
            if n != 'fn' and d1[n] != d2[n]:
                probs.append('default of %s is %s, load_script_from_string has %s' % (n, d1[n], d2[n]))
        calls = [n for n in core.walk_own(f1) if isinstance(n, ast.Call) and ast.unparse(n.func) == 'self.load_script_from_string']
        if len(calls) != 1:
            probs.append('does not call load_script_from_string exactly once')
        else:
            c = calls[0]
            names2 = [p.arg for p in f2.args.args][1:]
            given = dict(zip(names2, c.args))
            given.update({k.arg: k.value for k in c.keywords if k.arg})
            if 'overwrite' not in given or not (isinstance(given['overwrite'], ast.Name) and given['overwrite'].id == 'overwrite'):
                probs.append('its overwrite parameter is not handed on')
            if any(isinstance(n, ast.Name) and n.id == 'overwrite' and isinstance(n.ctx, ast.Store) for n in core.walk_own(f1)):
                probs.append('overwrite is reassigned')
            txt = given.get(names2[0])
            if txt is None or not (isinstance(txt, ast.Call) and isinstance(txt.func, ast.Attribute) and txt.func.attr == 'read' and not txt.args):
                probs.append('the script text is not <file>.read()')
            opens = [n for n in core.walk_own(f1) if isinstance(n, ast.Call) and ast.unparse(n.func) == 'open']
            if len(opens) != 1 or not opens[0].args or ast.unparse(opens[0].args[0]) != f1.args.args[1].arg:
                probs.append('the file opened is not the parameter')
            else:
                # the compiler writes utf8 (C16/C19): a loader that names an encoding names that one
                enc = {k.arg: k.value for k in opens[0].keywords}.get('encoding') or (opens[0].args[3] if len(opens[0].args) > 3 else None)
                if enc is not None and not (isinstance(enc, ast.Constant) and str(enc.value).lower().replace('-', '') in ('utf8', 'utf8sig')):
                    probs.append('the script file is decoded as %s, the compiler writes utf8' % ast.unparse(enc))
    rep.add_checked('engine.YP.load_script_from_file.same_as_from_string', not probs, '; '.join(probs), 'ast',
                    function='engine.YP.load_script_from_file', witness=probs or None)
