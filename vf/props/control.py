"""Shared by C01, C05, C06: compile_body against the control algebra."""
from .. import framework as fw
from .. import lemmas
from ..pyvc.theory_compiler import CompilerTheory
from .common import A

BODY_TARGETS = ['yp_generator.YPPrologCompiler.compile_body', 'yp_generator.YPPrologCompiler.get_cut_if_label']


def body_deductive(rep):
    fw.deductive(rep, BODY_TARGETS, ['generator_body'], ['control.smt2'], theory=CompilerTheory)
    # what the abstract goal loop (SForeach goal code) concretely is: compile_predicate against the emitted query call
    from ..pyvc.theory_clause import ClauseTheory
    fw.deductive(rep, ['yp_generator.YPPrologCompiler.compile_predicate'], ['generator_goal'], ['control.smt2'], theory=ClauseTheory)
    fw.add_smt(rep, lemmas.lean_lemmas(), 'lean.control-algebra', 'lemma')
    rep.lemmas.append('control algebra: 17 lemmas (seq/bind units, absorption, distributivity, associativity, bind_ite, neg_ite, '
                      'ite_block, pure_of_plain, noexit_of_lbl, lblLe_mono, wfb_of_plain, semc_append) proved in Lean 4 in the '
                      'pure model M1 and in the effect-threading model M2 (lean/CtlM1.lean, lean/CtlM2.lean)')
    rep.assumptions += [A['A-CPY-TEXT'], A['A-REFCOUNT'], A['A-PY-ATTR'], A['A-PY-CLASSES'], A['TERMINATION'],
                        'goals called from a body never end with a cut/exit status visible to the caller (a callee generator that '
                        'returns simply ends its for loop): hypothesis henv of the Lean lemmas',
                        'label texts "cutIf"+str(n) are equal iff the counters are (A-PY-STR: str(int) injective)']
    rep.trusted += [A['SOLVERS'], 'Lean 4.33 kernel', 'spec/control.smt2: source semantics semb (from the property statements), target '
                    'semantics semc of YPCode trees, and the hand transcription of the Lean lemma statements into SMT-LIB '
                    '(side by side in lean/THEOREMS.md)']


PARSE_BODY = ['visitPredicateexpression', 'visitSimplepredicate', 'visitTermpredicate']
PARSE_TERM = ['visitTerm', 'visitAtom', 'visitFunctor', 'visitTermlist']
PARSE_CLAUSE = ['visitClause']
PARSE_PROGRAM = ['visitClauseordirective', 'visitProgram']


def parse_deductive(rep, funs=None):
    """visitor: parse tree (one datatype constructor per grammar alternative, spec/parse.smt2) -> clause AST.
    Bodies (C06, C05, C12): ',' conjunction, '->' if-then, ';' disjunction, '\\+' negation, parentheses transparent, a goal is
    never the internal $CUTIF marker.  Terms (C16, C01): every literal form denotes its term, `_` are numbered left to right."""
    from ..pyvc.theory_visitor import ParseTheory
    fw.deductive(rep, ['yp_prolog_visitor.YPPrologVisitor.' + f for f in (funs or PARSE_BODY + PARSE_TERM + PARSE_CLAUSE + PARSE_PROGRAM)],
                 ['visitor_parse'], ['control.smt2', 'parse.smt2'], theory=ParseTheory)
    fw.add_smt(rep, lemmas.prove_parse_lemmas(), 'spec.parse-lemmas')
    rep.lemmas.append('L-TCNT-NONNEG, L-PECNT-NONNEG, L-PG-KEYS-COVER (every clause head key is a dictionary key), L-PG-KEYS-NODUP (no key twice): lemmas of spec/parse.smt2 by induction (SMT)')
    rep.assumptions.append('A-EXT-ANTLR (visitor): the parse tree is a derivation of prolog.g4 (datatypes TT/SP/PE of spec/parse.smt2: one '
                           'constructor per alternative, token texts in their lexer classes); terms of the forms name/arity and '
                           'numeral(...) are outside the contracts (the compiler rejects them with an AttributeError: observed, bounded); '
                           'arguments of exception constructors are not evaluated; visitVARIABLE/unquoteString enter with the abstraction '
                           'of their string-theory contracts (contracts/visitor.py)')


def text_deductive(rep):
    """YPPythonCodeGenerator and the generate methods of the YPCode classes: the emitted text of every tree is its rendering
    (spec/render.smt2); indentation and loop level are restored by every generate_*"""
    from ..pyvc.theory_gen import GenTheory
    from ..pyvc import run as pyrun
    import sys
    sys.path.insert(0, fw.VERIF)
    fw.deductive(rep, sorted(pyrun.load_contracts('generator_text')), ['generator_text'], ['render.smt2'], theory=GenTheory)
    rep.assumptions.append('spec/render.smt2 is the intended text of every YPCode construct (written from the generator\'s templates); that '
                           'CPython gives this text the meaning semc of spec/control.smt2 is A-CPY-TEXT (bounded: standin/s_tv.py); '
                           'repr(str) and str(int(text)) are the uninterpreted reprtext / decint (A-CPY-REPR, A-PY-STR); the header '
                           'emitted by YPPythonCodeGenerator.generate is covered by AST obligations (C19)')


def program_deductive(rep):
    """compile_program / compile_function (C11): exactly one function per dictionary key, in dictionary order, named by the key, with
    parameters arg1..argN"""
    from ..pyvc.theory_clause import ProgramTheory
    fw.deductive(rep, ['yp_generator.YPPrologCompiler.compile_function', 'yp_generator.YPPrologCompiler.compile_program'],
                 ['generator_clause'], ['control.smt2'], theory=ProgramTheory)
    rep.assumptions.append('the clause lists of the program dictionary are consumed lazily (itertools.chain.from_iterable over a generator '
                           'expression) by the code generator: compile_function_body runs then, clause by clause in list order (not modelled; bounded)')


def astvars_deductive(rep):
    """the `variables` properties of the AST classes against spec/astvars.smt2 (every variable of a clause is declared: C01, C06)"""
    from ..pyvc.theory_clause import AstVarsTheory
    from ..pyvc import run as pyrun
    import sys
    sys.path.insert(0, fw.VERIF)
    names = sorted(pyrun.load_contracts('ast_vars'))
    fw.deductive(rep, names, ['ast_vars'], ['control.smt2', 'astvars.smt2'], theory=AstVarsTheory)


CLAUSE_TARGETS = ['yp_generator.YPPrologCompiler.' + f for f in (
    'find_clause_head_variable_arguments', 'compile_clause_head_variable_arguments', 'compile_arg_list_unification',
    'compile_unification', 'compile_expression', 'compile_list', 'compile_variable_declaration', 'get_argument_variable',
    'push_bound_vars', 'pop_bound_vars', 'filter_free_variables', 'get_free_variables', 'compile_free_variable_declarations',
    'compile_function_body', 'nesting_depth')]


def clause_deductive(rep, targets=None, literal_lemma=True):
    """clause heads and term expressions (C01, C16): structural contracts against aliases / wrap / cexpr"""
    from ..pyvc.theory_clause import ClauseTheory
    fw.deductive(rep, targets or CLAUSE_TARGETS, ['generator_clause'], ['control.smt2'], theory=ClauseTheory)
    res = lemmas.prove_clause_lemmas()
    fw.add_smt(rep, [r for r in res if literal_lemma or 'LITERAL' not in r['name']], 'spec.clause-lemmas')
    rep.lemmas.append('L-CNT (occurrence counts), L-HPNAMES (alias names = non-None entries of head_args_by_pos), L-LITERAL (denote(cexpr(t)) = tsem(t): the constructor calls emitted for a source term build '
                      'the term the literal denotes): proved by induction over the spec definitions (SMT)')
