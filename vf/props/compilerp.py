"""Obligations on the compiler side decided on the real AST (frame conditions, determinism, typestate,
provenance).  Every obligation is reported under a stable name `<module>.<function>.<clause>`; a failed one
carries the offending source line as witness."""
import ast
import re

from ..pyvc import core

MODULES = ['engine', 'yp_generator', 'yp_prolog_visitor', 'compiler']
MUTATORS = {'append', 'extend', 'insert', 'pop', 'remove', 'clear', 'sort', 'reverse', 'update', 'setdefault', 'popitem', 'add',
            'discard', '__setitem__', '__delitem__'}


def _is_immutable_const(node):
    if isinstance(node, ast.Constant):
        return True
    if isinstance(node, ast.Tuple):
        return all(_is_immutable_const(e) for e in node.elts)
    if isinstance(node, ast.UnaryOp) and isinstance(node.operand, ast.Constant):
        return True
    if isinstance(node, ast.JoinedStr):
        return True
    if isinstance(node, ast.Call) and ast.unparse(node.func) == 're.compile' and all(_is_immutable_const(a) for a in node.args) \
            and not node.keywords:
        return True         # a compiled pattern has no observable state
    return False


def _locals_of(fn):
    names = {a.arg for a in fn.args.args + fn.args.kwonlyargs}
    if fn.args.vararg:
        names.add(fn.args.vararg.arg)
    if fn.args.kwarg:
        names.add(fn.args.kwarg.arg)
    for n in core.walk_own(fn):
        if isinstance(n, ast.Name) and isinstance(n.ctx, ast.Store):
            names.add(n.id)
        if isinstance(n, (ast.For, ast.comprehension)):
            for t in ast.walk(n.target):
                if isinstance(t, ast.Name):
                    names.add(t.id)
        if isinstance(n, ast.ExceptHandler) and n.name:
            names.add(n.name)
        if isinstance(n, ast.With):
            for it in n.items:
                if it.optional_vars is not None:
                    for t in ast.walk(it.optional_vars):
                        if isinstance(t, ast.Name):
                            names.add(t.id)
    # nested defs/lambdas/comprehension variables
    for n in ast.walk(fn):
        if isinstance(n, ast.comprehension):
            for t in ast.walk(n.target):
                if isinstance(t, ast.Name):
                    names.add(t.id)
        if isinstance(n, (ast.FunctionDef, ast.Lambda)) and n is not fn:
            names.update(a.arg for a in n.args.args)
            if n.args.vararg:
                names.add(n.args.vararg.arg)
            if n.args.kwarg:
                names.add(n.args.kwarg.arg)
            if isinstance(n, ast.FunctionDef):
                names.add(n.name)
    return names


def _path_has_attribute(n):
    """the access path of a store target / receiver goes through an attribute (x.a, x.a[i], x.a.b), not only subscripts of a name"""
    while isinstance(n, (ast.Attribute, ast.Subscript, ast.Call)):
        if isinstance(n, ast.Attribute):
            return True
        n = n.func if isinstance(n, ast.Call) else n.value
    return False


def _fresh_locals(mod, fn, containers=False):
    """locals of fn every assignment of which is a call of a class of the module (an object built here); with containers also
    list / dict / set displays, comprehensions and list() / dict() / set() calls"""
    params = {a.arg for a in fn.args.args + fn.args.kwonlyargs}
    asg = {}
    for n in core.walk_own(fn):
        if isinstance(n, ast.Assign):
            for t in n.targets:
                for x in ast.walk(t):
                    if isinstance(x, ast.Name) and isinstance(x.ctx, ast.Store):
                        asg.setdefault(x.id, []).append(n.value if t is x else None)
        elif isinstance(n, (ast.For, ast.comprehension)):
            for x in ast.walk(n.target):
                if isinstance(x, ast.Name):
                    asg.setdefault(x.id, []).append(None)
        elif isinstance(n, (ast.AugAssign, ast.AnnAssign, ast.NamedExpr)) and isinstance(n.target, ast.Name):
            asg.setdefault(n.target.id, []).append(None)
        elif isinstance(n, ast.withitem) and n.optional_vars is not None:
            for x in ast.walk(n.optional_vars):
                if isinstance(x, ast.Name):
                    asg.setdefault(x.id, []).append(None)
    out = set()
    for nm, vals in asg.items():
        if nm in params:
            continue
        def is_fresh(v):
            if v is None:
                return False
            if isinstance(v, ast.Call) and isinstance(v.func, ast.Name) and v.func.id in mod.classes:
                return True
            if containers and (isinstance(v, (ast.List, ast.Dict, ast.Set, ast.ListComp, ast.DictComp, ast.SetComp))
                               or (isinstance(v, ast.Call) and isinstance(v.func, ast.Name) and v.func.id in ('list', 'dict', 'set', 'sorted'))):
                return True
            return False
        if all(is_fresh(v) for v in vals):
            out.add(nm)
    return out


def _base_name(n):
    while isinstance(n, (ast.Attribute, ast.Subscript, ast.Call)):
        n = n.func if isinstance(n, ast.Call) else n.value
    return n.id if isinstance(n, ast.Name) else None


# calls that change state of the whole process (every engine instance, every later compilation sees it)
PROCESS_WIDE = ('chdir', 'fchdir', 'chroot', 'putenv', 'unsetenv', 'umask', 'seed', 'signal', 'disable', 'enable', 'freeze', 'simplefilter',
                'filterwarnings', 'excepthook', 'stack_size')


def frame_obligations(rep, modules=MODULES):
    """C04/C18: no function writes module-level or class-level state; module and class bodies hold no mutable object."""
    for m in modules:
        mod = core.module(m)
        # module level
        probs = []
        mutable_globals = []
        for s in mod.tree.body:
            if isinstance(s, (ast.Import, ast.ImportFrom, ast.FunctionDef, ast.ClassDef)):
                continue
            if isinstance(s, ast.Expr) and isinstance(s.value, ast.Constant):
                continue
            if isinstance(s, ast.If) and ast.unparse(s.test).startswith('__name__'):
                continue
            if isinstance(s, ast.Assign) and len(s.targets) == 1 and isinstance(s.targets[0], ast.Name):
                nm = s.targets[0].id
                if _is_immutable_const(s.value):
                    continue
                if nm == 'logger':
                    continue
                mutable_globals.append(nm)
                continue
            probs.append('line %d: %s' % (s.lineno, ast.unparse(s)[:60]))
        rep.add_checked('%s.<module>.frame.only_definitions_and_constants' % m, not probs, '; '.join(probs), 'ast', function=m + '.<module>',
                        witness=probs or None)
        # class level
        for cname, cls in mod.classes.items():
            probs = []
            for s in cls.body:
                if isinstance(s, (ast.FunctionDef, ast.Pass)):
                    continue
                if isinstance(s, ast.Expr) and isinstance(s.value, ast.Constant):
                    continue
                if isinstance(s, ast.Assign) and _is_immutable_const(s.value):
                    continue
                probs.append('line %d: %s' % (s.lineno, ast.unparse(s)[:60]))
            rep.add_checked('%s.%s.frame.class_body_immutable' % (m, cname), not probs, '; '.join(probs), 'ast', function='%s.%s' % (m, cname),
                            witness=probs or None)
        # functions
        mutable_defaults = []
        for q, fn in mod.functions.items():
            locs = _locals_of(fn)
            probs = []
            for n in ast.walk(fn):
                if isinstance(n, (ast.Global, ast.Nonlocal)):
                    if isinstance(n, ast.Global):
                        probs.append('line %d: global %s' % (n.lineno, ','.join(n.names)))
                if isinstance(n, (ast.Attribute, ast.Subscript)) and isinstance(n.ctx, (ast.Store, ast.Del)):
                    b = _base_name(n)
                    if b is not None and b not in locs:
                        probs.append('line %d: store through global %s: %s' % (n.lineno, b, ast.unparse(n)[:50]))
                if isinstance(n, ast.Call) and isinstance(n.func, ast.Attribute) and n.func.attr in MUTATORS:
                    b = _base_name(n.func.value)
                    if b is not None and b not in locs and b not in ('self',):
                        probs.append('line %d: mutating call on global %s: %s' % (n.lineno, b, ast.unparse(n)[:50]))
                if isinstance(n, ast.Call) and isinstance(n.func, ast.Attribute) and isinstance(n.func.value, ast.Name) \
                        and n.func.value.id in ('sys', 'os', 'random', 'locale', 'signal', 'gc', 'threading', 'warnings') \
                        and (n.func.attr.startswith('set') or n.func.attr in PROCESS_WIDE):
                    if not (m == 'engine' and q == 'YP.evaluate_bounded'):
                        probs.append('line %d: interpreter-wide setting %s' % (n.lineno, ast.unparse(n)[:50]))
            for d in fn.args.defaults + [x for x in fn.args.kw_defaults if x is not None]:
                if not _is_immutable_const(d) and not (isinstance(d, ast.Name)):
                    mutable_defaults.append((q, fn, d))
            rep.add_checked('%s.%s.frame.writes_only_self_and_locals' % (m, q), not probs, '; '.join(probs), 'ast',
                            function='%s.%s' % (m, q), witness=probs or None)
            if m == 'engine':
                # terms, atoms and answers may be handed from one engine to another by the caller: engine code writes no attribute of
                # an object other than self (binding cells are written by Variable.unify on self) - except objects it has just built
                fresh = _fresh_locals(mod, fn)
                probs = []
                for n in core.walk_own(fn):
                    tgt = None
                    if isinstance(n, (ast.Attribute, ast.Subscript)) and isinstance(n.ctx, (ast.Store, ast.Del)):
                        tgt = n
                    elif isinstance(n, ast.Call) and isinstance(n.func, ast.Attribute) and n.func.attr in MUTATORS:
                        tgt = n.func.value
                    elif isinstance(n, ast.Call) and isinstance(n.func, ast.Name) and n.func.id in ('setattr', 'delattr') and n.args:
                        if not (isinstance(n.args[0], ast.Name) and n.args[0].id in fresh | {'self'}):
                            probs.append('line %d: %s' % (n.lineno, ast.unparse(n)[:60]))
                        continue
                    if tgt is None or not _path_has_attribute(tgt):
                        continue
                    b = _base_name(tgt)
                    if b == 'self' or b in fresh:
                        continue
                    probs.append('line %d: write through an attribute of %s: %s' % (n.lineno, b, ast.unparse(tgt)[:50]))
                rep.add_checked('%s.%s.frame.no_write_to_attribute_of_foreign_object' % (m, q), not probs, '; '.join(probs), 'ast',
                                function='%s.%s' % (m, q), witness=probs or None)
                if not q.split('.')[-1].startswith('_') or q.split('.')[-1].startswith('__'):
                    # the public API does not change the objects it is handed (argument lists, Python lists given to makelist, ...):
                    # a caller may hand the same object to several engines
                    params = {a.arg for a in fn.args.args + fn.args.kwonlyargs} - {'self'}
                    if fn.args.vararg:
                        params.add(fn.args.vararg.arg)
                    rebound = {n.id for n in core.walk_own(fn) if isinstance(n, ast.Name) and isinstance(n.ctx, ast.Store)}
                    probs = []
                    for n in core.walk_own(fn):
                        tgt = None
                        if isinstance(n, ast.Subscript) and isinstance(n.ctx, (ast.Store, ast.Del)):
                            tgt = n.value
                        elif isinstance(n, ast.Call) and isinstance(n.func, ast.Attribute) and n.func.attr in MUTATORS:
                            tgt = n.func.value
                        elif isinstance(n, ast.AugAssign) and isinstance(n.target, ast.Name):
                            # xs += [..] on a parameter extends the caller's list in place
                            if n.target.id in params and n.target.id not in (rebound - {n.target.id}):
                                first_store = min([x.lineno for x in core.walk_own(fn) if isinstance(x, ast.Name) and x.id == n.target.id
                                                   and isinstance(x.ctx, ast.Store) and not isinstance(x, ast.AugAssign)] or [10 ** 9])
                                if first_store >= n.lineno:
                                    probs.append('line %d: %s' % (n.lineno, ast.unparse(n)[:50]))
                            continue
                        if isinstance(tgt, ast.Name) and tgt.id in params and tgt.id not in rebound:
                            probs.append('line %d: changes its argument %s in place: %s' % (n.lineno, tgt.id, ast.unparse(n)[:50]))
                    rep.add_checked('%s.%s.frame.arguments_not_mutated' % (m, q), not probs, '; '.join(probs), 'ast',
                                    function='%s.%s' % (m, q), witness=probs or None)
        # mutable module objects and mutable defaults are never mutated anywhere
        for nm in mutable_globals:
            probs = _mutations_of_name(mod, nm)
            rep.add_checked('%s.%s.frame.module_object_never_mutated' % (m, nm), not probs, '; '.join(probs), 'ast', function=m + '.<module>',
                            witness=probs or None)
        for q, fn, d in mutable_defaults:
            # the default object is stored into self.<attr>: that attribute must never be mutated in place, anywhere
            pos = fn.args.args[len(fn.args.args) - len(fn.args.defaults):]
            pname = pos[fn.args.defaults.index(d)].arg if d in fn.args.defaults else None
            attrs = set()
            for n in core.walk_own(fn):
                if isinstance(n, ast.Assign) and isinstance(n.value, ast.Name) and n.value.id == pname:
                    for t in n.targets:
                        if isinstance(t, ast.Attribute):
                            attrs.add(t.attr)
            probs = []
            for m2 in MODULES:
                for a in attrs | ({pname} if pname else set()):
                    probs.extend(_mutations_of_attr(core.module(m2), a))
            rep.add_checked('%s.%s.frame.mutable_default_%s_never_mutated' % (m, q, pname), not probs, '; '.join(probs), 'ast',
                            function='%s.%s' % (m, q), witness=probs or None)


def _mutations_of_name(mod, nm):
    probs = []
    for q, fn in mod.functions.items():
        if nm in _locals_of(fn):
            continue
        for n in [x for st_ in fn.body for x in ast.walk(st_)]:        # (decorators and defaults are evaluated at definition time)
            # a module-level object that is not a constant (a lock, a cache, a counter, a registry ...) used inside a function is
            # state shared by all calls and all engine instances, whatever is done with it
            if isinstance(n, ast.Name) and n.id == nm and isinstance(n.ctx, ast.Load):
                probs.append('%s line %d: uses the module-level object %s' % (q, n.lineno, nm))
            if isinstance(n, (ast.Attribute, ast.Subscript)) and isinstance(n.ctx, (ast.Store, ast.Del)) and _base_name(n) == nm:
                probs.append('%s line %d' % (q, n.lineno))
            if isinstance(n, ast.Call) and isinstance(n.func, ast.Attribute) and n.func.attr in MUTATORS and _base_name(n.func.value) == nm:
                probs.append('%s line %d' % (q, n.lineno))
    return probs


def _mutations_of_attr(mod, attr):
    probs = []
    for q, fn in mod.functions.items():
        for n in ast.walk(fn):
            if isinstance(n, ast.Subscript) and isinstance(n.ctx, (ast.Store, ast.Del)) and isinstance(n.value, (ast.Attribute, ast.Name)) \
                    and (getattr(n.value, 'attr', None) == attr or getattr(n.value, 'id', None) == attr):
                probs.append('%s.%s line %d' % (mod.name, q, n.lineno))
            if isinstance(n, ast.Call) and isinstance(n.func, ast.Attribute) and n.func.attr in MUTATORS \
                    and isinstance(n.func.value, (ast.Attribute, ast.Name)) \
                    and (getattr(n.func.value, 'attr', None) == attr or getattr(n.func.value, 'id', None) == attr):
                probs.append('%s.%s line %d' % (mod.name, q, n.lineno))
            if isinstance(n, ast.AugAssign) and isinstance(n.target, ast.Attribute) and n.target.attr == attr:
                probs.append('%s.%s line %d' % (mod.name, q, n.lineno))
    return probs


def fresh_state_obligations(rep):
    """C04: per-instance state is created by dict/list displays (fresh objects) in __init__/clear; the script runs in a copy"""
    mod = core.module('engine')
    def fresh(v):
        """an expression that makes a new object (or an immutable one) every time it is evaluated"""
        if isinstance(v, (ast.Dict, ast.List, ast.Set, ast.Constant, ast.Tuple, ast.JoinedStr)):
            return True
        if isinstance(v, ast.Call) and isinstance(v.func, ast.Name) and v.func.id in ('dict', 'list', 'set', 'tuple') and not v.keywords \
                and all(fresh(a) for a in v.args):
            return True
        if isinstance(v, ast.Call) and isinstance(v.func, ast.Attribute) and isinstance(v.func.value, ast.Name) and v.func.value.id == 'self':
            return True         # built by a method of this instance
        if isinstance(v, ast.Call) and isinstance(v.func, ast.Attribute) and isinstance(v.func.value, ast.Attribute) \
                and ast.unparse(v.func.value).startswith('self.') and v.func.attr in ('keys', 'copy', 'items', 'values'):
            return True         # a view / copy of this instance's own state
        if isinstance(v, ast.Call) and isinstance(v.func, ast.Name) and v.func.id in ('dict', 'list', 'set', 'tuple') and len(v.args) == 1 \
                and fresh(v.args[0]):
            return True
        return False
    for q in ('YP.__init__', 'YP.clear', 'YP._set_default_eval_context'):
        fn = mod.functions.get(q)
        probs = []
        params = {a_.arg for a_ in fn.args.args} if fn else set()
        nassign = 0
        for n in core.walk_own(fn) if fn else []:
            if isinstance(n, ast.Assign) and any(isinstance(t, ast.Attribute) and isinstance(t.value, ast.Name) and t.value.id == 'self'
                                                 for t in n.targets):
                nassign += 1
                if not (fresh(n.value) or (isinstance(n.value, ast.Name) and n.value.id in params)):
                    probs.append('line %d: %s is not a fresh object' % (n.lineno, ast.unparse(n)[:60]))
                if isinstance(n.value, ast.Dict) and any(isinstance(k, ast.Constant) and k.value == '__builtins__' for k in n.value.keys):
                    for k, v in zip(n.value.keys, n.value.values):
                        if isinstance(k, ast.Constant) and k.value == '__builtins__':
                            if not ((isinstance(v, ast.Dict) and not v.keys) or (isinstance(v, ast.Call) and ast.unparse(v) == 'dict()')):
                                probs.append('__builtins__ is not the empty dict')
                        # values: bound methods of self, module functions, constants
                        if not (isinstance(v, (ast.Constant, ast.Dict)) or (isinstance(v, ast.Attribute) and isinstance(v.value, ast.Name)
                                                                           and v.value.id == 'self') or isinstance(v, ast.Name)
                                or (isinstance(v, ast.Call) and ast.unparse(v) == 'dict()')):
                            probs.append('context value %s' % ast.unparse(v)[:40])
        if fn is None or (nassign == 0 and q != 'YP.clear'):
            probs.append('%s assigns no instance state' % q)
        rep.add_checked('engine.%s.frame.fresh_per_instance_state' % q, not probs, '; '.join(probs), 'ast', function='engine.' + q,
                        witness=probs or None)
    fn = mod.functions.get('YP.load_script_from_string')
    probs = []
    src = ast.unparse(fn) if fn else ''
    copies = {t.id for a_ in (ast.walk(fn) if fn else []) if isinstance(a_, ast.Assign) and ast.unparse(a_.value) == 'self.eval_context.copy()'
              for t in a_.targets if isinstance(t, ast.Name)}
    if not copies:
        probs.append('the script context is not a copy of the evaluation context')
    execs = [c for c in (ast.walk(fn) if fn else []) if isinstance(c, ast.Call) and isinstance(c.func, ast.Name) and c.func.id == 'exec']
    if not execs or not all(len(c.args) == 2 and isinstance(c.args[1], ast.Name) and c.args[1].id in copies and not c.keywords for c in execs):
        probs.append('exec does not run in the copy')
    rep.add_checked('engine.YP.load_script_from_string.frame.exec_in_copy', not probs, '; '.join(probs), 'ast',
                    function='engine.YP.load_script_from_string', witness=probs or None)


# ---------------------------------------------------------------------------------------------
NONDET_CALLS = {'set', 'frozenset', 'hash', 'id', 'vars', 'dir', 'globals', 'locals'}
NONDET_MODULES = {'random', 'time', 'datetime', 'uuid', 'secrets', 'os', 'socket', 'threading', 'tempfile'}
PURE_MODULES = {'sys', 'antlr4', 'contextlib', 'click', 'itertools', 'functools', 're', 'typing', 'collections', 'dataclasses', 'abc', 'enum',
                'string', 'operator', 'textwrap', 'io', 'codecs', 'keyword', 'logging', 'warnings', '__future__', 'unicodedata', 'numbers',
                'types', 'copy'}


def io_obligations(rep):
    """C10/C18/C19: what is lexed is the caller's bytes decoded as utf8, what is written replaces the output file"""
    if getattr(rep, '_io_done', False):
        return
    rep._io_done = True
    # decoding and file modes do not depend on the process environment (locale) or on what is already there: every stream is
    # opened with an explicit utf8 encoding (no BOM stripping, no newline translation), output files are truncated
    mod_c = core.module('compiler')
    probs = []
    for q, fn in mod_c.functions.items():
        for n in core.walk_own(fn):
            if not isinstance(n, ast.Call):
                continue
            f = ast.unparse(n.func)
            kws = {k.arg: k.value for k in n.keywords}
            if f in ('FileStream', 'StdinStream', 'antlr4.FileStream', 'antlr4.StdinStream'):
                enc = kws.get('encoding') or (n.args[1] if f.endswith('FileStream') and len(n.args) > 1 else None)
                if not (isinstance(enc, ast.Constant) and enc.value in ('utf8', 'utf-8')):
                    probs.append('%s line %d: %s without encoding=\'utf8\'' % (q, n.lineno, f))
            if f in ('open', 'io.open', 'codecs.open'):
                mode = n.args[1] if len(n.args) > 1 else kws.get('mode')
                if not (isinstance(mode, ast.Constant) and mode.value in ('w', 'wb')):
                    probs.append('%s line %d: open() with mode %s (sources are read through FileStream/StdinStream with utf8, '
                                 'output files are opened with \'w\')' % (q, n.lineno, ast.unparse(mode) if mode is not None else 'default'))
            if f in ('io.TextIOWrapper', 'TextIOWrapper', 'codecs.getreader', 'locale.getpreferredencoding'):
                probs.append('%s line %d: %s' % (q, n.lineno, f))
    rep.add_checked('compiler.<io>.deterministic.explicit_utf8_streams_and_truncating_output', not probs, '; '.join(probs), 'ast',
                    function='compiler.<module>', witness=probs or None)


def determinism_obligations(rep, modules=('yp_generator', 'yp_prolog_visitor', 'compiler')):
    """C18 (self-composition by congruence): a function built only from deterministic primitives and deterministic
    callees is deterministic. Choice primitives: iteration over sets, hash, id, default object repr, random, time, environment."""
    for m in modules:
        mod = core.module(m)
        for q, fn in mod.functions.items():
            probs = []
            for n in ast.walk(fn):
                if isinstance(n, (ast.Set, ast.SetComp)):
                    probs.append('line %d: set display/comprehension' % n.lineno)
                if isinstance(n, ast.Call) and isinstance(n.func, ast.Name) and n.func.id in NONDET_CALLS:
                    probs.append('line %d: %s(...)' % (n.lineno, n.func.id))
                if isinstance(n, ast.Attribute) and isinstance(n.value, ast.Name) and n.value.id in NONDET_MODULES:
                    probs.append('line %d: %s' % (n.lineno, ast.unparse(n)[:40]))
            rep.add_checked('%s.%s.deterministic.no_choice_primitive' % (m, q), not probs, '; '.join(probs), 'ast',
                            function='%s.%s' % (m, q), witness=probs or None)
            # the function that runs is the def: a wrapper installed by a decorator (a cache, a registry) is state that survives
            # the call - the stateless ones used by the code base are listed
            decs = [ast.unparse(d) for d in fn.decorator_list]
            bad = [d for d in decs if not (d in ('staticmethod', 'classmethod', 'property', 'contextlib.contextmanager')
                                           or d.startswith('click.'))]
            rep.add_checked('%s.%s.deterministic.no_stateful_wrapper' % (m, q), not bad,
                            'decorated with ' + ', '.join(bad) if bad else '', 'ast', function='%s.%s' % (m, q), witness=bad or None)
        imports = [a.name for s in mod.tree.body if isinstance(s, ast.Import) for a in s.names] + \
                  [s.module for s in mod.tree.body if isinstance(s, ast.ImportFrom) and s.module]
        # only modules whose functions are functions of their arguments (no cache that outlives a compilation, no clock, no file
        # system or environment lookups) are imported by the compile path; antlr4 and click are assumed (A-EXT-ANTLR, A-EXT-CLICK)
        bad = [i for i in imports if i.split('.')[0] not in PURE_MODULES and i.split('.')[0] != 'yldprolog'
               and not any(isinstance(s_, ast.ImportFrom) and s_.level > 0 and s_.module == i for s_ in mod.tree.body)]
        for q, fn in mod.functions.items():
            for n in core.walk_own(fn):
                if isinstance(n, ast.Attribute) and isinstance(n.value, ast.Name) and n.value.id == 'sys' \
                        and n.attr not in ('stdout', 'stderr', 'stdin', 'exit'):
                    bad.append('%s line %d: %s' % (q, n.lineno, ast.unparse(n)))
                if isinstance(n, (ast.Import, ast.ImportFrom)):
                    for i in ([a.name for a in n.names] if isinstance(n, ast.Import) else [n.module or '']):
                        if i.split('.')[0] not in PURE_MODULES and not (isinstance(n, ast.ImportFrom) and n.level > 0):
                            bad.append('%s line %d: import %s' % (q, n.lineno, i))
                if isinstance(n, ast.Call) and isinstance(n.func, ast.Name) and n.func.id in ('__import__', 'eval', 'exec', 'open', 'input') \
                        and not (m == 'compiler' and n.func.id == 'open'):
                    bad.append('%s line %d: %s(...)' % (q, n.lineno, n.func.id))
        rep.add_checked('%s.<module>.deterministic.imports' % m, not bad, ', '.join(bad), 'ast', function=m + '.<module>', witness=bad or None)
    io_obligations(rep)
    # the caller's options object outlives the call ("after any other compilations in the same process" with the same, reused
    # options): no function of the library compile path stores into it
    for m in modules:
        for q, fn in core.module(m).functions.items():
            if m == 'compiler' and q in ('main', '_set_debug_options'):
                continue        # the command line fills in its own per-invocation click context
            params = [a.arg for a in fn.args.args]
            watched = [p_ for p_ in params if p_ in ('options', 'ctx', 'context')]
            probs = []
            for n in core.walk_own(fn):
                if isinstance(n, (ast.Attribute, ast.Subscript)) and isinstance(n.ctx, (ast.Store, ast.Del)):
                    src = ast.unparse(n.value)
                    if src in watched or (src in ('self.context', 'self.ctx') and '__init__' not in q) \
                            or any(src.startswith(w + '.') for w in watched):
                        probs.append('line %d: %s' % (n.lineno, ast.unparse(n)[:60]))
                if isinstance(n, ast.Call) and isinstance(n.func, ast.Name) and n.func.id in ('setattr', 'delattr') and n.args \
                        and ast.unparse(n.args[0]) in watched + ['self.context', 'self.ctx']:
                    probs.append('line %d: %s' % (n.lineno, ast.unparse(n)[:60]))
            rep.add_checked('%s.%s.deterministic.options_object_not_modified' % (m, q), not probs, '; '.join(probs), 'ast',
                            function='%s.%s' % (m, q), witness=probs or None)
    # per-compilation objects: _compile_prolog_from_stream creates every stateful object afresh
    mod = core.module('compiler')
    fn = mod.functions.get('_compile_prolog_from_stream')
    src = ast.unparse(fn) if fn else ''
    made = {ast.unparse(c.func) for c in (ast.walk(fn) if fn else []) if isinstance(c, ast.Call)}
    probs = [c for c in ('prologLexer', 'CommonTokenStream', 'prologParser', 'YPPrologVisitor', 'YPPrologCompiler', 'YPPythonCodeGenerator')
             if c not in made]
    rep.add_checked('compiler._compile_prolog_from_stream.deterministic.fresh_objects_per_call', not probs,
                    'not created in the call: ' + ', '.join(probs) if probs else '', 'ast', function='compiler._compile_prolog_from_stream',
                    witness=probs or None)
    # the text that is returned is the code generator's result and nothing else: what the debug stream receives (object reprs with
    # addresses - outside the statement) never becomes part of it
    probs = []
    rets = [n for n in (core.walk_own(fn) if fn else []) if isinstance(n, ast.Return)]
    gens = [n for n in (core.walk_own(fn) if fn else []) if isinstance(n, ast.Call) and isinstance(n.func, ast.Attribute) and n.func.attr == 'generate']
    gen_locals = {t.id for a in (core.walk_own(fn) if fn else []) if isinstance(a, ast.Assign) and a.value in gens
                  for t in a.targets if isinstance(t, ast.Name)}
    for r in rets:
        v = r.value
        if not (v in gens or (isinstance(v, ast.Name) and v.id in gen_locals
                              and sum(1 for n in core.walk_own(fn) if isinstance(n, ast.Name) and n.id == v.id and isinstance(n.ctx, ast.Store)) == 1)):
            probs.append('line %d: returns %s, not the result of <generator>.generate(..)' % (r.lineno, ast.unparse(v)[:50] if v is not None else 'None'))
    if not rets:
        probs.append('no return statement')
    rep.add_checked('compiler._compile_prolog_from_stream.deterministic.returns_the_generated_text_only', not probs, '; '.join(probs), 'ast',
                    function='compiler._compile_prolog_from_stream', witness=probs or None)
    # counters live on those per-call objects and start from constants
    for m, q in (('yp_prolog_visitor', 'YPPrologVisitor.__init__'), ('yp_generator', 'YPPrologCompiler.__init__'),
                 ('yp_generator', 'YPPythonCodeGenerator.__init__')):
        fn = core.module(m).functions.get(q)
        probs = []
        params = {a_.arg for a_ in fn.args.args} if fn else set()
        n_state = 0
        for n in core.walk_own(fn) if fn else []:
            if isinstance(n, ast.Assign) and any(isinstance(t, ast.Attribute) and isinstance(t.value, ast.Name) and t.value.id == 'self'
                                                 for t in n.targets):
                n_state += 1
                v = n.value
                if not (isinstance(v, (ast.Constant, ast.List, ast.Dict, ast.Tuple)) or (isinstance(v, ast.Name) and v.id in params)
                        or (isinstance(v, ast.Call) and ast.unparse(v.func) in ('dict', 'list') and not v.args and not v.keywords)):
                    probs.append('line %d: %s is not initialised from a constant, an empty container or a parameter' % (n.lineno, ast.unparse(n)[:50]))
        if fn is None or n_state == 0:
            probs.append('%s not found / sets no state' % q)
        rep.add_checked('%s.%s.deterministic.state_initialised_per_object' % (m, q), not probs, '; '.join(probs), 'ast',
                        function='%s.%s' % (m, q), witness=probs or None)


# ---------------------------------------------------------------------------------------------
def _expand_helpers(body, mod, depth=0):
    """statement-level inlining for the typestate scan: a statement `helper(a, b)` calling a module-level function whose body is
    straight-line code with ifs (no return value, no loop, no try) is replaced by that body with the parameters replaced by the
    argument expressions"""
    import copy
    out = []
    for s in body:
        c = s.value if isinstance(s, ast.Expr) and isinstance(s.value, ast.Call) else None
        fd = mod.functions.get(c.func.id) if c is not None and isinstance(c.func, ast.Name) else None
        if fd is not None and depth < 3 and not c.keywords and len(c.args) == len(fd.args.args) and not fd.args.vararg \
                and not fd.decorator_list and not any(isinstance(x, (ast.Return, ast.Yield, ast.YieldFrom, ast.For, ast.While, ast.Try,
                                                                    ast.FunctionDef, ast.Global)) for y in fd.body for x in ast.walk(y)):
            sub = dict(zip([a.arg for a in fd.args.args], c.args))

            class R(ast.NodeTransformer):
                def visit_Name(self, n):
                    return copy.deepcopy(sub[n.id]) if n.id in sub and isinstance(n.ctx, ast.Load) else n
            inl = [ast.fix_missing_locations(ast.copy_location(R().visit(copy.deepcopy(x)), s)) for x in core.strip_doc(fd.body)]
            out.extend(_expand_helpers(inl, mod, depth + 1))
        else:
            out.append(s)
    return out


def strict_parsing_obligations(rep):
    """C10: typestate of the ANTLR objects in _compile_prolog_from_stream: on every path to the return the lexer and the
    parser have had their error listeners replaced by one whose syntaxError always raises, before program() runs, and the
    token after the parsed program is checked to be EOF."""
    io_obligations(rep)
    mod = core.module('compiler')
    fn = mod.functions.get('_compile_prolog_from_stream')
    state = {}
    events = []
    probs = []
    listener_classes = set()
    for cname, cls in mod.classes.items():
        for s in cls.body:
            if isinstance(s, ast.FunctionDef) and s.name == 'syntaxError':
                body = core.strip_doc(s.body)
                if len(body) == 1 and isinstance(body[0], ast.Raise):
                    listener_classes.add(cname)
    rep.add_checked('compiler.<listener>.syntaxError_always_raises', bool(listener_classes),
                    'no error listener class whose syntaxError is a single raise', 'ast', function='compiler.<module>')
    if fn is None:
        rep.add_checked('compiler._compile_prolog_from_stream.typestate', False, 'function not found', 'ast')
        return
    listeners, lexers, parsers, streams = set(), set(), set(), set()
    removed, added = set(), set()
    parsed_at = None
    eof_checked = False
    body = _expand_helpers(core.strip_doc(fn.body), mod)
    for i, s in enumerate(body):
        if isinstance(s, ast.Assign) and isinstance(s.targets[0], ast.Name) and isinstance(s.value, ast.Call):
            t, c = s.targets[0].id, s.value
            f = ast.unparse(c.func)
            if f in listener_classes:
                listeners.add(t)
            elif f == 'prologLexer':
                lexers.add(t)
            elif f == 'prologParser':
                parsers.add(t)
            elif f == 'CommonTokenStream':
                streams.add(t)
            elif f.endswith('.program') and f.split('.')[0] in parsers:
                parsed_at = i
                p = f.split('.')[0]
                for obj in list(lexers) + [p]:
                    if obj not in removed or obj not in added:
                        probs.append('program() runs while %s still has a non-raising error listener' % obj)
        if isinstance(s, ast.Expr) and isinstance(s.value, ast.Call) and isinstance(s.value.func, ast.Attribute):
            obj = ast.unparse(s.value.func.value)
            if s.value.func.attr == 'removeErrorListeners':
                removed.add(obj)
            if s.value.func.attr == 'addErrorListener' and s.value.args and ast.unparse(s.value.args[0]) in listeners and obj in removed:
                added.add(obj)
            if s.value.func.attr == '_errHandler':
                pass
        if isinstance(s, ast.If) and parsed_at is not None:
            t = ast.unparse(s.test)
            if 'EOF' in t and ('!=' in t or 'not' in t) and any(isinstance(x, ast.Raise) for x in s.body):
                eof_checked = True
        if isinstance(s, ast.Return):
            if parsed_at is None:
                probs.append('returns without parsing')
            if not eof_checked:
                probs.append('returns without checking that the next token is EOF')
    if not lexers or not parsers:
        probs.append('lexer/parser construction not found')
    # what is lexed is the caller's text: the character stream is built from the parameter itself and handed on unchanged
    iprobs = []
    for q, ctor, par in (('compile_prolog_from_string', 'antlr4.InputStream', 0), ('compile_prolog_from_file', 'FileStream', 0),
                         ('_compile_prolog_from_stream', 'prologLexer', 0)):
        f2 = mod.functions.get(q)
        if f2 is None:
            iprobs.append('%s not found' % q)
            continue
        pname = f2.args.args[par].arg
        stores = [n for n in ast.walk(f2) if isinstance(n, ast.Name) and n.id == pname and isinstance(n.ctx, (ast.Store, ast.Del))]
        calls = [n for n in ast.walk(f2) if isinstance(n, ast.Call) and ast.unparse(n.func) == ctor]
        if stores:
            iprobs.append('%s: parameter %s is reassigned (line %d)' % (q, pname, stores[0].lineno))
        if len(calls) != 1 or not calls[0].args or not (isinstance(calls[0].args[0], ast.Name) and calls[0].args[0].id == pname):
            iprobs.append('%s: %s(...) is not applied to the parameter %s itself' % (q, ctor, pname))
        if q != '_compile_prolog_from_stream':
            # the stream created from the input is the one compiled
            tgt = [s_.targets[0].id for s_ in ast.walk(f2) if isinstance(s_, ast.Assign) and s_.value in calls
                   and len(s_.targets) == 1 and isinstance(s_.targets[0], ast.Name)]
            fwd = [n for n in ast.walk(f2) if isinstance(n, ast.Call) and ast.unparse(n.func) == '_compile_prolog_from_stream']
            if len(tgt) != 1 or len(fwd) != 1 or not fwd[0].args or ast.unparse(fwd[0].args[0]) != tgt[0] \
                    or sum(1 for n in ast.walk(f2) if isinstance(n, ast.Name) and n.id == tgt[0] and isinstance(n.ctx, ast.Store)) != 1:
                iprobs.append('%s: the stream built from the input is not the one passed to _compile_prolog_from_stream' % q)
    rep.add_checked('compiler.<entry points>.typestate.input_reaches_lexer_unchanged', not iprobs, '; '.join(iprobs), 'ast',
                    function='compiler.compile_prolog_from_string', witness=iprobs or None)
    rep.add_checked('compiler._compile_prolog_from_stream.typestate.strict_lexer_parser_eof', not probs, '; '.join(probs), 'ast',
                    function='compiler._compile_prolog_from_stream', witness=probs or None)
    # main turns every CompilerError into a non-zero exit
    fn = mod.functions.get('main')
    src = ast.unparse(fn) if fn else ''
    ok = False
    for h in [n for n in (ast.walk(fn) if fn else []) if isinstance(n, ast.ExceptHandler)]:
        if h.type is not None and 'CompilerError' in ast.unparse(h.type) and any(
                isinstance(r, ast.Raise) and r.exc is not None and 'click.ClickException' in ast.unparse(r.exc) for r in ast.walk(h)):
            ok = True
    rep.add_checked('compiler.main.compile_errors_become_cli_errors', ok, '' if ok else 'CompilerError is not turned into ClickException', 'ast',
                    function='compiler.main')


# ---------------------------------------------------------------------------------------------
def debug_noninterference_obligations(rep):
    """C19: the debug flags are read only in the guards of _debug and in the header choice of generate(); what those
    guarded statements write is comment text; _debug arguments and __str__ methods have no effect on compiler state."""
    allowed = {('yp_prolog_visitor', 'YPPrologVisitor._debug'), ('yp_prolog_visitor', 'YPPrologVisitor.__init__'),
               ('yp_generator', 'YPPrologCompiler._debug'), ('yp_generator', 'YPPythonCodeGenerator.generate'),
               ('compiler', '_set_debug_options'), ('compiler', 'main')}
    flags = ('debug_parser', 'debug_generator', 'debug_filename')
    for m in ('yp_prolog_visitor', 'yp_generator', 'compiler'):
        mod = core.module(m)
        for q, fn in mod.functions.items():
            reads = [n for n in core.walk_own(fn) if isinstance(n, ast.Attribute) and n.attr in flags and isinstance(n.ctx, ast.Load)]
            if not reads:
                continue
            ok = (m, q) in allowed
            probs = [] if ok else ['line %d: %s' % (n.lineno, ast.unparse(n)) for n in reads]
            if ok and q.endswith('._debug'):
                # shape: a single `if self.context.<flag>:` whose body only writes comment lines to outf
                body = core.strip_doc(fn.body)
                if not (len(body) == 1 and isinstance(body[0], ast.If) and not body[0].orelse):
                    probs.append('_debug is not a single guarded statement')
                else:
                    loopvars = set()
                    for n in ast.walk(body[0]):
                        if isinstance(n, ast.For):
                            it = ast.unparse(n.iter)
                            if not ('.splitlines()' in it and isinstance(n.target, ast.Name)):
                                probs.append('line %d: the message is not split into lines' % n.lineno)
                            elif isinstance(n.target, ast.Name):
                                loopvars.add(n.target.id)
                    for n in ast.walk(body[0]):
                        if isinstance(n, ast.Call) and isinstance(n.func, ast.Attribute) and n.func.attr == 'write':
                            arg = ast.unparse(n.args[0]) if n.args else ''
                            if not any(arg == "'# ' + %s + '\\n'" % lv for lv in loopvars):
                                probs.append('line %d: writes %s' % (n.lineno, arg))
                        if isinstance(n, ast.Call) and ((isinstance(n.func, ast.Name) and n.func.id == 'print')
                                                        or (isinstance(n.func, ast.Attribute) and n.func.attr in ('writelines', 'print'))):
                            # any other way of producing output puts the message text out unchecked
                            probs.append('line %d: output other than the per-line comment write: %s' % (n.lineno, ast.unparse(n)[:50]))
                        if isinstance(n, (ast.Assign, ast.AugAssign)) and any(isinstance(t, ast.Attribute) for t in
                                                                              (n.targets if isinstance(n, ast.Assign) else [n.target])):
                            probs.append('line %d: _debug changes object state' % n.lineno)
            rep.add_checked('%s.%s.debug.flags_read_only_in_comment_guards' % (m, q), not probs, '; '.join(probs), 'ast',
                            function='%s.%s' % (m, q), witness=probs or None)
    # header alternatives of generate(): comment or blank lines only
    mod = core.module('yp_generator')
    probs = []
    hdr = None
    for s in mod.tree.body:
        if isinstance(s, ast.Assign) and isinstance(s.targets[0], ast.Name) and s.targets[0].id == '_output_header' and isinstance(s.value, ast.Constant):
            hdr = s.value.value
    if hdr is None or not re.fullmatch(r'(#[^\n]*\n|\n)*', hdr):
        probs.append('_output_header is not made of comment lines')
    fn = mod.functions.get('YPPythonCodeGenerator.generate')

    def comment_text(e):
        """is the value of e a concatenation of comment lines / blank lines, whatever the source-derived parts contain?"""
        if isinstance(e, ast.Constant) and isinstance(e.value, str):
            return re.fullmatch(r'(#[^\n\r]*\n|\n)*', e.value) is not None
        if isinstance(e, ast.BinOp) and isinstance(e.op, ast.Add):
            return comment_text(e.left) and comment_text(e.right)
        if isinstance(e, ast.Call) and isinstance(e.func, ast.Attribute) and e.func.attr == 'join' and isinstance(e.func.value, ast.Constant) \
                and e.func.value.value == '' and len(e.args) == 1 and isinstance(e.args[0], (ast.ListComp, ast.GeneratorExp)):
            c = e.args[0]
            g = c.generators[0]
            return len(c.generators) == 1 and not g.ifs and isinstance(g.target, ast.Name) \
                and ast.unparse(c.elt) == "'# ' + %s + '\\n'" % g.target.id \
                and isinstance(g.iter, ast.Call) and isinstance(g.iter.func, ast.Attribute) and g.iter.func.attr == 'splitlines'
        return False

    def builds_text(e):
        return isinstance(e, (ast.JoinedStr, ast.BinOp)) or (isinstance(e, ast.Constant) and isinstance(e.value, str)) \
            or (isinstance(e, ast.Call) and isinstance(e.func, ast.Attribute) and e.func.attr in ('join', 'format'))
    nhdr = 0
    for n in core.walk_own(fn) if fn else []:
        # every piece of text generate() itself builds (the header between the banner and the program) is comment text
        if isinstance(n, ast.Assign) and isinstance(n.targets[0], ast.Name) and builds_text(n.value):
            nhdr += 1
            if not comment_text(n.value):
                probs.append('line %d: header %s' % (n.lineno, ast.unparse(n.value)[:60]))
    if nhdr == 0:
        probs.append('no header text found in generate()')
    rep.add_checked('yp_generator.YPPythonCodeGenerator.generate.debug.header_is_comment_text', not probs, '; '.join(probs), 'ast',
                    function='yp_generator.YPPythonCodeGenerator.generate', witness=probs or None)
    # __str__ methods and the tracing wrapper are effect-free
    for m in ('yp_prolog_visitor', 'yp_generator'):
        mod = core.module(m)
        for q, fn in mod.functions.items():
            if not q.endswith('.__str__'):
                continue
            probs = []
            for n in core.walk_own(fn):
                if isinstance(n, (ast.Assign, ast.AugAssign, ast.Delete, ast.Global, ast.Yield)):
                    probs.append('line %d: %s' % (n.lineno, type(n).__name__))
                if isinstance(n, ast.Call) and isinstance(n.func, ast.Attribute) and n.func.attr in MUTATORS:
                    probs.append('line %d: %s' % (n.lineno, ast.unparse(n)[:40]))
            rep.add_checked('%s.%s.debug.str_is_effect_free' % (m, q), not probs, '; '.join(probs), 'ast', function='%s.%s' % (m, q),
                            witness=probs or None)
    fn = core.module('yp_prolog_visitor').functions.get('YPPrologVisitor.__getattribute__')
    src = ast.unparse(fn) if fn else ''
    ok = False
    inner = [n for n in (ast.walk(fn) if fn else []) if isinstance(n, ast.FunctionDef) and n is not fn]
    for d in inner:
        calls = {t.id for a_ in ast.walk(d) if isinstance(a_, ast.Assign) and isinstance(a_.value, ast.Call) and ast.unparse(a_.value.func) == 'attr'
                 and any(isinstance(x, ast.Starred) for x in a_.value.args) for t in a_.targets if isinstance(t, ast.Name)}
        rets = [r for r in ast.walk(d) if isinstance(r, ast.Return)]
        if rets and all(r.value is not None and ((isinstance(r.value, ast.Name) and r.value.id in calls)
                                                 or (isinstance(r.value, ast.Call) and ast.unparse(r.value.func) == 'attr')) for r in rets):
            ok = True
    rep.add_checked('yp_prolog_visitor.YPPrologVisitor.__getattribute__.debug.wrapper_returns_result_unchanged', ok,
                    '' if ok else 'the tracing wrapper does not return the wrapped result unchanged', 'ast',
                    function='yp_prolog_visitor.YPPrologVisitor.__getattribute__')
    # dropped _debug calls: their argument expressions must be effect-free (they are dropped from the functional translation)
    for m in ('yp_prolog_visitor', 'yp_generator'):
        mod = core.module(m)
        for q, fn in mod.functions.items():
            probs = []
            for n in core.walk_own(fn):
                if isinstance(n, ast.Call) and isinstance(n.func, ast.Attribute) and n.func.attr == '_debug':
                    for a in n.args:
                        for x in ast.walk(a):
                            if isinstance(x, ast.Call):
                                f = ast.unparse(x.func)
                                if f not in ('str', 'repr', 'len') and not f.endswith('.getText') and not f.endswith('.join'):
                                    probs.append('line %d: call %s inside a debug message' % (x.lineno, f))
                            if isinstance(x, (ast.NamedExpr, ast.Yield, ast.Await)):
                                probs.append('line %d: %s inside a debug message' % (x.lineno, type(x).__name__))
            if any(isinstance(n, ast.Call) and isinstance(n.func, ast.Attribute) and n.func.attr == '_debug' for n in core.walk_own(fn)):
                rep.add_checked('%s.%s.debug.message_arguments_effect_free' % (m, q), not probs, '; '.join(probs), 'ast',
                                function='%s.%s' % (m, q), witness=probs or None)
    # the CLI and the library use the same compile function and the same decoding
    mod = core.module('compiler')
    src = mod.text
    probs = []
    io_obligations(rep)        # the CLI and the library decode their input the same way (utf8 streams)
    for q in ('compile_prolog_from_string', 'compile_prolog_from_file', 'main'):
        fn = mod.functions.get(q)
        if fn is None or '_compile_prolog_from_stream(' not in ast.unparse(fn):
            probs.append('%s does not go through _compile_prolog_from_stream' % q)
    fn = mod.functions.get('main')
    msrc = ast.unparse(fn) if fn else ''
    ok_write = False
    if fn is not None:
        for loop in [n for n in ast.walk(fn) if isinstance(n, ast.For) and ast.unparse(n.iter) == 'source']:
            compiled = {t.id for a in ast.walk(loop) if isinstance(a, ast.Assign) and ast.unparse(a.value).startswith('_compile_prolog_from_stream(')
                        for t in a.targets if isinstance(t, ast.Name)}
            for c in [n for n in ast.walk(loop) if isinstance(n, ast.Call) and ast.unparse(n.func).endswith('.write') and len(n.args) == 1]:
                a = c.args[0]
                if (isinstance(a, ast.Name) and a.id in compiled) or ast.unparse(a).startswith('_compile_prolog_from_stream('):
                    ok_write = True
    if not ok_write:
        probs.append('main does not write the code of every source in order')
    # ... to standard output or to the file named with -o: the object written to is bound by `with <opener>(<parameter>) as X`
    # where the opener hands out only sys.stdout or open(<its parameter>, 'w'), whatever else is true of the file system
    if fn is not None:
        params = {a.arg for a in fn.args.args + fn.args.kwonlyargs}
        sinks = {ast.unparse(n.func.value) for n in ast.walk(fn) if isinstance(n, ast.Call) and isinstance(n.func, ast.Attribute)
                 and n.func.attr == 'write' and len(n.args) == 1}
        bound = {}
        for w in [n for n in ast.walk(fn) if isinstance(n, ast.With)]:
            for it in w.items:
                if isinstance(it.optional_vars, ast.Name):
                    bound[it.optional_vars.id] = it.context_expr
        for sname in sorted(sinks):
            ce = bound.get(sname)
            if ce is None or not isinstance(ce, ast.Call) or not ce.args or not (isinstance(ce.args[0], ast.Name) and ce.args[0].id in params):
                probs.append('the stream written to (%s) is not opened from a command-line parameter by a with statement' % sname)
                continue
            why = _opener_problems(mod, ce)
            if why:
                probs.append('output stream %s: %s' % (sname, why))
    if fn is not None and any(isinstance(n, ast.Name) and n.id == 'source' and isinstance(n.ctx, (ast.Store, ast.Del)) for n in ast.walk(fn)):
        probs.append('main rebinds its `source` argument: the sources compiled are not the ones given, in the order given')
    rep.add_checked('compiler.main.cli_equals_library', not probs, '; '.join(probs), 'ast', function='compiler.main', witness=probs or None)


def _is_open_w(v, pname):
    if not (isinstance(v, ast.Call) and ast.unparse(v.func) in ('open', 'io.open') and v.args and isinstance(v.args[0], ast.Name)
            and v.args[0].id == pname):
        return False
    mode = v.args[1] if len(v.args) > 1 else {k.arg: k.value for k in v.keywords}.get('mode')
    return isinstance(mode, ast.Constant) and mode.value == 'w'


def _opener_problems(mod, call):
    """the context expression of the with statement that binds the output stream: open(<param>, 'w') itself, or a generator-based
    context manager of the module whose yielded value is, on every path, sys.stdout or open(<its first parameter>, 'w')"""
    f = ast.unparse(call.func)
    if f in ('open', 'io.open'):
        return '' if _is_open_w(call, call.args[0].id) else 'not opened for (over)writing'
    fn = mod.functions.get(f)
    if fn is None:
        return 'opened by %s, which is not a function of the module' % f
    if not fn.args.args:
        return '%s has no parameter' % f
    pname = fn.args.args[0].arg
    yields = [n for n in core.walk_own(fn) if isinstance(n, ast.Yield)]
    if not yields:
        return '%s yields nothing' % f
    for y in yields:
        v = y.value
        if isinstance(v, ast.Name):
            vals = [a.value for a in core.walk_own(fn) if isinstance(a, ast.Assign) and any(isinstance(t, ast.Name) and t.id == v.id for t in a.targets)]
            others = [n for n in core.walk_own(fn) if isinstance(n, ast.Name) and n.id == v.id and isinstance(n.ctx, ast.Store)]
            if len(others) != len(vals) or not vals:
                return '%s: the yielded stream %s is bound other than by plain assignments' % (f, v.id)
        else:
            vals = [v]
        flat = []
        while vals:
            x = vals.pop()
            if isinstance(x, ast.IfExp):
                vals += [x.body, x.orelse]
            else:
                flat.append(x)
        for x in flat:
            if not (x is not None and (ast.unparse(x) == 'sys.stdout' or _is_open_w(x, pname))):
                return '%s may hand out %s (line %d): neither sys.stdout nor open(%s, \'w\')' % (f, ast.unparse(x)[:40] if x is not None else 'None', y.lineno if x is None else x.lineno, pname)
    return ''


# ---------------------------------------------------------------------------------------------
SOURCE_ATTRS = ('value', 'varname', 'num')
SINK_CTORS = {'YPCodeExpr', 'YPCodeVar', 'YPCodeValue', 'YPCodeBreakBlock', 'YPCodeBreakableBlock', 'YPCodeFunction', 'Atom'}


def provenance_obligations(rep):
    """C12: source-derived strings reach the output only through the lexical sinks. In yp_generator every read of
    .value/.varname/.num is an argument of a YPCode sink constructor, compared with a literal, or inside a debug message;
    the sinks emit repr(text) / str(int(text)) / a checked identifier."""
    mod = core.module('yp_generator')
    for q, fn in mod.functions.items():
        if not q.startswith('YPPrologCompiler.'):
            continue
        parents = {}
        for n in ast.walk(fn):
            for c in ast.iter_child_nodes(n):
                parents[id(c)] = n
        probs = []
        reads = 0
        for n in ast.walk(fn):
            if isinstance(n, ast.Attribute) and n.attr in SOURCE_ATTRS and isinstance(n.ctx, ast.Load):
                reads += 1
                # dangerous uses: the text is pasted into a string (concatenation, % formatting, f-string) outside a debug
                # message, or it becomes the NAME of an emitted call; everything else (sink constructors, comparisons with
                # literals, bookkeeping keys) cannot put raw source text into the output
                p, child = parents.get(id(n)), n
                in_debug = False
                bad = None
                while p is not None and not isinstance(p, ast.stmt):
                    if isinstance(p, ast.Call) and isinstance(p.func, ast.Attribute) and p.func.attr == '_debug':
                        in_debug = True
                    if isinstance(p, (ast.JoinedStr, ast.FormattedValue)) or (isinstance(p, ast.BinOp) and isinstance(p.op, (ast.Add, ast.Mod))):
                        bad = 'pasted into a string'
                    if isinstance(p, ast.Call) and isinstance(p.func, ast.Name) and p.func.id == 'YPCodeCall' and p.args and p.args[0] is child:
                        bad = 'used as the name of an emitted call'
                    if isinstance(p, ast.Call) and isinstance(p.func, ast.Name) and p.func.id == 'YPCodeAssign':
                        bad = 'used raw in an emitted assignment'
                    child, p = p, parents.get(id(p))
                if bad and not in_debug:
                    probs.append('line %d: %s: %s' % (n.lineno, bad, ast.unparse(parents.get(id(n), n))[:60]))
        if reads:
            rep.add_checked('yp_generator.%s.provenance.source_text_only_into_sinks' % q, not probs, '; '.join(probs), 'ast',
                            function='yp_generator.' + q, witness=probs or None)
    # the sinks
    g = mod.functions
    def returns_only(fn, shape):
        """every return statement of the sink returns a call of the given shape (a literal is only ever produced by the builtin)"""
        rets = [n for n in core.walk_own(fn) if isinstance(n, ast.Return)]
        bad = [r for r in rets if not shape(r.value)]
        return bool(rets) and not bad, ['line %d: %s' % (r.lineno, ast.unparse(r)[:70]) for r in bad]

    def is_repr(v):
        return isinstance(v, ast.Call) and isinstance(v.func, ast.Name) and v.func.id == 'repr' and len(v.args) == 1 and not v.keywords

    def is_str_int(v):
        return isinstance(v, ast.Call) and isinstance(v.func, ast.Name) and v.func.id == 'str' and len(v.args) == 1 and not v.keywords \
            and isinstance(v.args[0], ast.Call) and isinstance(v.args[0].func, ast.Name) and v.args[0].func.id == 'int' and len(v.args[0].args) == 1
    checks = [
        ('YPPythonCodeGenerator.generate_expr', is_repr, 'every return is repr(<text>): a Python literal (A-CPY-REPR)'),
        ('YPPythonCodeGenerator.generate_value', is_str_int, 'every return is str(int(<text>)): a decimal integer literal'),
    ]
    for q, shape, what in checks:
        fn = g.get(q)
        ok, bad = returns_only(fn, shape) if fn is not None else (False, ['function not found'])
        rep.add_checked('yp_generator.%s.sink' % q, ok, '' if ok else 'sink body changed (%s): %s' % (what, '; '.join(bad)), 'ast',
                        function='yp_generator.' + q, witness=None if ok else bad)
    # the visitor guards the identifier sinks
    v = core.module('yp_prolog_visitor')
    fn = v.functions.get('YPPrologVisitor.visitClause')
    src = ast.unparse(fn) if fn else ''
    ok = 'raise CompilerError' in src and any(
        isinstance(c, ast.Call) and ast.unparse(c.func) == 're.fullmatch' and c.args and isinstance(c.args[0], ast.Constant)
        and c.args[0].value == '[A-Za-z_][A-Za-z0-9_]*' for c in (ast.walk(fn) if fn else []))
    rep.add_checked('yp_prolog_visitor.YPPrologVisitor.visitClause.sink.head_name_is_identifier', ok,
                    '' if ok else 'clause head names are not checked against the identifier pattern', 'ast',
                    function='yp_prolog_visitor.YPPrologVisitor.visitClause')
    fn = v.functions.get('YPPrologVisitor.visitTermpredicate')
    src = ast.unparse(fn) if fn else ''
    ok = "'$CUTIF'" in src and src.count('raise CompilerError') >= 2
    rep.add_checked('yp_prolog_visitor.YPPrologVisitor.visitTermpredicate.sink.cutif_marker_rejected', ok,
                    '' if ok else "a source goal named '$CUTIF' is not rejected", 'ast',
                    function='yp_prolog_visitor.YPPrologVisitor.visitTermpredicate')
