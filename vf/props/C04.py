"""C04 - engine instances are isolated; interleaved queries do not interfere."""
import os
from .. import framework as fw
from . import compilerp
from .common import A

LEVEL = 'proof'


def run(rep):
    compilerp.frame_obligations(rep)
    compilerp.fresh_state_obligations(rep)
    # within one instance: simultaneously suspended queries share no variable through a stored fact (C13's contracts)
    from . import enginep
    # evaluate_bounded's TEMPORARY limit is outside the statement; that the interpreter-wide limit is back on every exit edge is not
    enginep.engine_deductive(rep, enginep.COPY_FUNS + ['engine.YP.assert_fact', 'engine.YP.evaluate_bounded', 'engine.YP.query'])
    # "create atoms": the atom table is per instance, private to atom(), and atom() changes nothing but its own key
    enginep.atom_table_deductive(rep)
    q = rep.tier == 'quick'
    fw.standin(rep, 's_init.py', ['run'], 'ground check: two engines share no dict object; clear() creates fresh ones', 'single configuration')
    if os.path.exists(os.path.join(fw.VERIF, 'standin', 's_c04.py')):
        fw.standin(rep, 's_c04.py', ['run', rep.seed, 800 if q else 5000],
                   'two engines: histories x interleavings (incl. next() on suspended queries, two threads) vs each engine alone',
                   'histories of <= 6 operations per engine')
    fw.standin(rep, 's_share.py', ['run', rep.seed, 760],
               'two simultaneously suspended uses of one non-ground fact (all interleavings) vs each use alone; compiled conjunction',
               '9 fact shapes x 9 constant choices x 5 schedules: exhaustive for this family')
    rep.assumptions += [A['A-PY-ATTR'], 'thread schedules are not modelled (CPython bytecode atomicity): the thread clause rests on the frame '
                        'sets plus the GIL and is only exercised by the bounded two-thread run',
                        'non-interference follows from the frame rule (operations with disjoint modifies-sets and no shared reads commute): '
                        'paper argument; what is machine-checked are the frame sets']
    rep.trusted += ['vf/props/compilerp.py frame checker (AST)']
    rep.notes.append('frame obligations for every function of the four modules: no global statement, no store or mutating call through a '
                     'module-level name, module and class bodies hold only definitions and immutable constants, mutable defaults and module '
                     'objects are never mutated, per-instance state is created from fresh displays, scripts execute in a copy of the context')
