"""C11 - whatever the compiler accepts loads and defines exactly the program's predicates."""
import os
from .. import framework as fw
from . import compilerp, templates, lexical
from .common import A

LEVEL = 'proof'


def run(rep):
    lexical.visitor_deductive(rep)
    compilerp.provenance_obligations(rep)
    templates.discipline_obligations(rep)
    size_guards(rep)
    # with debug options the output must still load: debug text stays inside comment lines
    compilerp.debug_noninterference_obligations(rep)
    from . import control
    control.clause_deductive(rep, targets=['yp_generator.YPPrologCompiler.nesting_depth', 'yp_generator.YPPrologCompiler.compile_function_body',
                                            'yp_generator.YPPrologCompiler.compile_expression', 'yp_generator.YPPrologCompiler.compile_list'], literal_lemma=False)
    # the head of every accepted clause is an ordinary goal whose name is a Python identifier (visitClause)
    control.parse_deductive(rep, control.PARSE_CLAUSE + control.PARSE_PROGRAM + ['visitSimplepredicate', 'visitTermpredicate'])
    control.text_deductive(rep)
    control.program_deductive(rep)
    # "loading it makes exactly those predicates callable": the engine half (C08's contracts) - load_script_from_string installs
    # every key the executed text defines, query looks the key up when the facts are exhausted (no memory of earlier lookups)
    from . import enginep
    enginep.engine_deductive(rep, ['engine.YP.query', 'engine.YP.load_script_from_string'], heap_lemmas=False)
    q = rep.tier == 'quick'
    fw.standin(rep, 's_c11.py', ['run', rep.seed, 900 if q else 5000],
               'boundary corpus + generated programs: accepted output compiles, loads, defines exactly the clause-head keys as generator functions, which a query reaches also when the engine was asked for them before the load',
               'numeral spellings, reserved-looking variable names, failing bodies, long conjunctions, deep nesting of control constructs and terms')
    fw.standin(rep, 'recog.py', ['run', 'accept', rep.seed + 3, 5000 if q else 40000],
               'accepted programs define exactly the clause heads (def set == clause keys of an independent reader)', 'valid programs x corruptions')
    rep.assumptions += [A['A-PYGRAMMAR'], A['A-CPY-LIMITS'], A['A-EXT-EXEC'], A['A-PY-STR'], A['A-EXT-ANTLR']]
    rep.notes.append('lexical sinks proved with SMT strings on the real visitor code: every emitted variable name is an identifier that is not a '
                     'reserved/engine/generated name (visitVARIABLE, mangle injective), head names are checked against the identifier pattern, '
                     'numerals are emitted as str(int(text)); size guards (nesting of goals and of terms) raise CompilerError; the shape of the '
                     'emitted text (one def per key, generator, loadable) is decided by the bounded stand-ins modulo A-PYGRAMMAR')


def size_guards(rep):
    """the compiler reports clauses that CPython could not compile: >= 20 nested blocks, > 180 nested brackets"""
    import ast
    from ..pyvc import core
    mod = core.module('yp_generator')
    fn = mod.functions.get('YPPrologCompiler.compile_function_body')
    src = ast.unparse(fn) if fn else ''
    ok = 'self.nesting_depth(arg_list_unification_code) >= 20' in src and 'raise CompilerError' in src
    rep.add_checked('yp_generator.YPPrologCompiler.compile_function_body.guard.block_nesting_reported', ok,
                    '' if ok else 'no CompilerError for clauses with 20 or more nested blocks (measured on head unification + body)', 'ast',
                    function='yp_generator.YPPrologCompiler.compile_function_body')
    fn = mod.functions.get('YPPrologCompiler.compile_expression')
    src = ast.unparse(fn) if fn else ''
    ok = 'if brackets > 180' in src and 'raise CompilerError' in src and 'brackets + 2' in src and 'brackets + 1' in src
    rep.add_checked('yp_generator.YPPrologCompiler.compile_expression.guard.bracket_nesting_reported', ok,
                    '' if ok else 'no CompilerError for terms nested deeper than CPython can parse', 'ast',
                    function='yp_generator.YPPrologCompiler.compile_expression')
    fn = mod.functions.get('YPPrologCompiler.nesting_depth')
    src = ast.unparse(fn) if fn else ''
    ok = 'isinstance(c, YPCodeForeach)' in src and '1 + self.nesting_depth(c.loop_code)' in src and 'YPCodeBreakableBlock' in src
    rep.add_checked('yp_generator.YPPrologCompiler.nesting_depth.counts_loops_and_blocks', ok, '' if ok else 'nesting_depth changed', 'ast',
                    function='yp_generator.YPPrologCompiler.nesting_depth')
