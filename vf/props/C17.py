"""C17 - evaluate_bounded returns a prefix of the answers and restores the interpreter."""
from .. import framework as fw
from . import enginep

LEVEL = 'proof'


def run(rep):
    # "all query variables are unbound again" when the search is cut short by the depth error: the error unwinds the generator
    # frames, so this clause rests on the finalisation contracts of C03 (every unification generator resets exactly its own cells on
    # resume, close and throw; every engine generator owns and finalises its iterators; only Variable.unify writes a binding cell)
    from .common import UNIFY_FAMILY
    fw.deductive(rep, [t for t in UNIFY_FAMILY if 'get_value' not in t], ['engine_terms'], ['terms.smt2'], timeout=25 if rep.tier == 'quick' else 60)
    enginep.engine_deductive(rep, enginep.GEN_FUNS + enginep.ITER_CLASSES + ['engine.Answer.match', 'engine.YP.evaluate_bounded'], heap_lemmas=False)
    from . import syntactic
    syntactic.no_direct_cell_writes(rep)
    syntactic.caught_exceptions_do_not_escape(rep)
    q = rep.tier == 'quick'
    fw.standin(rep, 's_c17.py', ['run', rep.seed, 1000 if q else 6000],
               'fault enumeration: finite/deep/left-recursive/infinite programs x limits x projection raising at answer k or returning None for one answer',
               'limits {60,100,200,400}; depth parameters up to 1000')
    rep.notes.append('proved for all queries and projection functions: (i) the recursion limit is restored on every exit edge, (ii) no '
                     'RecursionError escapes (only the projection function\'s own exception does), (iii) one projected value per consumed '
                     'answer in order (so the result is a prefix), (iv) the query generator is never left suspended. WHERE the depth '
                     'limit strikes is CPython behaviour and only bounded-checked')
    rep.assumptions.append('sys.setrecursionlimit(n) raises RecursionError iff n is not above the current depth (ghost rdepth); '
                           'A-TRACEBACK')
