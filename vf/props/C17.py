"""C17 - evaluate_bounded returns a prefix of the answers and restores the interpreter."""
from .. import framework as fw
from . import enginep

LEVEL = 'proof'


def run(rep):
    enginep.engine_deductive(rep, ['engine.YP.evaluate_bounded'], heap_lemmas=False)
    from . import syntactic
    syntactic.caught_exceptions_do_not_escape(rep)
    q = rep.tier == 'quick'
    fw.standin(rep, 's_c17.py', ['run', rep.seed, 1000 if q else 6000],
               'fault enumeration: finite/deep/left-recursive/infinite programs x limits x projection raising at answer k',
               'limits {60,100,200,400}; depth parameters up to 1000')
    rep.notes.append('proved for all queries and projection functions: (i) the recursion limit is restored on every exit edge, (ii) no '
                     'RecursionError escapes (only the projection function\'s own exception does), (iii) one projected value per consumed '
                     'answer in order (so the result is a prefix), (iv) the query generator is never left suspended. WHERE the depth '
                     'limit strikes is CPython behaviour and only bounded-checked')
    rep.assumptions.append('sys.setrecursionlimit(n) raises RecursionError iff n is not above the current depth (ghost rdepth); '
                           'A-TRACEBACK')
