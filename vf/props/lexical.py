"""String-theory obligations for the visitor (C11, C12, C16)."""
import ast

from .. import framework as fw
from .. import smt
from ..pyvc import core, run as pyrun
from ..pyvc.theory_visitor import VisitorTheory
from ..pyvc.core import smt_str


def reserved_names():
    mod = core.module('yp_prolog_visitor')
    for s in mod.tree.body:
        if isinstance(s, ast.Assign) and isinstance(s.targets[0], ast.Name) and s.targets[0].id == '_RESERVED_PYTHON_NAMES':
            if isinstance(s.value, (ast.Tuple, ast.List)) and all(isinstance(e, ast.Constant) and isinstance(e.value, str) for e in s.value.elts):
                return [e.value for e in s.value.elts]
            return None        # not a literal tuple of names: the visitor contract cannot be instantiated (reported as out of subset)
    return None


def mangle_prelude():
    """`mangle` as a specification function: a name of the form <reserved><underscores> gets one more underscore."""
    res = reserved_names() or []
    isres = ' '.join('(str.in_re n (re.++ (str.to_re %s) (re.* (str.to_re "_"))))' % smt_str(r) for r in res)
    return ('(define-fun isres ((n String)) Bool (or false %s))\n'
            '(define-fun mangle ((n String)) String (ite (isres n) (str.++ n "_") n))\n' % isres)


def prelude():
    return pyrun.prelude('strings.smt2').replace(';MANGLE', mangle_prelude())


def visitor_deductive(rep, targets=('yp_prolog_visitor.YPPrologVisitor.unquoteString', 'yp_prolog_visitor.YPPrologVisitor.visitVARIABLE')):
    import sys
    sys.path.insert(0, fw.VERIF)
    reg = pyrun.load_contracts('visitor')
    gens = []
    for t in targets:
        m, q = t.split('.', 1)
        gens.append(pyrun.gen_function(m, q, reg, theory=VisitorTheory()))
    pre = prelude()
    results = pyrun.discharge(gens, pre, timeout=20 if rep.tier == 'quick' else 60)
    rep.add_deductive(gens, results)
    # spec-level string lemmas
    pre2 = pre + '\n(declare-const a String) (declare-const b String)\n'
    obl = [
        ('spec.mangle_injective', pre2 + '(assert (str.in_re a VARIABLE)) (assert (str.in_re b VARIABLE))\n(assert (= (mangle a) (mangle b)))\n(assert (not (= a b)))\n(check-sat)'),
        ('spec.variable_token_is_identifier', pre2 + '(assert (str.in_re a VARIABLE))\n(assert (not (str.in_re a IDENT)))\n(check-sat)'),
        ('spec.head_name_with_arity_is_identifier', pre2 + '(assert (str.in_re a (re.++ IDENT (str.to_re "_") DECINT)))\n'
         '(assert (not (str.in_re a IDENT)))\n(check-sat)'),
        ('spec.anon_name_is_identifier', pre2 + '(assert (str.in_re a (re.++ (str.to_re "x") DECINT)))\n(assert (not (str.in_re a IDENT)))\n(check-sat)'),
        ('spec.anon_name_is_not_a_source_variable', pre2 + '(assert (str.in_re a (re.++ (str.to_re "x") DECINT)))\n(assert (str.in_re a VARIABLE))\n(check-sat)'),
        ('spec.unquote_backslash_free_is_identity', pre2 + '(assert (not (str.contains a "\\u{5c}"))) (assert (<= (str.len a) 3))\n'
         '(assert (not (= (filt (str.++ "\'" a "\'") (+ (str.len a) 1)) a)))\n(check-sat)'),
    ]
    res = smt.run_many(obl, timeout=30)
    fw.add_smt(rep, res, 'spec.lexical', 'string')
    rep.lemmas.append('lexical lemmas (SMT strings): mangle is injective on VARIABLE tokens; VARIABLE tokens are identifiers; str(n) is a decimal '
                      'literal; <identifier>_<n> is an identifier; unquote of backslash-free text of length <= 3 is the identity (bounded instance)')
