"""C05 - cut commits the clause and nothing else."""
from .. import framework as fw
from . import control

LEVEL = 'proof'


def run(rep):
    control.body_deductive(rep)
    control.parse_deductive(rep, control.PARSE_BODY)
    control.text_deductive(rep)
    control.astvars_deductive(rep)
    q = rep.tier == 'quick'
    fw.standin(rep, 'difftest.py', ['run', 'F2', rep.seed, 6000 if q else 40000, '--max-depth', 4],
               'translation validation: compiled clause bodies with cuts vs reference interpreter',
               'random body trees depth<=%d over call/true/fail/!/,/;/->/\\+ , leaves with 0/1/2 answers, 2 clauses, caller with 2 alternatives' % 4)
    if not q:
        fw.standin(rep, 'difftest.py', ['run', 'F2', rep.seed, 0, '--exhaustive', '--max-depth', 2],
                   'translation validation, exhaustive depth<=2', 'all 35341 body trees of depth<=2', timeout=1800)
    fw.standin(rep, 's_tv.py', ['run', rep.seed, 8000 if q else 80000],
               'A-CPY-TEXT: YPCode trees rendered by the real generator and executed by CPython vs the target semantics <<.>> (calls, answers, yields in order)',
               'all code lists of <=2 statements of depth <=1 + random trees of depth <=4 over goals with 0/1/2 answers, nested blocks')
    fw.standin(rep, 's_ctl.py', ['run', rep.seed, 2000 if q else 12000],
               'control constructs in clauses with plain distinct head variables (no enclosing loop), nested in conditions and under negation',
               'systematic nested-condition trees + random F2 trees')
    rep.notes.append('compile_body is verified path by path against semb (cut = seq(yield,cut); YieldBreak = cut) for all sub-bodies; '
                     'that a cut status ends only the clause function is the target semantics of `return` (A-CPY-TEXT, bounded TV)')
