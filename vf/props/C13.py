"""C13 - a stored fact is an independent copy of the asserted term."""
from .. import framework as fw
from . import enginep

LEVEL = 'proof'


def run(rep):
    enginep.unify_deductive(rep)      # facts are matched by unification: the unify family against su (C02's contracts)
    enginep.engine_deductive(rep, enginep.COPY_FUNS + ['engine.YP.assert_fact', 'engine.get_value', 'engine.Variable.get_value',
                                                         'engine.Functor.get_value', 'engine.Atom.get_value'])
    q = rep.tier == 'quick'
    fw.standin(rep, 'difftest.py', ['run', 'F4', rep.seed + 13, 5000 if q else 40000],
               'facts asserted under binding histories and used several times vs reference (copy semantics)',
               'random F4 cases incl. non-ground facts used twice and variables bound after the assert')
    fw.standin(rep, 's_dbx.py', ['run', rep.seed, 6000 if q else 24000],
               'systematic small-scope database histories: repeated-variable and all-unbound patterns, non-ground facts, retract resumed after other operations',
               'e/2 over {a,b}: 5 databases x 7 patterns x 26 inner operations + random histories')
    fw.standin(rep, 's_share.py', ['run', rep.seed, 760],
               'two simultaneously suspended uses of one non-ground fact (all interleavings) vs each use alone; compiled conjunction',
               '9 fact shapes x 9 constant choices x 5 schedules: exhaustive for this family')
    fw.standin(rep, 's_c13.py', ['run', rep.seed, 0],
               'facts that differ only in their variable-sharing pattern are stored independently (either order, retract between); a '
               'term holding a variable that is itself the product of a copy is asserted and the variable bound afterwards; a term mentioning a bound variable at any depth keeps the value of that moment',
               '4 skeletons x all pairs of sharing patterns x 4 assertion ways x 2 + 6 variable sources x 4 places x 3 ways + 7 shapes x 3 values x 3 ways x direct/chained binding: exhaustive')
    rep.notes.append('assert_fact stores fresh_copy(values) = rename(resolve(values)); Answer.match unifies with a fresh copy per use; '
                     'L-RN-FRESH: every variable of a fresh copy is new (id >= allocation counter), so a stored fact shares no cell '
                     'with the caller and two uses share none with each other')
