"""C09 - call/N, once/1, findall/3, = and \\= agree with their standard definitions."""
from .. import framework as fw
from . import enginep

LEVEL = 'proof'


def run(rep):
    enginep.unify_deductive(rep)      # facts are matched by unification: the unify family against su (C02's contracts)
    enginep.engine_deductive(rep, enginep.META_FUNS + enginep.COPY_FUNS + ['engine.YP.query', 'engine.unify'])      # findall's instances are copy_terms' copies
    # an inline goal reaches these builtins only through the compiled clause: a predicate goal (=, \\=, call, once, findall included) is
    # compiled to one query(name, args) loop around the rest of the body (compile_body / compile_predicate contracts of C01)
    from . import control
    control.body_deductive(rep)
    q = rep.tier == 'quick'
    fw.standin(rep, 's_c09.py', ['run', rep.seed, 520], '= and \\= as goals (API and compiled) vs the engine\'s unify on every pair of term shapes, '
               'including pairs whose unifier is cyclic', 'all 400 ordered pairs of 20 term shapes; 7 findall templates x API/compiled')
    fw.standin(rep, 'difftest.py', ['run', 'F3', rep.seed, 6000 if q else 40000],
               'meta-call programs (inline / run-time bound / atom goals, extra arguments, 0-1-many answers) vs reference interpreter',
               'random F3 programs; control constructs passed to call/N are outside the statement and excluded')
    rep.notes.append('call: delegates to query(name of the dereferenced goal, its args ++ extra) and raises YPException only for a '
                     'non-callable goal; once: at most one answer, the first of call(goal), no exception when there is none; findall: '
                     'one answer iff the bag unifies with makelist(copies collected), goal iterator exhausted before; \\\\=: one answer '
                     'with no iterator suspended iff query(=) has none; = is builtin_eq (C02)')
