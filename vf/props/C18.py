"""C18 - compilation is a deterministic function of the source text."""
import os
from .. import framework as fw
from . import compilerp
from .common import A

LEVEL = 'proof'


def run(rep):
    compilerp.determinism_obligations(rep)
    compilerp.frame_obligations(rep, modules=['yp_generator', 'yp_prolog_visitor', 'compiler'])
    q = rep.tier == 'quick'
    if os.path.exists(os.path.join(fw.VERIF, 'standin', 's_c18.py')):
        fw.standin(rep, 's_c18.py', ['run', rep.seed, 600 if q else 4000],
                   'same program compiled under PYTHONHASHSEED 0/1/2/3/random, twice in process, after unrelated compilations',
                   'F1-F3 programs and clauses with many fresh variables')
    rep.assumptions += [A['A-EXT-ANTLR'], A['A-PY-DICTORDER'], 'str methods, sorted, dict.fromkeys, list/tuple/dict iteration, itertools.chain, '
                        'functools.reduce and repr of str/int are functions of their arguments']
    rep.notes.append('self-composition by congruence: every function reachable from the compile entry points uses no choice primitive '
                     '(iteration over a set, hash, id, random, time, environment) and reads no module-level or class-level mutable state; '
                     'all stateful objects (lexer, parser, visitor, compiler, generator, their counters) are created per call')
