"""C12 - Prolog text cannot become Python code; loaded code sees only the engine API."""
from .. import framework as fw
from . import control, compilerp, templates, lexical, enginep
from .common import A

LEVEL = 'proof'


def run(rep):
    lexical.visitor_deductive(rep)
    compilerp.provenance_obligations(rep)
    templates.discipline_obligations(rep)
    compilerp.fresh_state_obligations(rep)
    # debug comments share the output file with the code (yldpc -d): they must stay comments
    compilerp.debug_noninterference_obligations(rep)
    # every way a goal is run goes through query (which refuses API names): the meta-call builtins delegate to it
    enginep.engine_deductive(rep, ['engine.YP.query', 'engine.YP.call', 'engine.YP.once', 'engine.YP.findall', 'engine.YP.builtin_neq'], heap_lemmas=False)
    # a source goal never becomes the compiler's internal $CUTIF marker, whose argument is pasted as a label (visitTermpredicate)
    control.parse_deductive(rep, control.PARSE_BODY + control.PARSE_CLAUSE)
    control.text_deductive(rep)
    # "names of clause-local variables": every variable name of a clause is bound in the emitted function before it is read - the
    # `variables` properties report every variable (also one only in a branch), compile_function_body declares each reported
    # one that is not a parameter alias - so no Prolog-chosen name is ever read as a global of the load context
    control.astvars_deductive(rep)
    control.clause_deductive(rep, targets=['yp_generator.YPPrologCompiler.' + f for f in (
        'compile_function_body', 'filter_free_variables', 'get_free_variables', 'compile_free_variable_declarations',
        'compile_variable_declaration', 'compile_clause_head_variable_arguments', 'find_clause_head_variable_arguments')], literal_lemma=False)
    q = rep.tier == 'quick'
    fw.standin(rep, 's_c12.py', ['run', rep.seed, 1000 if q else 6000],
               'hostile atoms in every syntactic position: AST whitelist of the output, names, call targets, string constants; hostile run-time queries',
               'quoted atoms with Python syntax, quotes, newlines, control characters x positions; 266 hostile queries per case')
    fw.standin(rep, 's_init.py', ['run'], 'ground check: __builtins__ of the script context is an empty dict; API names are not callable', 'single configuration')
    rep.assumptions += [A['A-CPY-REPR'], A['A-PYGRAMMAR'], A['A-EXT-EXEC']]
    rep.notes.append('provenance: every read of source text (.value/.varname/.num) in the compiler flows into a lexical sink constructor; the sinks '
                     'emit repr(text), str(int(text)) or a visitor-checked identifier; called names in emitted code are compiler literals (T4); '
                     'the $CUTIF marker cannot be written by the user; the script context has empty __builtins__ and query() refuses API names '
                     '(segment 2 of YP.query requires name not in blacklist)')
