"""Template obligations on yp_generator.py (C03, C11, C12, C20): decided on the real AST of the generator.

T1  an iterator-producing call (YPCodeCall('query'|'unify', ...)) is only ever constructed as the loop expression of
    a YPCodeForeach: emitted iterators are owned by a for loop (ownership rule (i)).
T2  the string constants from which generate_* assemble the output contain none of the statement keywords
    try/while/with/import/lambda/class/global/exec/eval/del, and `yield` occurs only in generate_yield_false/true
    followed by a constant.
T3  the loop variable text is used only in the `for <var> in <expr>:` line (yielded values are never read).
T4  names of called functions in emitted code come from string literals of the compiler
    ('query','unify','atom','functor','listpair','makelist','variable'), never from source text.
Plus the bounded run of standin/s_tmpl.py on compiled programs (labelled bounded).
"""
import ast
import re

from .. import framework as fw
from ..pyvc import core

FORBIDDEN = re.compile(r'\b(try|while|with|import|lambda|class|global|nonlocal|exec|eval|del|except|finally|raise|assert|async|await)\b')


def _consts(fn):
    for n in core.walk_own(fn):
        if isinstance(n, ast.Constant) and isinstance(n.value, str):
            yield n


def discipline_obligations(rep):
    mod = core.module('yp_generator')
    # T1
    bad = []
    for fn_name, fn in mod.functions.items():
        parents = {}
        for n in ast.walk(fn):
            for c in ast.iter_child_nodes(n):
                parents[id(c)] = n
        for n in ast.walk(fn):
            if isinstance(n, ast.Call) and isinstance(n.func, ast.Name) and n.func.id == 'YPCodeCall' and n.args \
                    and isinstance(n.args[0], ast.Constant) and n.args[0].value in ('query', 'unify'):
                p = parents.get(id(n))
                ok = isinstance(p, ast.Call) and isinstance(p.func, ast.Name) and p.func.id == 'YPCodeForeach' and p.args and p.args[0] is n
                if not ok and isinstance(p, ast.Assign) and len(p.targets) == 1 and isinstance(p.targets[0], ast.Name) and p.value is n:
                    # held in a local first: the local is bound once and read only as the loop expression of YPCodeForeach
                    v_ = p.targets[0].id
                    stores = [x for x in core.walk_own(fn) if isinstance(x, ast.Name) and x.id == v_ and isinstance(x.ctx, ast.Store)]
                    loads = [x for x in core.walk_own(fn) if isinstance(x, ast.Name) and x.id == v_ and isinstance(x.ctx, ast.Load)]
                    ok = len(stores) == 1 and bool(loads) and all(
                        isinstance(parents.get(id(x)), ast.Call) and isinstance(parents[id(x)].func, ast.Name)
                        and parents[id(x)].func.id == 'YPCodeForeach' and parents[id(x)].args and parents[id(x)].args[0] is x for x in loads)
                if not ok:
                    bad.append('%s line %d: %s' % (fn_name, n.lineno, ast.unparse(n)[:60]))
    rep.add_checked('yp_generator.template.T1.iterators_only_as_foreach_expression', not bad, '; '.join(bad), 'ast',
                    function='yp_generator.YPPrologCompiler', witness=bad or None)
    # T2/T3/T4 over the generate_* methods of YPPythonCodeGenerator
    for fn_name, fn in mod.functions.items():
        if not fn_name.startswith('YPPythonCodeGenerator.generate'):
            continue
        probs = []
        for c in _consts(fn):
            if fn.body and isinstance(fn.body[0], ast.Expr) and fn.body[0].value is c:
                continue
            if FORBIDDEN.search(c.value):
                probs.append('line %d: constant %r contains a forbidden keyword' % (c.lineno, c.value))
            if 'yield' in c.value and not re.fullmatch(r'yield (True|False)', c.value.strip()):
                probs.append('line %d: yield text %r' % (c.lineno, c.value))
        rep.add_checked('yp_generator.%s.template.T2.constants' % fn_name, not probs, '; '.join(probs), 'ast',
                        function='yp_generator.' + fn_name, witness=probs or None)
    fe = mod.functions.get('YPPythonCodeGenerator.generate_foreach')
    probs = []
    if fe is None:
        probs.append('generate_foreach not found')
    else:
        # the for header: the expression that formats "for <loop variable> in <iterable>:"; the loop variable's name is whatever is
        # formatted first into it, and that local may be read nowhere else (the emitted loop body never mentions its loop variable)
        parents = {}
        for n in ast.walk(fe):
            for c in ast.iter_child_nodes(n):
                parents[id(c)] = n

        def header_of(x):
            if isinstance(x, ast.BinOp) and isinstance(x.op, ast.Mod) and isinstance(x.left, ast.Constant) and str(x.left.value).startswith('for '):
                vals = x.right.elts if isinstance(x.right, ast.Tuple) else [x.right]
                return vals[0] if vals else None
            if isinstance(x, ast.JoinedStr) and x.values and isinstance(x.values[0], ast.Constant) and str(x.values[0].value).startswith('for '):
                fv = [v for v in x.values if isinstance(v, ast.FormattedValue)]
                return fv[0].value if fv else None
            return None
        headers = [(x, header_of(x)) for x in core.walk_own(fe) if header_of(x) is not None]
        if len(headers) != 1 or not isinstance(headers[0][1], ast.Name):
            probs.append('the for header is not formatted from one local holding the loop variable name')
        else:
            hx, lv = headers[0]
            inside = {id(n) for n in ast.walk(hx)}
            uses = [n for n in core.walk_own(fe) if isinstance(n, ast.Name) and n.id == lv.id and isinstance(n.ctx, ast.Load)]
            for u in uses:
                if id(u) not in inside:
                    probs.append('loop variable used outside the for header (line %d)' % u.lineno)
    rep.add_checked('yp_generator.YPPythonCodeGenerator.generate_foreach.template.T3.loop_variable_only_in_header', not probs,
                    '; '.join(probs), 'ast', function='yp_generator.YPPythonCodeGenerator.generate_foreach', witness=probs or None)
    # T4: YPCodeCall function names are literals
    bad = []
    for fn_name, fn in mod.functions.items():
        for n in core.walk_own(fn):
            if isinstance(n, ast.Call) and isinstance(n.func, ast.Name) and n.func.id == 'YPCodeCall':
                if not (n.args and isinstance(n.args[0], ast.Constant) and n.args[0].value in
                        ('query', 'unify', 'atom', 'functor', 'listpair', 'makelist', 'variable')):
                    bad.append('%s line %d: %s' % (fn_name, n.lineno, ast.unparse(n)[:60]))
    rep.add_checked('yp_generator.template.T4.called_names_are_compiler_literals', not bad, '; '.join(bad), 'ast',
                    function='yp_generator.YPPrologCompiler', witness=bad or None)
    q = rep.tier == 'quick'
    fw.standin(rep, 's_tmpl.py', ['run', rep.seed, 1200 if q else 8000],
               'template discipline of the emitted text of compiled programs (AST of the output)', 'F1-F4 programs')
