"""C07 - the fact database behaves as ordered lists for every history."""
from .. import framework as fw
from . import enginep

LEVEL = 'proof'


def run(rep):
    # goals written in a program reach the database with the variables the source names: one variable per name, `_` always new
    from . import lexical
    lexical.visitor_deductive(rep, targets=('yp_prolog_visitor.YPPrologVisitor.visitVARIABLE',))
    enginep.unify_deductive(rep)      # facts are matched by unification: the unify family against su (C02's contracts)
    enginep.engine_deductive(rep, enginep.DB_FUNS + enginep.COPY_FUNS + enginep.BUILTIN_REG + ['engine.YP.query'])
    q = rep.tier == 'quick'
    fw.standin(rep, 'difftest.py', ['run', 'F4', rep.seed, 6000 if q else 40000],
               'database histories (compiled code and API): answers and full database contents after every step vs list model',
               'random histories of assertz/asserta/retract(k)/retractall/clear/query over 2 predicates x 2 arities')
    fw.standin(rep, 's_dbx.py', ['run', rep.seed, 6000 if q else 24000],
               'systematic small-scope database histories: repeated-variable and all-unbound patterns, non-ground facts, retract resumed after other operations',
               'e/2 over {a,b}: 5 databases x 7 patterns x 26 inner operations + random histories')
    rep.notes.append('assert_fact/asserta/assertz: DB[key] := old ++ [fresh copy] (resp. prepend) as a NEW list object, all other keys, '
                     'lists and Answer objects unchanged; retractall: DB[key] := facts not matching; retract: per answer the published '
                     'list is current minus the matched fact, fact still present, snapshot order; unknown keys are empty; clear() is '
                     'covered by the bounded histories only')
