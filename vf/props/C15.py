"""C15 - answers are fully dereferenced and stay valid after backtracking."""
import os
from .. import framework as fw
from . import enginep

LEVEL = 'proof'
TARGETS = ['engine.get_value', 'engine.Atom.get_value', 'engine.Variable.get_value', 'engine.Functor.get_value',
           'engine.Variable.unify', 'engine._copy_term', 'engine.copy_terms', 'engine.YP.findall', 'engine.YP.assert_fact']


def run(rep):
    enginep.engine_deductive(rep, TARGETS)
    enginep.topython_deductive(rep)
    from . import syntactic
    syntactic.observers_write_nothing(rep)
    q = rep.tier == 'quick'
    fw.standin(rep, 'real_terms.py', ['search', 3 if q else 4, 60000 if q else 400000, rep.seed],
               'refutation search: real get_value/unify under binding histories vs the spec mirror (resolve)',
               'term pairs up to 3/4 nodes under <=3 earlier active unifications')
    if os.path.exists(os.path.join(fw.VERIF, 'standin', 's_c15.py')):
        fw.standin(rep, 's_c15.py', ['run', rep.seed, 1200 if q else 8000],
                   'values collected during an enumeration compared after the query has finished (API histories, programs, findall, asserted facts)',
                   'random binding histories and F1/F3 programs')
    rep.notes.append('get_value(t) == resolve(t, store): the fully dereferenced term, for every store (any binding order); resolve '
                     'replaces every bound variable at every depth, so a ground answer contains no variable and its meaning no longer '
                     'depends on the store; Variable.unify stores resolve(term) at binding time; findall and assert_fact export fresh '
                     'copies of resolved terms. to_python (module function and the three methods) is verified to return topy(resolve(t)): the C16 mapping of the fully dereferenced term, on terms whose lists are proper')
