"""C02 - unification computes a most general unifier, or fails."""
from .. import framework as fw
from .common import A, UNIFY_FAMILY

LEVEL = 'proof'
TARGETS = UNIFY_FAMILY


def run(rep):
    fw.deductive(rep, TARGETS, ['engine_terms'], ['terms.smt2'], timeout=25 if rep.tier == 'quick' else 60)
    # the two iterator classes implement the semidet handle protocol (one answer False / no answer, store untouched)
    from . import enginep, syntactic
    enginep.engine_deductive(rep, enginep.ITER_CLASSES, heap_lemmas=False)
    # premise of the store-level contracts: only Variable.__init__/unify write a binding cell; everything else binds through iterators
    syntactic.no_direct_cell_writes(rep)
    from .. import lemmas
    fw.add_smt(rep, lemmas.prove_frame(), 'spec.L-SU-FRAME')
    fw.add_smt(rep, lemmas.specsync(24 if rep.tier == 'quick' else 200, rep.seed), 'spec.sync', 'sync')
    rep.lemmas.append('L-SU-FRAME: proved by induction over the definitions of su/sud/sum/sulk (4 obligations, SMT)')
    n = 60000 if rep.tier == 'quick' else 400000     # quick: the whole size-3 universe
    size = 3 if rep.tier == 'quick' else 4
    fw.standin(rep, 'real_terms.py', ['search', size, n, rep.seed], 'refutation search: real unify/unify_arrays/get_value vs spec mirror',
               'term pairs up to %d nodes, <=3 earlier active unifications, %d cases' % (size, n))
    fw.standin(rep, 'amgu.py', ['4' if rep.tier == 'quick' else '5', rep.seed], 'A-MGU: spec su vs independent Martelli-Montanari oracle',
               'all term pairs up to size 4/5 x stores of <=2 bindings')
    rep.assumptions += [A['A-MGU'], A['A-PY-EQ'], A['A-PY-ATTR'], A['A-PY-CLASSES'], A['A-PY-GEN'], A['A-REFCOUNT'],
                        A['ACYCLIC'], A['TERMINATION'], A['MATH-INT']]
    rep.trusted += [A['SOLVERS'], 'spec/terms.smt2 (specification of resolve/su, 120 lines)',
                    'L-SU-FRAME axiom (proved by induction in spec/lemmas_su.smt2)']
    rep.notes.append('every function of the unification family is verified against su/sum/sulk for all terms, all stores '
                     'and all exit modes (exhaustion, close, throw); A-MGU ties su to the textbook notion and is bounded')
