"""C20 - Python predicates are interchangeable with compiled ones."""
import os
from .. import framework as fw
from . import enginep, syntactic, templates

LEVEL = 'proof'


def run(rep):
    enginep.engine_deductive(rep, enginep.GEN_FUNS + ['engine.YP.register_function', 'engine.YP.evaluate_bounded'], heap_lemmas=False)
    # "a Python generator function that unifies its arguments": what such a function and a compiled clause have in common is the
    # unification family - verified against su (atoms equal by name whoever made them, C02's contracts)
    from .common import UNIFY_FAMILY
    fw.deductive(rep, [t for t in UNIFY_FAMILY if 'get_value' not in t], ['engine_terms'], ['terms.smt2'], timeout=25 if rep.tier == 'quick' else 60)
    syntactic.no_try_between_predicate_and_consumer(rep)
    syntactic.semidet_yield_constant(rep)
    templates.discipline_obligations(rep)
    q = rep.tier == 'quick'
    fw.standin(rep, 'difftest.py', ['run', 'F5', rep.seed, 5000 if q else 40000],
               'fact predicates re-implemented as registered Python generators vs compiled (answers equal, both vs reference)',
               'F1/F2 programs x random subsets of fact predicates swapped')
    if os.path.exists(os.path.join(fw.VERIF, 'standin', 's_c20.py')):
        fw.standin(rep, 's_c20.py', ['run', rep.seed, 1200 if q else 8000],
                   'registration styles, yield values, contexts (negation, if-then-else, cut, meta-calls, dynamic facts), argument objects, exception identity',
                   'F1-F3 programs x subsets x styles')
    rep.notes.append('modularity: every consumer of a predicate iterator is verified against the predicate contract only (an iterator '
                     'whose answers bind through unify and are finalised on close); proved on the real code: query delegates to '
                     'function(*args) with the caller\'s argument list (segment AFun(lookup, args)), no consumer branches on a yielded '
                     'value (interface.yielded_value_not_inspected is generated whenever the executor sees such a read; the only one, '
                     '`if cut` in _match_all_clauses, reads a semidet iterator of the unify family which yields the constant False), no '
                     'try lies between a predicate iterator and its consumer, emitted loops never read their loop variable')
