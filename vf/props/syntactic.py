"""Obligations decided on the real AST by syntactic / abstract checkers (no SMT): frame and discipline
conditions of the kind `no statement of this function writes X`.  Each is reported as an obligation with
back end `ast` and carries the offending node as witness when it fails."""
import ast

from ..pyvc import core


def _functions(modname):
    mod = core.module(modname)
    return mod, mod.functions


def no_direct_cell_writes(rep):
    """Only Variable.__init__ and Variable.unify write the binding cells (_is_bound/_value): every other function
    changes bindings through iterators only (premise (1) of the C03 meta-lemma)."""
    mod, fns = _functions('engine')
    allowed = {'Variable.__init__', 'Variable.unify'}
    for q, fn in fns.items():
        bad = None
        for n in core.walk_own(fn):
            if isinstance(n, ast.Attribute) and n.attr in ('_is_bound', '_value') and isinstance(n.ctx, (ast.Store, ast.Del)):
                bad = n
            if isinstance(n, ast.Call) and isinstance(n.func, ast.Name) and n.func.id in ('setattr', 'delattr'):
                bad = n
        ok = bad is None or q in allowed
        rep.add_checked('engine.%s.frame.no_binding_cell_write' % q, ok,
                        '' if ok else 'line %d: %s' % (bad.lineno, ast.unparse(bad)), 'ast', function='engine.' + q,
                        witness=None if ok else dict(line=bad.lineno, code=ast.unparse(bad)))


def template_discipline(rep):
    """Emitted code consists of for-loops over query()/unify() calls, flag assignments, yield, break, return, if:
    iterators are only ever the iterable of a for (ownership rule (i)), there is no try, no iterator is stored."""
    from . import templates
    templates.discipline_obligations(rep)


def no_try_between_predicate_and_consumer(rep):
    """C20 (iii): the consumers of predicate iterators contain no try statement, so an exception raised inside a
    predicate propagates to the consumer of the query unchanged."""
    mod, fns = _functions('engine')
    for q in ('YP.query', 'YP.call', 'YP.once', 'YP.findall', 'YP.builtin_neq', 'chain_functions', 'YP._match_all_clauses',
              'YP.retract', 'builtin_eq'):
        fn = fns.get(q)
        if fn is None:
            rep.add_checked('engine.%s.interface.no_try' % q, False, 'function not found', 'ast', function='engine.' + q)
            continue
        bad = [n for n in ast.walk(fn) if isinstance(n, (ast.Try, ast.With))]
        rep.add_checked('engine.%s.interface.no_try' % q, not bad, '' if not bad else 'line %d' % bad[0].lineno, 'ast',
                        function='engine.' + q, witness=None if not bad else dict(line=bad[0].lineno))


def semidet_yield_constant(rep):
    """the iterators of the unification family yield the constant False only (so `if cut:` in _match_all_clauses,
    the one place that reads a yielded value, can never take a value from a user predicate for a cut)"""
    mod, fns = _functions('engine')
    for q in ('Variable.unify', 'unify_arrays', 'builtin_eq', 'YPSuccess.__next__'):
        fn = fns.get(q)
        probs = []
        if fn is None:
            probs.append('function not found')
        else:
            for n in core.walk_own(fn):
                if isinstance(n, ast.Yield) and not (isinstance(n.value, ast.Constant) and n.value.value is False):
                    probs.append('line %d: yields %s' % (n.lineno, ast.unparse(n)))
                if q.endswith('__next__') and isinstance(n, ast.Return) and n.value is not None and \
                        not (isinstance(n.value, ast.Constant) and n.value.value is False):
                    probs.append('line %d: returns %s' % (n.lineno, ast.unparse(n)))
        rep.add_checked('engine.%s.interface.yields_constant_false' % q, not probs, '; '.join(probs), 'ast', function='engine.' + q,
                        witness=probs or None)


def caught_exceptions_do_not_escape(rep):
    """premise of A-TRACEBACK: an exception object caught by a handler is not stored or returned - its traceback would keep
    the unwound generator frames (and with them suspended bindings) alive after the handler has ended"""
    mod, fns = _functions('engine')
    for q, fn in fns.items():
        probs = []
        for h in [n for n in ast.walk(fn) if isinstance(n, ast.ExceptHandler) and n.name]:
            for n in ast.walk(h):
                if isinstance(n, ast.Name) and n.id == h.name and isinstance(n.ctx, ast.Load):
                    # allowed: `raise X(...) from e`, str(e)/repr(e) inside a raise
                    ok = False
                    for r in ast.walk(h):
                        if isinstance(r, ast.Raise) and (r.cause is n or (r.exc is not None and any(x is n for x in ast.walk(r.exc)))):
                            ok = True
                    if not ok:
                        probs.append('line %d: the caught exception %s is used outside a raise' % (n.lineno, h.name))
        if any(isinstance(n, ast.ExceptHandler) for n in ast.walk(fn)):
            rep.add_checked('engine.%s.frame.caught_exception_does_not_escape' % q, not probs, '; '.join(probs), 'ast', function='engine.' + q,
                            witness=probs or None)


# special methods that change what the operators and statements interpreted natively by the executor mean
# (`==`, `is`, `in`, truth value, len(), attribute access, indexing, calling, iteration, object creation)
_OVERLOADS = ('__eq__', '__ne__', '__hash__', '__bool__', '__len__', '__contains__', '__getattr__', '__getattribute__',
              '__setattr__', '__delattr__', '__lt__', '__le__', '__gt__', '__ge__', '__getitem__', '__setitem__', '__delitem__',
              '__call__', '__new__', '__init_subclass__', '__class_getitem__', '__iter__', '__next__', '__del__', '__slots__',
              '__set_name__', '__get__', '__set__', '__instancecheck__', '__subclasscheck__')
_ITER_OK = {'engine': {'YPSuccess': ('__iter__', '__next__'), 'YPFail': ('__iter__', '__next__')}}


def no_operator_overloading(rep, modname='engine'):
    """A-PY-CLASSES made an obligation: the classes of the module define none of the special methods that would change the meaning of
    the operators the verification conditions interpret natively (e.g. `clause in current` and `x == y` on engine objects are
    identity tests only as long as no class defines __eq__/__hash__/__contains__), have no decorator and no metaclass."""
    mod, _ = _functions(modname)
    for cname, cls in mod.classes.items():
        allowed = _ITER_OK.get(modname, {}).get(cname, ())
        bad = []
        for n in cls.body:
            names = []
            if isinstance(n, (ast.FunctionDef, ast.AsyncFunctionDef)):
                names = [n.name]
            elif isinstance(n, ast.Assign):
                names = [t.id for t in n.targets if isinstance(t, ast.Name)]
            elif isinstance(n, ast.AnnAssign) and isinstance(n.target, ast.Name):
                names = [n.target.id]
            for nm in names:
                if nm in _OVERLOADS and nm not in allowed:
                    bad.append('line %d: %s.%s' % (n.lineno, cname, nm))
        if cls.decorator_list:
            bad.append('line %d: decorator on class %s' % (cls.lineno, cname))
        if cls.keywords:
            bad.append('line %d: class keyword (metaclass) on %s' % (cls.lineno, cname))
        rep.add_checked('%s.%s.semantics.no_operator_overloading' % (modname, cname), not bad, '; '.join(bad), 'ast',
                        function='%s.%s' % (modname, cname), witness=None if not bad else dict(sites=bad))
    # functions of the module are what their def says: no decorator replaces them (functools caches, wrappers)
    for q, fn in mod.functions.items():
        decs = [ast.unparse(d) for d in fn.decorator_list if ast.unparse(d) not in ('staticmethod', 'classmethod', 'property', 'abstractmethod', 'abc.abstractmethod')]
        rep.add_checked('%s.%s.semantics.no_decorator' % (modname, q), not decs,
                        'decorated with ' + ', '.join(decs) if decs else '', 'ast', function='%s.%s' % (modname, q),
                        witness=None if not decs else dict(decorators=decs, line=fn.lineno))


OBSERVER_NAMES = ('get_value', 'to_python', 'name', '__str__', '__repr__')


def observers_write_nothing(rep):
    """C15: get_value / to_python (module functions and the methods of every term class) and the printing methods are observers:
    their result is a function of the term and the current bindings only, so they store into no object that outlives the call -
    no attribute or subscript store, no mutating call, no global; except on objects built in the same call (a fresh list, dict
    or instance held in a local)."""
    from . import compilerp
    mod, fns = _functions('engine')
    for q, fn in fns.items():
        if q.split('.')[-1] not in OBSERVER_NAMES:
            continue
        fresh = compilerp._fresh_locals(mod, fn, containers=True)
        probs = []
        for n in core.walk_own(fn):
            tgt = None
            if isinstance(n, (ast.Global, ast.Nonlocal)):
                probs.append('line %d: %s' % (n.lineno, ast.unparse(n)))
            elif isinstance(n, (ast.Attribute, ast.Subscript)) and isinstance(n.ctx, (ast.Store, ast.Del)):
                tgt = n
            elif isinstance(n, ast.Call) and isinstance(n.func, ast.Attribute) and n.func.attr in compilerp.MUTATORS:
                tgt = n.func.value
            elif isinstance(n, ast.Call) and isinstance(n.func, ast.Name) and n.func.id in ('setattr', 'delattr'):
                probs.append('line %d: %s' % (n.lineno, ast.unparse(n)[:60]))
            elif isinstance(n, ast.AugAssign) and isinstance(n.target, (ast.Attribute, ast.Subscript)):
                tgt = n.target
            if tgt is not None and not (isinstance(tgt, ast.Name) and tgt.id in fresh) \
                    and not (isinstance(tgt, (ast.Attribute, ast.Subscript)) and not compilerp._path_has_attribute(tgt)
                             and compilerp._base_name(tgt) in fresh) \
                    and not (compilerp._base_name(tgt) in fresh and isinstance(tgt, ast.Attribute) and isinstance(tgt.value, ast.Name)):
                probs.append('line %d: writes %s' % (n.lineno, ast.unparse(tgt)[:50]))
        rep.add_checked('engine.%s.frame.observer_writes_nothing' % q, not probs, '; '.join(probs), 'ast', function='engine.' + q,
                        witness=probs or None)
