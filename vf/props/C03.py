"""C03 - backtracking leaves no trace, however a query ends."""
import os
from .. import framework as fw
from . import enginep
from .common import UNIFY_FAMILY

LEVEL = 'proof'


def run(rep):
    # the unification family is verified in the plain term/store theory (smaller prelude: faster, more stable queries)
    fw.deductive(rep, [t for t in UNIFY_FAMILY if 'get_value' not in t], ['engine_terms'], ['terms.smt2'], timeout=25 if rep.tier == 'quick' else 60)
    enginep.engine_deductive(rep, enginep.GEN_FUNS + enginep.ITER_CLASSES + ['engine.Answer.match', 'engine.YP.evaluate_bounded'])
    from . import syntactic
    syntactic.no_direct_cell_writes(rep)
    syntactic.template_discipline(rep)
    from . import control
    control.text_deductive(rep)
    syntactic.caught_exceptions_do_not_escape(rep)
    q = rep.tier == 'quick'
    if os.path.exists(os.path.join(fw.VERIF, 'standin', 's_c03.py')):
        fw.standin(rep, 's_c03.py', ['run', rep.seed, 1000 if q else 6000],
                   'fault enumeration: programs x abandonment point k (close / drop / consumer exception / raising predicate)',
                   'F1/F2/F3 programs, every k in 0..#answers; all variables created during the run inspected')
    fin = [r for r in rep.obligations if '.exit.' in r['name'] or 'discipline' in r['name'] or 'finalised' in r['name']]
    rep.notes.append('%d finalisation obligations: the semidet unify family is proved at store level on all three continuations of every '
                     'yield (resume, close, throw): exit store = resume store with exactly the generator\'s own footprint reset; the '
                     'nondeterministic generators (query, call, once, findall, \\\\=, retract, _match_all_clauses) are proved to own their '
                     'iterators, to have only the lexically active ones suspended at every yield, and to have finalised all of them on '
                     'every exit (normal, close, throw, exception from a predicate); emitted code obeys the same discipline by template' % len(fin))
