"""C03 - backtracking leaves no trace, however a query ends."""
import os
from .. import framework as fw
from . import enginep
from .common import UNIFY_FAMILY

LEVEL = 'proof'


def run(rep):
    # the unification family is verified in the plain term/store theory (smaller prelude: faster, more stable queries)
    fw.deductive(rep, [t for t in UNIFY_FAMILY if 'get_value' not in t], ['engine_terms'], ['terms.smt2'], timeout=25 if rep.tier == 'quick' else 60)
    enginep.engine_deductive(rep, enginep.GEN_FUNS + enginep.ITER_CLASSES + ['engine.Answer.match', 'engine.YP.evaluate_bounded', 'engine.YP.match_dynamic'])
    from . import syntactic
    syntactic.no_direct_cell_writes(rep)
    syntactic.template_discipline(rep)
    from . import control
    control.text_deductive(rep)
    syntactic.caught_exceptions_do_not_escape(rep)
    q = rep.tier == 'quick'
    if os.path.exists(os.path.join(fw.VERIF, 'standin', 's_c03.py')):
        fw.standin(rep, 's_c03.py', ['run', rep.seed, 1000 if q else 6000],
                   'fault enumeration: programs x abandonment point k (close / drop / consumer exception / raising predicate)',
                   'F1/F2/F3 programs, every k in 0..#answers; all variables created during the run inspected')
    fw.standin(rep, 's_c03d.py', ['run', rep.seed, 0],
               'enumerations of dynamic facts abandoned after k answers (close / drop / throw / once) leave the engine as it was: every probe '
               'query answers as on a fresh engine with the same facts', '9 databases x 5 first queries x 4 ways x k <= 2 x 5 probes: exhaustive')
    # a query abandoned inside evaluate_bounded (depth limit, exception in the projection function) while the caller keeps the generator
    fw.standin(rep, 's_c17.py', ['run', rep.seed, 400 if q else 3000],
               'queries cut short inside evaluate_bounded (depth limit, projection raising at answer k) with the generator still referenced: '
               'no variable left bound, generator not left suspended', 'limits {60,100,200,400}; depth parameters up to 1000')
    fin = [r for r in rep.obligations if '.exit.' in r['name'] or 'discipline' in r['name'] or 'finalised' in r['name']]
    rep.notes.append('%d finalisation obligations: the semidet unify family is proved at store level on all three continuations of every '
                     'yield (resume, close, throw): exit store = resume store with exactly the generator\'s own footprint reset; the '
                     'nondeterministic generators (query, call, once, findall, \\\\=, retract, _match_all_clauses) are proved to own their '
                     'iterators, to have only the lexically active ones suspended at every yield, and to have finalised all of them on '
                     'every exit (normal, close, throw, exception from a predicate); emitted code obeys the same discipline by template' % len(fin))
