"""C10 - text outside the grammar is rejected, never partially compiled."""
from .. import framework as fw
from . import compilerp
from .common import A

LEVEL = 'proof'


def run(rep):
    compilerp.strict_parsing_obligations(rep)
    q = rep.tier == 'quick'
    fw.standin(rep, 'recog.py', ['run', 'accept', rep.seed, 12000 if q else 80000],
               'independent recogniser of L(prolog.g4) (Earley + descent, no ANTLR) vs the real compiler on grammar-derived programs and every '
               'single-edit corruption; accepted programs must define exactly the clause heads',
               'valid programs x corruptions (token deletion/insertion/duplication/swap, truncation, foreign characters, unterminated quote, trailing garbage)')
    rep.assumptions += [A['A-EXT-ANTLR']]
    rep.notes.append('typestate obligations proved on the real function body: lexer and parser error listeners are replaced by one whose '
                     'syntaxError is a single raise before program() runs, and the token after the parsed program must be EOF on every '
                     'path to the return. That ANTLR then accepts exactly the grammar is assumed (A-EXT-ANTLR) and bounded-checked against '
                     'the independent recogniser (which agreed with strict ANTLR on 151 000 texts when it was built)')
