CHECKS = {}     # pid -> dict(level, text, note, technique, ref)
NOT_APPLICABLE = {}


def check(pid, level, text, note, technique, ref):
    CHECKS[pid] = dict(level=level, text=text, note=note, technique=technique, ref=ref)


check('C02', 'proof',
      'Every function of the unification family in engine.py (get_value x4, unify, Atom/Functor/Variable.unify, unify_arrays, builtin_eq) is '
      'verified function by function against the specification su (textbook unification on dereferenced terms, no occurs check): yields at most '
      'once, yields iff su succeeds, store at the yield = su result, for all terms, all binding stores and all loop iterations. VCs are generated '
      'from the current source on every run. The step from su to "most general unifier" (A-MGU) is bounded-checked on the spec, not proved.',
      'Trusted: pyvc VC generator, SMT solvers, spec/terms.smt2, generator protocol (A-PY-GEN), A-MGU (bounded, spec-level), acyclic stores, partial correctness only.',
      'contract-based deductive verification: sidecar contracts + symbolic execution of the real AST to SMT VCs (z3/cvc5), loop invariants, generator calculus', 'DESIGN 5/C02')

_CTL_NOTE = ('Trusted: pyvc VC generator, SMT solvers, Lean kernel, spec/control.smt2 (source semantics semb taken from the property, target '
             'semantics semc of the intermediate YPCode tree, hand transcription of the Lean lemma statements). Assumed and only '
             'bounded-checked: A-CPY-TEXT (CPython executes the emitted for/if/break/return/yield text as semc says), A-EXT-ANTLR, A-REFCOUNT. '
             'Cuts inside if-conditions or under \\+ are outside the statement (precondition wfb). Partial correctness only.')
check('C05', 'proof',
      'compile_body (the only place where cut is compiled) is verified path by path - 20 paths, one obligation set per rewrite/emit case - against '
      'the control algebra: semc(result) == semb(body) for all sub-bodies, where semb(!) = seq(yield,cut) and a YieldBreak statement denotes cut; '
      'the algebraic lemmas are proved in Lean 4 (pure model and effect-threading model). The step from the YPCode tree to running Python '
      '(return ends exactly the clause function) is A-CPY-TEXT and is covered by the bounded differential run against a reference interpreter.',
      _CTL_NOTE, 'contract-based deductive verification of compile_body (symbolic execution of the real AST to SMT VCs over an uninterpreted '
      'behaviour algebra whose lemmas are proved in Lean) + bounded translation validation of the emitted text', 'DESIGN 5/C05')
check('C06', 'proof',
      'Same obligations as C05 for the disjunction / if-then-else / negation cases of compile_body: (A;B) = seq, (C->T;E) = ite via the breakable '
      'block lemma ite_block with label freshness from the counter contract, (C->T) = ite(C,T,fail), \\+G = ite(G,fail,yield); all rewrites '
      '((A,B),C; (A;B),C; (A->T;B),C; ...) are proved meaning-preserving for all sub-bodies. Precedence/associativity is a property of the ANTLR '
      'parser and is bounded-checked against an independent reader of prolog.g4.',
      _CTL_NOTE, 'contract-based deductive verification of compile_body + Lean lemma layer; bounded precedence/translation validation', 'DESIGN 5/C06')
check('C01', 'translation_validation',
      'Deductive part: compile_body (conjunction = nested loops = bind, i.e. left-to-right depth-first enumeration) verified for all bodies as in '
      'C05/C06. The clause-level functions (head unification order, aliasing of once-occurring head variables, fresh variable declarations, '
      'clause grouping) and the emitted text are decided by bounded translation validation: generated whole programs x queries on the real '
      'compiler+engine against an independent reference SLD interpreter (answers, order, multiplicity, aliasing).',
      _CTL_NOTE + ' STO cases (a head unification that builds a cyclic term) are excluded as unspecified.',
      'contract-based deductive verification of compile_body; bounded differential translation validation for the clause level', 'DESIGN 5/C01')
