CHECKS = {}     # pid -> dict(level, text, note, technique, ref)
NOT_APPLICABLE = {}


def check(pid, level, text, note, technique, ref):
    CHECKS[pid] = dict(level=level, text=text, note=note, technique=technique, ref=ref)


check('C02', 'proof',
      'Every function of the unification family in engine.py (get_value x4, unify, Atom/Functor/Variable.unify, unify_arrays, builtin_eq) is '
      'verified function by function against the specification su (textbook unification on dereferenced terms, no occurs check): yields at most '
      'once, yields iff su succeeds, store at the yield = su result, for all terms, all binding stores and all loop iterations. VCs are generated '
      'from the current source on every run. The step from su to "most general unifier" (A-MGU) is bounded-checked on the spec, not proved.',
      'Trusted: pyvc VC generator, SMT solvers, spec/terms.smt2, generator protocol (A-PY-GEN), A-MGU (bounded, spec-level), acyclic stores, partial correctness only.',
      'contract-based deductive verification: sidecar contracts + symbolic execution of the real AST to SMT VCs (z3/cvc5), loop invariants, generator calculus', 'DESIGN 5/C02')
