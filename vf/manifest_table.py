CHECKS = {}     # pid -> dict(level, text, note, technique, ref)
NOT_APPLICABLE = {}


def check(pid, level, text, note, technique, ref):
    CHECKS[pid] = dict(level=level, text=text, note=note, technique=technique, ref=ref)


check('C02', 'proof',
      'Every function of the unification family in engine.py (get_value x4, unify, Atom/Functor/Variable.unify, unify_arrays, builtin_eq) is '
      'verified function by function against the specification su (textbook unification on dereferenced terms, no occurs check): yields at most '
      'once, yields iff su succeeds, store at the yield = su result, for all terms, all binding stores and all loop iterations. VCs are generated '
      'from the current source on every run. The step from su to "most general unifier" (A-MGU) is bounded-checked on the spec, not proved.',
      'Trusted: pyvc VC generator, SMT solvers, spec/terms.smt2, generator protocol (A-PY-GEN), A-MGU (bounded, spec-level), acyclic stores, partial correctness only.',
      'contract-based deductive verification: sidecar contracts + symbolic execution of the real AST to SMT VCs (z3/cvc5), loop invariants, generator calculus', 'DESIGN 5/C02')

_CTL_NOTE = ('Trusted: pyvc VC generator, SMT solvers, Lean kernel, spec/control.smt2 (source semantics semb taken from the property, target '
             'semantics semc of the intermediate YPCode tree, hand transcription of the Lean lemma statements). Assumed and only '
             'bounded-checked: A-CPY-TEXT (CPython executes the emitted for/if/break/return/yield text as semc says), A-EXT-ANTLR, A-REFCOUNT. '
             'Cuts inside if-conditions or under \\+ are outside the statement (precondition wfb). Partial correctness only.')
check('C05', 'proof',
      'compile_body (the only place where cut is compiled) is verified path by path - 20 paths, one obligation set per rewrite/emit case - against '
      'the control algebra: semc(result) == semb(body) for all sub-bodies, where semb(!) = seq(yield,cut) and a YieldBreak statement denotes cut; '
      'the algebraic lemmas are proved in Lean 4 (pure model and effect-threading model). The step from the YPCode tree to running Python '
      '(return ends exactly the clause function) is A-CPY-TEXT and is covered by the bounded differential run against a reference interpreter. '
      'The visitor functions that build bodies (operator -> node, a source goal is never the internal $CUTIF marker) and the `variables` properties of '
      'the AST classes (every variable, also one only under a negation or in a branch, gets declared) are under contract as well.',
      _CTL_NOTE, 'contract-based deductive verification of compile_body (symbolic execution of the real AST to SMT VCs over an uninterpreted '
      'behaviour algebra whose lemmas are proved in Lean) + bounded translation validation of the emitted text', 'DESIGN 5/C05')
check('C06', 'proof',
      'Same obligations as C05 for the disjunction / if-then-else / negation cases of compile_body: (A;B) = seq, (C->T;E) = ite via the breakable '
      'block lemma ite_block with label freshness from the counter contract, (C->T) = ite(C,T,fail), \\+G = ite(G,fail,yield); all rewrites '
      '((A,B),C; (A;B),C; (A->T;B),C; ...) are proved meaning-preserving for all sub-bodies. visitPredicateexpression is verified against parse-tree '
      'datatypes (one constructor per grammar alternative): , -> ; \\+ map to conjunction / if-then / disjunction / negation, parentheses are '
      'transparent; the `variables` properties of the AST classes are verified. Precedence/associativity is a property of the ANTLR parser and is '
      'bounded-checked against an independent reader of prolog.g4.',
      _CTL_NOTE, 'contract-based deductive verification of compile_body + Lean lemma layer; bounded precedence/translation validation', 'DESIGN 5/C06')
check('C01', 'translation_validation',
      'Deductive part, function by function on the real code: the visitor from parse trees to the clause AST (visitTerm/Atom/Functor/Termlist/'
      'Termpredicate/Simplepredicate/Predicateexpression/Clause: every literal form denotes its term, `_` numbered left to right, so every `_` is '
      'a distinct variable), the `variables` properties of the AST classes, compile_body (conjunction = nested loops = left-to-right depth-first '
      'enumeration, as in C05/C06), the clause-level compiler functions (exactly the once-occurring plain head variables are aliased to argN, the '
      'others unified left to right around the body, one fresh declaration per further variable, terms become constructor calls), the constructor '
      'API, the engine functions a compiled clause calls (unify family, query, match_dynamic, Answer.match) and the code generator (text of '
      'every YPCode tree = its rendering). NOT composed into one end-to-end theorem, and what CPython makes of the rendered text is bounded '
      '(A-CPY-TEXT): the level stays translation_validation - generated whole programs x queries on the real '
      'compiler+engine against an independent reference SLD interpreter (answers, order, multiplicity, aliasing).',
      _CTL_NOTE + ' STO cases (a head unification that builds a cyclic term) are excluded as unspecified.',
      'contract-based deductive verification of the visitor, the clause compiler and the engine functions a clause calls; bounded differential translation validation for the whole pipeline', 'DESIGN 5/C01')

_ENG_NOTE = ('Trusted: pyvc VC generator and heap model (spec/heap.smt2), SMT solvers, assumed contracts of YP.atom/chain_functions/'
             'inspect.signature/exec/sys.setrecursionlimit, generator protocol (A-PY-GEN), prompt finalisation (A-REFCOUNT), rely condition at '
             'yields (environment uses the engine API only), A-RN-INV, partial correctness only. Bounded stand-ins are labelled bounded.')
_VC = 'contract-based deductive verification: sidecar contracts + symbolic execution of the real AST to SMT VCs (z3/cvc5)'
check('C03', 'proof',
      'Store level: every generator of the unification family is proved to leave, on each of the three continuations of each yield (resume, close, '
      'throw) and on failure, exactly the store it found minus its own footprint. Discipline level: query, call, once, findall, \\=, retract, '
      '_match_all_clauses, evaluate_bounded are proved to write no binding cell themselves, to have only their lexically active iterators suspended '
      'at every yield and to have finalised every iterator they own on every exit (normal, close, throw, exception raised by a predicate at any '
      'answer). Emitted code obeys the same discipline by template (iterators only as for-iterables). The step to "every variable is restored" is the '
      'meta-lemma of DESIGN 5/C03 (paper) under A-REFCOUNT.',
      _ENG_NOTE, _VC + '; generator calculus with three continuations per yield; AST template obligations; bounded abandonment enumeration', 'DESIGN 5/C03')
check('C04', 'proof',
      'Frame obligations for every function of the four modules, decided on the real AST: no global statement, no store or mutating call through a '
      'module-level name, module and class bodies hold only definitions and immutable constants, mutable defaults/module objects never mutated, '
      'per-instance state created from fresh displays in __init__/clear, scripts executed in a copy of the instance context; no engine function '
      'writes through an attribute of an object other than self or one it has just built (terms and atoms may be shared between engines), the public '
      'API does not change its arguments in place, the atom table is private to atom() (verified against the table), query keeps no per-engine '
      'bookkeeping, and evaluate_bounded puts the interpreter-wide limit back on every exit edge. Non-interference then '
      'follows from the frame rule (paper). Threads are not modelled.',
      'Trusted: the AST frame checker (vf/props/compilerp.py), A-PY-ATTR (no monkey-patching). The thread clause rests on the GIL and is only exercised by a bounded two-thread run.',
      'frame/ownership contracts checked on the real AST (modifies-sets), plus bounded two-engine interleaving exploration', 'DESIGN 5/C04')
check('C07', 'proof',
      'assert_fact, asserta, assertz, retract, retractall, _clauses, _update_predicate, _find_predicates, match_dynamic, _match_all_clauses and the '
      'copy functions are verified against a heap model of the database (key -> list reference -> sequence of facts): assert publishes old++[copy] '
      '(resp. [copy]++old) as a new list and changes nothing else; retractall publishes exactly the non-matching facts (loop invariant sfilter); each '
      'answer of retract publishes current minus the matched, still present fact; enumeration follows list order to exhaustion; unknown keys are '
      'empty; non-callable arguments raise YPException; query enumerates the facts before any definition; the assert/retract builtins are registered '
      'under the keys compiled code uses (_set_builtin_predicates). clear() is covered by bounded histories.',
      _ENG_NOTE, _VC + ' with a heap model and loop invariants; bounded database histories vs a list model', 'DESIGN 5/C07')
check('C08', 'proof',
      'YP.query is verified to enumerate the facts of name/len(args) read at its start, then - unless the name is an API name - the function stored '
      'under name_<n>, else name_n, looked up after the facts (late binding), called with the caller\'s argument list; register_function writes exactly '
      'the one key; load_script_from_string is verified with a loop invariant over the keys of the executed context (overwrite replaces, combine '
      'chains old before new, other keys untouched, engine unchanged if compile/exec raises); key strings are injective (SMT strings); '
      '_set_builtin_predicates registers every documented builtin under its key (call variadic).',
      _ENG_NOTE, _VC + '; string-theory obligations for key naming; bounded register/load/assert/clear histories', 'DESIGN 5/C08')
check('C09', 'proof',
      'call, once, findall, builtin_neq and builtin_eq are verified: call delegates to query(name of the dereferenced goal, its args ++ extra) for atom, '
      'compound and run-time bound goals and raises only for non-callable goals; once yields at most the first answer of call(goal) and ends quietly '
      'when there is none; findall yields once iff the bag unifies with makelist of the collected copies, after the goal iterator is exhausted; \\= '
      'yields once with no iterator suspended iff query(=) has no answer; = is su (C02); _set_builtin_predicates registers call for every arity '
      '(call_n), once_1, findall_3, =_2, \\=_2. Inline goals reach the builtins through compile_body/compile_predicate (one query(name, args) '
      'loop per goal), which are verified here as in C01; the unification family and the copy functions (findall instances are fresh copies) '
      'are part of the check.',
      _ENG_NOTE, _VC + '; bounded differential runs of meta-call programs', 'DESIGN 5/C09')
check('C10', 'proof',
      'Typestate obligations proved on the real body of _compile_prolog_from_stream: lexer and parser get an error listener whose syntaxError is a '
      'single raise before program() runs, and the token after the parsed program must be EOF on every path to the return; main turns CompilerError '
      'into a CLI error; the character stream handed to the lexer is built from the caller\'s text itself. That ANTLR then recognises exactly '
      'L(prolog.g4) is assumed and bounded-checked against an independent recogniser.',
      'Assumed: A-EXT-ANTLR. Trusted: the typestate checker (AST), the independent recogniser standin/g4reader.py.',
      'typestate contract on the ANTLR objects checked on the real AST; bounded differential against an independent grammar recogniser', 'DESIGN 5/C10')
check('C11', 'proof',
      'Lexical sinks verified with SMT strings on the real visitor code (emitted variable names are identifiers distinct from reserved, engine and '
      'generated names; renaming injective; head names match the identifier pattern; numerals emitted as str(int(text))), provenance and template '
      'obligations on the generator AST; visitClause verified (the head of every accepted clause is an ordinary goal whose name matches the identifier '
      'pattern: the Python regular expression is translated to an SMT regular language); nesting_depth, compile_expression/compile_list bracket depth '
      'and the CompilerError guard of compile_function_body verified; compile_program/compile_function (one function per dictionary key), '
      'visitProgram (keys = clause heads) and the code generator (the emitted text is the rendering of spec/render.smt2: def name_<arity>(arg1..argN)) '
      'verified; the engine half (load_script_from_string installs every key of the executed text, query looks the key up at call time) is '
      'verified too. The shape of the whole output (parses, one generator def '
      'per clause-head key, loads) is decided by bounded stand-ins modulo A-PYGRAMMAR.',
      'Assumed: A-PYGRAMMAR, A-CPY-LIMITS, A-PY-STR (incl. str(n) is a decimal literal), A-EXT-ANTLR token rules. Trusted: AST checkers, SMT string solvers.',
      _VC + ' with the SMT string theory; AST provenance/template obligations; bounded boundary-program loading', 'DESIGN 5/C11')
check('C12', 'proof',
      'Provenance: every read of source-derived text in the compiler flows into a lexical sink (repr literal, integer literal, checked identifier); '
      'names of called functions in emitted code are compiler literals; the $CUTIF marker is rejected in source for every arity (visitTermpredicate '
      'verified: an accepted goal is never read by compile_body as its internal marker); variables cannot capture engine names '
      '(visitVARIABLE contract) and every variable of a clause is declared before it is read (variables properties + compile_function_body); the '
      'script context is a per-instance copy with empty __builtins__; YP.query refuses API names for definitions and call/once/findall/\\= run '
      'their goal through query.',
      'Assumed: A-CPY-REPR, A-PYGRAMMAR, A-EXT-EXEC. Trusted: AST checkers, SMT string solvers.',
      'taint/provenance obligations on the real AST + string-theory contracts on the sinks; bounded hostile-atom corpus', 'DESIGN 5/C12')
check('C13', 'proof',
      '_copy_term/copy_terms are verified against the specification fresh_copy (resolve, then rename every unbound variable consistently to a new id); '
      'assert_fact stores a fresh copy, Answer.match unifies with a fresh copy per use; L-RN-FRESH (proved by induction): a fresh copy contains only '
      'variables that did not exist before, so facts share no cell with callers or with each other. An exhaustive small-scope stand-in covers '
      'facts that differ only in their variable-sharing pattern and asserted variables that are themselves products of a copy.',
      _ENG_NOTE, _VC + ' with spec-level induction lemmas; bounded differential runs', 'DESIGN 5/C13')
check('C14', 'proof',
      'Ownership obligations on every list mutation in the database functions (only unpublished lists are mutated in place); under the rely condition '
      'an enumeration is proved to iterate the list object it read at its start with unchanged contents; a suspended retract removes a fact only if '
      'it is still present in the current list and publishes current minus that fact, so concurrent additions survive and nothing is returned twice. '
      'Termination of update loops follows from the finite snapshot (not machine-checked).',
      _ENG_NOTE, _VC + ' with ownership (published-set) ghost state and rely/guarantee at yields; bounded interleaving histories', 'DESIGN 5/C14')
check('C15', 'proof',
      'get_value (module function and the three methods) is verified to return resolve(t, store), the fully dereferenced term, for every store; '
      'Variable.unify stores the resolved value; findall and assert_fact export fresh copies of resolved terms; to_python (function and three methods) '
      'is verified against the value specification topy (dereferences at every depth); the observers write nothing (frame obligation), so their '
      'result depends on the term and the current bindings only.',
      _ENG_NOTE, _VC + '; bounded binding-history exploration for to_python and value stability', 'DESIGN 5/C15')
check('C16', 'proof',
      'unquoteString verified with a loop invariant in the SMT string theory (result = text between the quotes with every backslash removed); `_` '
      'numbering verified (visitVARIABLE); atoms unify by name (Atom.unify against su); the visitor maps every term alternative of the grammar to the '
      'term it denotes (visitTerm/Atom/Functor/Termlist against parse-tree datatypes); compile_expression/compile_list emit the constructor calls '
      'cexpr(t) and L-LITERAL (by induction) shows they build the denoted term; the constructor API functor/functor1-3/listpair/variable/makelist and '
      'to_python are verified against their specifications. The emitted text (repr of strings, A-CPY-REPR) and the whole round trip are decided by the '
      'bounded stand-in (random Unicode literals in four positions, independent renderer).',
      'Assumed: A-EXT-ANTLR (token texts, tree shape), A-CPY-REPR, A-EXT-REDUCE (functools.reduce is a fold).',
      _VC + ' (string loop invariant); bounded literal round-trip translation validation', 'DESIGN 5/C16')
check('C17', 'proof',
      'evaluate_bounded is verified for all queries and projection functions: the recursion limit equals its entry value on every exit edge (normal '
      'and exceptional), RecursionError never escapes (setrecursionlimit may itself raise: modelled), the result holds one projected value per '
      'consumed answer in order, and the query iterator is never left suspended. "All variables unbound again" rests on the finalisation contracts '
      'of C03, which are part of this check (every unification generator resets exactly its own cells on resume, close and throw; engine generators '
      'finalise their iterators; only Variable.unify writes a binding cell). Where the depth limit strikes is CPython behaviour (bounded only).',
      _ENG_NOTE, _VC + ' with exceptional control-flow edges (try/except/finally); bounded fault enumeration', 'DESIGN 5/C17')
check('C18', 'proof',
      'Self-composition by congruence, decided on the real AST: no function reachable from the compile entry points uses a choice primitive '
      '(iteration over sets, hash, id, random, time, environment) or reads module-/class-level mutable state; all stateful objects and counters are '
      'created per call; the returned text is the code generator\'s result and nothing else; no function is wrapped by a state-holding decorator and '
      'none stores into the caller\'s options object; only modules whose '
      'functions are functions of their arguments are imported (no cache such as linecache, no clock, no file-system lookups). Debug streams (not the '
      'returned text) print object addresses and are outside the statement.',
      'Assumed: ANTLR runtime deterministic, dict insertion order, str/list primitives functional. Trusted: the AST checker.',
      'determinism contracts (no choice primitive, frame conditions) checked on the real AST; bounded hash-seed/process differential', 'DESIGN 5/C18')
check('C19', 'proof',
      'Non-interference of the debug flags decided on the real AST: the flags are read only in the guards of the _debug methods (which write "# "+line '
      'per line), the visitor constructor and the header choice (comment text in both alternatives); debug arguments and __str__ methods are '
      'effect-free; the tracing wrapper returns the wrapped result; CLI and library share _compile_prolog_from_stream and UTF-8 decoding; the stream '
      'main writes to comes from an opener that hands out only sys.stdout or open(<parameter>, \'w\'); syntax '
      'errors become CLI errors with position.',
      'Assumed: A-EXT-CLICK, str.splitlines (A-PY-STR). Trusted: the AST checker.',
      'information-flow (taint) contracts on the debug flags checked on the real AST; bounded CLI-vs-library differential', 'DESIGN 5/C19')
check('C20', 'proof',
      'Modularity made explicit: every consumer of a predicate iterator (query, call, once, findall, \\=, evaluate_bounded, emitted loops) is verified '
      'against the predicate contract only. Proved on the real code: query calls function(*args) with the caller\'s argument list, no consumer '
      'branches on a yielded value, the unify family yields the constant False, no try statement lies between a predicate iterator and its consumer, '
      'emitted loops never read their loop variable, register_function writes the documented key.',
      _ENG_NOTE, _VC + '; interface (no-inspection, no-try) obligations on the AST; bounded native/compiled swap differential', 'DESIGN 5/C20')
