"""Shared machinery of the checks: deductive runs, bounded stand-ins, verdicts, evidence."""
import hashlib
import json
import os
import subprocess
import sys
import time

from . import smt
from .pyvc import core, run as pyrun
from .pyvc.core import Obligation

VERIF = os.path.dirname(os.path.dirname(os.path.abspath(__file__)))
REPO = os.environ.get('YLD_REPO', '/repo')
VENV_PY = '/venv/bin/python'
BASELINE_FILE = os.path.join(VERIF, 'baseline_obligations.json')
KNOWN_FILE = os.path.join(VERIF, 'known_findings.json')


def load_json(path, default):
    try:
        with open(path) as f:
            return json.load(f)
    except FileNotFoundError:
        return default


class Report:
    def __init__(self, pid, tier, seed):
        self.pid = pid
        self.tier = tier
        self.seed = seed
        self.t0 = time.time()
        self.functions = []        # per function under contract
        self.used_contracts = set()   # callee contracts applied at call sites of the verified functions
        self.inlined = set()          # helpers without contract executed in place
        self.bindings = {}         # function -> binding-site names (recorded in the baseline: renamed locals keep their contracts)
        self.obligations = []      # per obligation result
        self.undecided = []        # strings
        self.violations = []       # dicts: obligation, scenario, detail, standin
        self.standins = []         # dicts (bounded, never counted as proved)
        self.assumptions = []
        self.trusted = []
        self.lemmas = []
        self.notes = []
        self.samples = []
        self.solver_seconds = 0.0
        self.by_solver = {}
        self.canaries = dict(total=0, live=0)
        self.dropped = []
        self.syntactic = []        # obligations decided by the syntactic/abstract checkers

    # -- deductive part ------------------------------------------------------------------
    def add_deductive(self, gens, results, canary_results=None):
        for g in gens:
            self.functions.append(dict(name=g['name'], obligations=len(g['obls']), paths=g['paths'],
                                       hash=g['hash'], error=g['error']))
            self.bindings[g['name']] = g.get('bindings')
            self.used_contracts.update(g.get('used') or [])
            self.inlined.update(g.get('inlined') or [])
            self.dropped.extend(g['dropped'])
            if g['error']:
                self.undecided.append('%s: out of subset: %s' % (g['name'], g['error']))
            elif not g['obls']:
                self.undecided.append('%s: zero obligations generated (vacuous)' % g['name'])
        for r in results:
            self.obligations.append(r)
            self.solver_seconds += r['seconds']
            if r['verdict'] == 'unsat':
                self.by_solver[r['solver']] = self.by_solver.get(r['solver'], 0) + 1

    def add_checked(self, name, ok, detail='', backend='syntactic', function=None, witness=None):
        """an obligation decided by a non-SMT back end (AST/abstract-parse checker)"""
        r = dict(name=name, verdict='unsat' if ok else 'sat', solver=backend, seconds=0.0, tried=[],
                 output=detail, function=function or name.rsplit('.', 1)[0], kind='syntactic', smt='',
                 witness=witness)
        self.obligations.append(r)
        if ok:
            self.by_solver[backend] = self.by_solver.get(backend, 0) + 1
        return ok


def deductive(report, targets, contract_mods, preludes, theory=None, timeout=None, extra_obls=None):
    """targets: list of 'module.qualname'. Generates VCs from the CURRENT /repo tree, discharges them."""
    sys.path.insert(0, VERIF)
    reg = pyrun.load_contracts(*contract_mods)
    timeout = timeout or (10 if report.tier == 'quick' else 40)
    gens = []
    for t in targets:
        modname, qual = t.split('.', 1)
        th = theory() if theory else None
        gens.append(pyrun.gen_function(modname, qual, reg, theory=th))
    pre = pyrun.prelude(*preludes)
    results = pyrun.discharge(gens, pre, timeout=timeout)
    # retry undischarged obligations once with a larger budget (solver instability is not a verdict). On unchanged
    # code (AST hash equals the baseline) the full portfolio gets 4x the time; on changed code one more solver run at 2x.
    baseline = load_json(BASELINE_FILE, {})
    hashes = {g['name']: g['hash'] for g in gens}
    retry = [i for i, r in enumerate(results) if r['verdict'] == 'unknown']
    same = [i for i in retry if baseline.get(results[i]['function'], {}).get('hash') == hashes.get(results[i]['function'])]
    changed = [i for i in retry if i not in same]
    for group, tmo, solv in ((same[:32], timeout * 4, None), (changed[:16], timeout * 2, ['cvc5', 'z3-new'])):
        if not group:
            continue
        again = smt.run_many([(results[i]['name'], results[i]['smt']) for i in group], timeout=tmo, solvers=solv)
        for i, r2 in zip(group, again):
            if r2['verdict'] != 'unknown':
                results[i].update(verdict=r2['verdict'], solver=r2['solver'], output=r2['output'])
            results[i]['seconds'] += r2['seconds']
            results[i]['tried'] = results[i]['tried'] + r2['tried']
    # last resort on unchanged code only: what is still open was discharged when the baseline was recorded; give it the machine
    # (a few jobs at a time, 10x the budget) before reporting "undecided" - a loaded host must not turn into a verdict
    still = [i for i in same if results[i]['verdict'] == 'unknown'
             and baseline.get(results[i]['function'], {}).get('obligations', {}).get(results[i]['name']) == 'unsat'][:12]
    if still:
        again = smt.run_many([(results[i]['name'], results[i]['smt']) for i in still], timeout=timeout * 10, jobs=3)
        for i, r2 in zip(still, again):
            if r2['verdict'] != 'unknown':
                results[i].update(verdict=r2['verdict'], solver=r2['solver'], output=r2['output'])
            results[i]['seconds'] += r2['seconds']
            results[i]['tried'] = results[i]['tried'] + r2['tried']
    report.add_deductive(gens, results)
    # vacuity guard: a must-fail canary behind the path conditions of each function
    canaries = []
    for g in gens:
        paths = {}
        for o in g['obls']:
            paths.setdefault(tuple(o.pc), o)
        chosen = list(paths.values())
        if len(chosen) > 3:
            chosen = [chosen[0], chosen[len(chosen) // 2], chosen[-1]]
        for o in chosen:
            c = Obligation(o.name + '.canary', o.pc, 'false', 'canary')
            canaries.append((g['name'], c.name, c.smt(pre, g['decls'])))
    cres = smt.run_many([(n, t) for _, n, t in canaries], timeout=2, solvers=['z3-new'])
    live = {}
    for (fn, n, _), r in zip(canaries, cres):
        report.canaries['total'] += 1
        if r['verdict'] != 'unsat':
            report.canaries['live'] += 1
            live[fn] = True
        else:
            live.setdefault(fn, False)
    for fn, ok in live.items():
        if not ok:
            report.undecided.append('%s: every sampled path condition is contradictory (vacuous contract)' % fn)
    return gens, results


def add_smt(report, results, function, kind='lemma'):
    """obligations that are not generated from /repo code (spec-level lemmas, ground sync checks)"""
    for r in results:
        r = dict(r)
        r.setdefault('smt', '')
        r['function'] = function
        r['kind'] = kind
        report.obligations.append(r)
        report.solver_seconds += r['seconds']
        if r['verdict'] == 'unsat':
            report.by_solver[r['solver']] = report.by_solver.get(r['solver'], 0) + 1


def standin(report, script, args, label, bound, timeout=600, env=None):
    """Run a bounded stand-in on the real code under /venv/bin/python. Never counted as proved."""
    e = dict(os.environ)
    e['YLD_REPO_SRC'] = core.REPO_SRC
    e['PYTHONPATH'] = core.REPO_SRC + os.pathsep + os.path.join(VERIF, 'standin')
    e['PYTHONHASHSEED'] = e.get('PYTHONHASHSEED', '0')
    if env:
        e.update(env)
    scale = os.environ.get('VF_STANDIN_SCALE')
    if scale:
        # maintenance runs over many trees (tools/seedrun.py harmless): the case counts of the bounded drivers are scaled down; the
        # obligations - where a behaviour-preserving rewrite could raise a false alarm - are not affected.  Never set by MANIFEST commands.
        args = [max(60, int(a * float(scale))) if isinstance(a, int) and not isinstance(a, bool) and a >= 200 and i > 0
                and not (i == 1 and len(args) > 2 and isinstance(args[2], int) and args[0] == 'run' and a == report.seed) else a
                for i, a in enumerate(args)]
    t0 = time.time()
    cmd = [VENV_PY, os.path.join(VERIF, 'standin', script)] + [str(a) for a in args]
    try:
        p = subprocess.run(cmd, capture_output=True, text=True, timeout=timeout, env=e, cwd=VERIF)
        out = p.stdout
        data = json.loads(out[out.index('{'):]) if '{' in out else None
        err = p.stderr[-2000:] if p.returncode not in (0, 1) or data is None else ''
    except subprocess.TimeoutExpired:
        data, err = None, 'timeout after %ds' % timeout
    rec = dict(label=label, script=script, args=[str(a) for a in args], bound=bound, seconds=round(time.time() - t0, 2),
               level='bounded', evaluations=0, distinct_nontrivial=0, failures=[], error=err)
    if data is None:
        report.undecided.append('stand-in %s did not produce a result: %s' % (label, err[:300]))
    else:
        rec['evaluations'] = data.get('evaluations', 0)
        rec['distinct_nontrivial'] = data.get('distinct_nontrivial', 0)
        rec['rule'] = data.get('rule', '')
        rec['failures'] = data.get('failures', [])
        rec['samples'] = data.get('samples', [])[:4]
        rec['extra'] = {k: v for k, v in data.items() if k not in ('failures', 'samples', 'rule', 'evaluations', 'distinct_nontrivial')}
    report.standins.append(rec)
    return rec


# -------------------------------------------------------------------------------------------
def fingerprint(v):
    return hashlib.sha1(json.dumps(v, sort_keys=True, default=str).encode()).hexdigest()[:12]


def _by_kind(obls):
    out = {}
    for r in obls:
        k = r.get('kind') or 'smt'
        out[k] = out.get(k, 0) + 1
    return out


def finalise(report, level, level_checker_cmd):
    """Decide the exit code, print VIOLATION / KNOWN-FINDING lines, write the evidence file."""
    pid = report.pid
    known = load_json(KNOWN_FILE, {'findings': []})['findings']
    baseline = load_json(BASELINE_FILE, {})
    os.makedirs(os.path.join(VERIF, 'replays'), exist_ok=True)
    evdir = os.environ.get('VF_EVIDENCE_DIR') or os.path.join(VERIF, 'evidence')   # seeded-defect runs write elsewhere
    os.makedirs(evdir, exist_ok=True)
    lines = []
    violations = []
    undecided = list(report.undecided)

    fn_hash = {f['name']: f['hash'] for f in report.functions}
    # 1. stand-in failures are concrete failing inputs on the real code
    for s in report.standins:
        for f in s['failures']:
            violations.append(dict(kind='input', source=s['label'], script=s['script'], scenario=f.get('scenario', f),
                                   detail=f.get('detail', ''), obligation=f.get('obligation')))
    # 2. undischarged obligations
    failed = [r for r in report.obligations if r['verdict'] != 'unsat']
    have_input = bool(violations)
    # a function whose translation stopped at a construct outside the verified subset is only partly encoded: what its paths so far
    # could not prove is not a verdict about the code (a failed proof is "undecided"); AST obligations do not depend on the translation
    left_subset = {f['name'] for f in report.functions if f.get('error')}
    for r in failed:
        if r['function'] in left_subset and r.get('kind') != 'syntactic':
            undecided.append('%s: not discharged, but %s left the verified subset (partly encoded): undecided' % (r['name'], r['function']))
            continue
        base = baseline.get(r['function'], {})
        same_code = base.get('hash') is not None and base.get('hash') == fn_hash.get(r['function'])
        was_ok = base.get('obligations', {}).get(r['name']) == 'unsat'
        if r['verdict'] == 'unknown' and same_code and was_ok:
            undecided.append('%s: solver gave no answer on unchanged code (baseline: discharged)' % r['name'])
            continue
        violations.append(dict(kind='obligation', obligation=r['name'], verdict=r['verdict'], solver_output=r['output'][:1500],
                               tried=r['tried'], smt=r.get('smt', ''), witness=r.get('witness'),
                               detail='obligation not discharged (%s)' % r['verdict']))
    # 3. match against known findings
    reported = []
    for v in violations:
        kf = None
        for k in known:
            if k.get('status') != 'known' or k['property'] != pid:
                continue
            if k.get('match_obligation') and v.get('obligation') and k['match_obligation'] in v['obligation']:
                kf = k
            if k.get('match_detail') and k['match_detail'] in (v.get('detail') or ''):
                kf = k
            if k.get('match_scenario') and v.get('scenario') is not None and \
                    k['match_scenario'] in json.dumps(v['scenario'], sort_keys=True):
                kf = k
        if kf:
            line = 'KNOWN-FINDING: property=%s %s' % (pid, kf['what'])
            if line not in lines:
                lines.append(line)
        else:
            reported.append(v)
    # obligations failures that are explained by a concrete input of the same run are merged
    out_violations = []
    inputs = [v for v in reported if v['kind'] == 'input']
    obls = [v for v in reported if v['kind'] == 'obligation']
    n = 0
    for v in inputs[:5]:
        n += 1
        path = os.path.join(VERIF, 'replays', '%s_%s.json' % (pid, fingerprint(v['scenario'])))
        with open(path, 'w') as f:
            json.dump(dict(property=pid, kind='input', script=v['script'], scenario=v['scenario'], detail=v['detail'],
                           failed_obligations=[o['obligation'] for o in obls][:20]), f, indent=1, default=str)
        # the failing input comes from a bounded driver; when the deductive part failed too, the first failed obligation is named
        lines.append('VIOLATION property=%s replay=%s%s' % (pid, path, (' obligation=%s' % obls[0]['obligation']) if obls else ''))
        out_violations.append(v)
    if not inputs:
        for v in obls[:5]:
            path = os.path.join(VERIF, 'replays', '%s_%s.json' % (pid, fingerprint(v['obligation'])))
            with open(path, 'w') as f:
                json.dump(dict(property=pid, kind='obligation', obligation=v['obligation'], verdict=v['verdict'],
                               solver_output=v['solver_output'], tried=v['tried'], witness=v.get('witness'), smt=v['smt']),
                          f, indent=1, default=str)
            # no concrete failing INPUT comes with an obligation (an AST obligation has the offending node as witness: in the replay file)
            tail = ' no-failing-input-found'
            lines.append('VIOLATION property=%s replay=%s obligation=%s%s' % (pid, path, v['obligation'], tail))
            out_violations.append(v)
    nviol = len(inputs) + (0 if inputs else len(obls))

    total = len(report.obligations)
    disch = sum(1 for r in report.obligations if r['verdict'] == 'unsat')
    if nviol:
        code = 1
    elif undecided:
        code = 2
    else:
        code = 0
    ev = dict(
        property_id=pid, tier=report.tier, seed=report.seed, level=level,
        coverage=dict(
            obligations=total, discharged=disch,
            checker_cmd=level_checker_cmd,
            trusted_base=report.trusted,
            functions_under_contract=report.functions,
            by_backend=report.by_solver, solver_seconds=round(report.solver_seconds, 2),
            by_kind=_by_kind(report.obligations),
            modules_read=sorted(core._modules),
            callee_contracts_relied_on_but_not_verified_in_this_check=sorted(
                report.used_contracts - {f['name'] for f in report.functions}),
            helpers_inlined=sorted(report.inlined),
            canaries=report.canaries,
            statements_dropped_by_extraction=sorted(set(report.dropped)),
            lemmas=report.lemmas,
            bounded_standins=[{k: v for k, v in s.items() if k != 'failures'} | {'failures': len(s['failures'])}
                              for s in report.standins],
            programs=max(1, sum(s['evaluations'] for s in report.standins)),
            disagreements_checked=sum(len(s['failures']) for s in report.standins),
            evaluations=max(1, sum(s['evaluations'] for s in report.standins) or total),
            distinct_nontrivial=max(2, sum(s['distinct_nontrivial'] for s in report.standins) or disch),
            rule='obligations are generated from the current /repo sources by vf/pyvc; stand-in cases per their own rule',
            samples=(report.samples or [dict(obligation=r['name'], verdict=r['verdict'], backend=r['solver'])
                                        for r in report.obligations[:: max(1, total // 5)][:6]])
                    + [s for st in report.standins for s in st.get('samples', [])[:1]],
            undecided=undecided, notes=report.notes,
            explanation='; '.join(report.notes) or 'see DESIGN.md',
        ),
        assumptions=report.assumptions,
        wall_s=round(time.time() - report.t0, 2),
        violations=nviol,
    )
    with open(os.path.join(evdir, '%s.json' % pid), 'w') as f:
        json.dump(ev, f, indent=1, default=str)
    if os.environ.get('VF_SLOW'):
        for r in sorted(report.obligations, key=lambda r: -r['seconds'])[:8]:
            print('SLOW %.1fs %s %s' % (r['seconds'], r['name'], r['tried']))
        for s_ in report.standins:
            print('STANDIN %.1fs %s' % (s_['seconds'], s_['label'][:60]))
    for u in undecided:
        print('UNDECIDED: property=%s %s' % (pid, u))
    for ln in lines:
        print(ln)
    print('%s: tier=%s obligations=%d discharged=%d standin_cases=%d violations=%d undecided=%d wall=%.1fs exit=%d'
          % (pid, report.tier, total, disch, sum(s['evaluations'] for s in report.standins), nviol, len(undecided),
             time.time() - report.t0, code))
    return code


def write_baseline(reports):
    base = load_json(BASELINE_FILE, {})
    for rep in reports:
        for f in rep.functions:
            base.setdefault(f['name'], {})
            base[f['name']].update(hash=f['hash'])
            if rep.bindings.get(f['name']) is not None:
                base[f['name']]['bindings'] = rep.bindings[f['name']]
            base[f['name']].setdefault('obligations', {})
            base[f['name']].setdefault('solver', {})
        for r in rep.obligations:
            base.setdefault(r['function'], dict(hash=None, obligations={}, solver={}))
            base[r['function']].setdefault('obligations', {})[r['name']] = r['verdict']
            if r['verdict'] == 'unsat' and r['solver'] in ('z3-new', 'cvc5', 'z3-4.8'):
                base[r['function']].setdefault('solver', {})[r['name']] = r['solver']
    with open(BASELINE_FILE, 'w') as f:
        json.dump(base, f, indent=0, sort_keys=True)
