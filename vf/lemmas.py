"""Spec-level lemmas about the specification functions themselves (code-independent, DESIGN 3.2).

L-SU-FRAME: unification only binds unbound cells.  Proved by induction on the recursion of the
mutually recursive definitions su/sud/sum/sulk in spec/terms.smt2: the text of the definition block
is re-read on every run, the recursive calls inside the bodies are replaced by uninterpreted
functions that satisfy the lemma (induction hypothesis), and the lemma is proved for every body.
Sound for terminating evaluations (acyclic stores), like every other modular recursion argument here.
"""
import os
import re

from . import smt

SPEC = os.path.join(os.path.dirname(os.path.dirname(os.path.abspath(__file__))), 'spec', 'terms.smt2')
FUNS = ['su', 'sud', 'sum', 'sulk']


def _block(text, marker):
    i = text.index(marker)
    depth = 0
    for j in range(i, len(text)):
        if text[j] == '(':
            depth += 1
        elif text[j] == ')':
            depth -= 1
            if depth == 0:
                return i, j + 1
    raise ValueError('unbalanced')


def _sexps(s):
    """split top-level s-expressions of string s"""
    out, depth, start = [], 0, None
    for i, ch in enumerate(s):
        if ch == '(':
            if depth == 0:
                start = i
            depth += 1
        elif ch == ')':
            depth -= 1
            if depth == 0:
                out.append(s[start:i + 1])
    return out


def _sig(sig):
    sig = sig.strip()
    name = sig[1:].split()[0]
    params = _sexps(sig[1:-1])[0]
    ret = sig[sig.index(params) + len(params):-1].strip()
    return name, params[1:-1], ret


def induction_obligations(lemma, spec_files, marker, prop, extra_vars=(), fixed_vars=(), extra_defs=''):
    """Induction over the recursion of one define-funs-rec block.  `prop(name, call, params)` builds the
    property of one function for a call expression (or None if the lemma says nothing about it)."""
    texts = [open(os.path.join(os.path.dirname(SPEC), f)).read() for f in spec_files]
    text = texts[-1]
    i, j = _block(text, marker)
    block = text[i:j]
    if block.startswith('(define-fun-rec'):
        parts = _sexps(block[len('(define-fun-rec'):-1].strip())
        name = block[len('(define-fun-rec'):].split()[0]
        rest = block[block.index(name) + len(name):-1].strip()
        ps = _sexps(rest)[0]
        after = rest[len(ps):].strip()
        ret = after.split()[0] if not after.startswith('(') else _sexps(after)[0]
        body = after[len(ret):].strip()
        sigs = [(name, ps[1:-1], ret)]
        bodies = [body]
    else:
        inner = block[len('(define-funs-rec'):-1].strip()
        sigs_s, bodies_s = _sexps(inner)
        sigs = [_sig(x) for x in _sexps(sigs_s[1:-1])]
        bodies = _sexps(bodies_s[1:-1])
    assert len(sigs) == len(bodies)
    funs = [n for n, _, _ in sigs]
    pre = '(set-logic ALL)\n' + '\n'.join(texts[:-1]) + '\n' + text[:i] + '\n' + extra_defs + '\n'
    decl = ['(declare-const %s %s)' % v for v in fixed_vars]
    evars = ' '.join('(%s %s)' % v for v in extra_vars)
    for name, params, ret in sigs:
        ps = [p[1:-1].split(None, 1) for p in _sexps(params)]
        decl.append('(declare-fun %s_ (%s) %s)' % (name, ' '.join(srt for _, srt in ps), ret))
        qv = ' '.join('(%sq %s)' % (pn, srt) for pn, srt in ps)
        call = '(%s_ %s)' % (name, ' '.join(pn + 'q' for pn, _ in ps))
        p = prop(name, call, {pn: pn + 'q' for pn, _ in ps})
        if p:
            decl.append('(assert (forall (%s %s) (! %s :pattern (%s))))' % (qv, evars, p, call))
    obls = []
    for (name, params, ret), body in zip(sigs, bodies):
        b = body
        for f in funs:
            b = re.sub(r'\(%s ' % f, '(%s_ ' % f, b)
        ps = [p[1:-1].split(None, 1) for p in _sexps(params)]
        consts = ['(declare-const %s %s)' % (pn, srt) for pn, srt in ps] + ['(declare-const %s %s)' % v for v in extra_vars]
        p = prop(name, b, {pn: pn for pn, _ in ps})
        if not p:
            continue
        obls.append(('spec.%s.%s' % (lemma, name), '\n'.join([pre] + decl + consts + ['(assert (not %s))' % p, '(check-sat)'])))
    return obls


def frame_obligations():
    def prop(name, call, P):
        s = P['s']
        return ('(=> (and ((_ is SOk) %s) ((_ is Bound) (select %s vv))) (= (select (st %s) vv) (select %s vv)))'
                % (call, s, call, s))
    return induction_obligations('L-SU-FRAME', ['terms.smt2'], '(define-funs-rec (\n  (su ', prop, extra_vars=[('vv', 'Int')])


def rn_mono_obligations():
    """L-RN-MONO: fresh copies allocate variable ids upwards"""
    def prop(name, call, P):
        return '(>= (%s %s) %s)' % ('rtn' if name == 'rnt' else 'rln', call, P['n'])
    return induction_obligations('L-RN-MONO', ['terms.smt2', 'heap.smt2'], '(define-funs-rec (\n  (rnt ', prop)


def rn_len_obligations():
    """L-RN-LEN: a fresh copy of a list has the length of the original"""
    def prop(name, call, P):
        if name != 'rnl':
            return None
        return '(= (len (rl %s)) (len %s))' % (call, P['l'])
    return induction_obligations('L-RN-LEN', ['terms.smt2', 'heap.smt2'], '(define-funs-rec (\n  (rnt ', prop)


def len_nonneg_obligation():
    pre = '(set-logic ALL)\n' + open(SPEC).read().split('; L-LEN-NONNEG')[0]
    i = pre.index('(define-fun-rec len')
    pre = pre[:i]
    q = ('(declare-fun len_ (TList) Int)\n(assert (forall ((l TList)) (! (>= (len_ l) 0) :pattern ((len_ l)))))\n'
         '(declare-const l TList)\n(assert (not (>= (ite ((_ is nil) l) 0 (+ 1 (len_ (tl l)))) 0)))\n(check-sat)')
    return [('spec.L-LEN-NONNEG.len', pre + q)]


def rn_fresh_obligations():
    """L-RN-FRESH: with a mapping whose targets are all >= b and a counter n >= b, the copy contains only
    variables >= b and the extended mapping keeps the property (instance b = n, empty mapping: C13)"""
    def prop(name, call, P):
        if name == 'rnt':
            return ('(=> (and (mapok %s bb) (<= bb %s)) (and (varsge (rt %s) bb) (mapok (rtm %s) bb) (>= (rtn %s) %s)))'
                    % (P['m'], P['n'], call, call, call, P['n']))
        return ('(=> (and (mapok %s bb) (<= bb %s)) (and (varsgel (rl %s) bb) (mapok (rlm %s) bb) (>= (rln %s) %s)))'
                % (P['m'], P['n'], call, call, call, P['n']))
    return induction_obligations('L-RN-FRESH', ['terms.smt2', 'heap.smt2'], '(define-funs-rec (\n  (rnt ', prop,
                                 fixed_vars=[('bb', 'Int')])


def cnt_obligations():
    """L-CNT: cnt >= 0 and a position j < k that holds the plain variable n is counted (cnt >= 1)"""
    def prop(name, call, P):
        return ('(and (>= %s 0) (=> (and (<= 0 jj) (< jj %s) (= (tanth %s jj) (TAVar %s))) (>= %s 1)))'
                % (call, P['k'], P['a'], P['n'], call))
    return induction_obligations('L-CNT', ['control.smt2'], '(define-fun-rec cnt ', prop, fixed_vars=[('jj', 'Int')])


def literal_obligations():
    """L-LITERAL (C16): the constructor calls emitted for a source term build the term the literal denotes:
    denote(cexpr(t), env) = tsem(t, env), by induction over cexpr/cexprl"""
    def prop(name, call, P):
        if name == 'cexpr':
            return '(= (denote %s envv) (tsem %s envv))' % (call, P['t'])
        return '(= (denotel %s envv) (tseml %s envv))' % (call, P['l'])
    obl = induction_obligations('L-LITERAL', ['terms.smt2', 'literals.smt2', 'control.smt2'], '(define-funs-rec ((cexpr ', prop,
                                fixed_vars=[('envv', '(Array String Term)')])
    # the definitions of literals.smt2 refer to TA/CE, which control.smt2 declares before cexpr: reorder the prelude text
    out = []
    for n, t in obl:
        lit = open(os.path.join(os.path.dirname(SPEC), 'literals.smt2')).read()
        t = t.replace(lit, '')
        i = t.index('(declare-fun cexpr_')
        out.append((n, t[:i] + lit + '\n' + t[i:]))
    return out


def hpnames_obligations():
    """L-HPNAMES by induction over the index k of hpnames"""
    def prop(name, call, P):
        return ('(=> (forall ((j Int)) (! (=> (and (<= 0 j) (< j %s)) (and (= (select %s j) (unified aa j)) '
                '(=> (not (unified aa j)) (= (select %s j) (tavname (tanth aa j)))))) :pattern ((select %s j)))) (= %s (aliasnames aa %s)))'
                % (P['k'], P['hpn'], P['hp'], P['hpn'], call, P['k']))
    return induction_obligations('L-HPNAMES', ['control.smt2'], '(define-fun-rec hpnames ', prop, fixed_vars=[('aa', 'TAL')])


def ndepth_obligations():
    def prop(name, call, P):
        return '(>= %s 0)' % call
    return induction_obligations('L-NDEPTH-NONNEG', ['control.smt2'], '(define-funs-rec ((ndk ', prop)


def parse_obligations():
    """lemmas of spec/parse.smt2: the counters are non-negative (induction)"""
    def nonneg(name, call, P):
        return '(>= %s 0)' % call
    obls = induction_obligations('L-TCNT-NONNEG', ['control.smt2', 'parse.smt2'], '(define-funs-rec ((tcnt ', nonneg)
    obls += induction_obligations('L-PECNT-NONNEG', ['control.smt2', 'parse.smt2'], '(define-fun-rec pecnt ', nonneg)
    # the program dictionary (visitProgram): every clause's key is a key; keys are never duplicated
    def cover(name, call, P):
        return ('(forall ((j Int)) (=> (and (<= 0 j) (< j %s) ((_ is CDClause) (seq.nth %s j))) '
                '(seq.contains %s (seq.unit (cakey (pgca %s j %s))))))' % (P['k'], P['p'], call, P['p'], P['n']))
    obls += induction_obligations('L-PG-KEYS-COVER', ['control.smt2', 'parse.smt2'], '(define-fun-rec pgkeys ', cover)
    obls += induction_obligations('L-PG-KEYS-NODUP', ['control.smt2', 'parse.smt2'], '(define-fun-rec pgkeys ',
                                  lambda name, call, P: '(nodup %s)' % call,
                                  extra_defs='(declare-fun nodup ((Seq PK)) Bool)\n(assert (nodup (as seq.empty (Seq PK))))\n'
                                             '(assert (forall ((s (Seq PK)) (x PK)) (=> (and (nodup s) (not (seq.contains s (seq.unit x)))) '
                                             '(nodup (seq.++ s (seq.unit x))))))')

    return obls


def prove_parse_lemmas(timeout=20):
    return smt.run_many(parse_obligations(), timeout=timeout)


def argnames_obligations():
    def prop(name, call, P):
        return '(= (seq.len %s) (ite (<= %s 0) 0 %s))' % (call, P['n'], P['n'])
    return induction_obligations('L-ARGNAMES-LEN', ['control.smt2'], '(define-fun-rec argnames ', prop)


def prove_clause_lemmas(timeout=20):
    return smt.run_many(cnt_obligations() + literal_obligations() + hpnames_obligations() + ndepth_obligations() + argnames_obligations(),
                        timeout=timeout)


def _block_text(spec_file, marker):
    text = open(os.path.join(os.path.dirname(SPEC), spec_file)).read()
    i, j = _block(text, marker)
    return text[i:j]


def resolve_obligations():
    """L-RES: (1) resolve returns a resolved term, resolvel keeps the length and works pointwise (induction over resolve/resolvel);
    (2) a resolved term is a fixed point of resolve (induction over isres/isresl, with the real definition of resolve)"""
    def prop1(name, call, P):
        if name == 'resolve':
            return '(isres %s %s)' % (call, P['s'])
        return ('(and (isresl %s %s) (= (len %s) (len %s)) (forall ((i Int)) (! (=> (and (<= 0 i) (< i (len %s))) '
                '(= (nth %s i) (resolve_ (nth %s i) %s))) :pattern ((nth %s i)))))'
                % (call, P['s'], call, P['l'], P['l'], call, P['l'], P['s'], call))
    o1 = induction_obligations('L-RES-RES', ['terms.smt2'], '(define-funs-rec (\n  (resolve ', prop1)

    def prop2(name, call, P):
        if name == 'isres':
            return '(=> %s (= (resolve %s %s) %s))' % (call, P['t'], P['s'], P['t'])
        return '(=> %s (= (resolvel %s %s) %s))' % (call, P['l'], P['s'], P['l'])
    o2 = induction_obligations('L-RES-FIX', ['terms.smt2'], '(define-funs-rec ((isres ', prop2,
                               extra_defs=_block_text('terms.smt2', '(define-funs-rec (\n  (resolve '))
    return o1 + o2


def wfl_obligations():
    """L-WFL-NTH: every element of a well-formed argument list is well formed (induction over nth)"""
    pre = '(set-logic ALL)\n' + open(SPEC).read() + '\n' + open(os.path.join(os.path.dirname(SPEC), 'pyval.smt2')).read().split('; L-WFL-NTH')[0]
    q = ('(declare-fun P (TList Int) Bool)\n'
         '(assert (forall ((l TList) (i Int)) (! (= (P l i) (=> (and (wfll l) (<= 0 i) (< i (len l))) (wfl (nth l i)))) :pattern ((P l i)))))\n'
         '(declare-const l TList) (declare-const i Int)\n'
         '(assert (=> (not ((_ is nil) l)) (P (tl l) (- i 1))))\n'      # induction hypothesis for the tail
         '(assert (not (P l i)))\n(check-sat)')
    return [('spec.L-WFL-NTH.nth', pre + q)]


def prove_pyval_lemmas(timeout=20):
    return smt.run_many(wfl_obligations(), timeout=timeout)


def prove_frame(timeout=20):
    return smt.run_many(frame_obligations() + len_nonneg_obligation() + resolve_obligations(), timeout=timeout)


def prove_heap_lemmas(timeout=20):
    return smt.run_many(rn_mono_obligations() + rn_len_obligations() + rn_fresh_obligations(), timeout=timeout)


if __name__ == '__main__':
    for r in prove_frame() + prove_heap_lemmas() + prove_clause_lemmas() + prove_pyval_lemmas():
        print(r['name'], r['verdict'], r['solver'], r['seconds'])


def specsync(n=40, seed=0, timeout=20):
    """Agreement of the SMT prelude with the executable mirror on ground inputs (DESIGN 3)."""
    import random
    import sys
    sys.path.insert(0, os.path.dirname(SPEC))
    import mirror
    rng = random.Random(seed)
    terms = mirror.enum_terms(3)
    small = mirror.enum_terms(2)
    text = '(set-logic ALL)\n' + open(SPEC).read()
    obls = []
    k = 0
    while len(obls) < n and k < 10 * n:
        k += 1
        t1, t2 = rng.choice(terms), rng.choice(terms)
        s = {}
        for v in rng.sample(range(3), rng.randrange(0, 3)):
            t = rng.choice(small)
            s2 = dict(s)
            s2[v] = t
            if t != ('var', v) and mirror.acyclic(s2):
                s = s2
        try:
            r = mirror.su(t1, t2, s)
        except mirror.Cyclic:
            continue
        if r is not None and not mirror.acyclic(r):
            continue
        exp = 'SFail' if r is None else '(SOk %s)' % mirror.store_to_smt(r)
        q = '(assert (not (and (= (su %s %s %s) %s) (= (resolve %s %s) %s))))\n(check-sat)' % (
            mirror.to_smt(t1), mirror.to_smt(t2), mirror.store_to_smt(s), exp,
            mirror.to_smt(t1), mirror.store_to_smt(s), mirror.to_smt(mirror.resolve(t1, s)))
        obls.append(('spec.sync.%d' % len(obls), text + '\n' + q))
    return smt.run_many(obls, timeout=timeout)


# ---------------------------------------------------------------------------------------------
# Control-algebra lemma layer: every axiom of spec/control.smt2 tagged `; LEAN <name>` must be a
# theorem of lean/CtlM1.lean and lean/CtlM2.lean, and both files must check (no sorry/axiom).
def lean_lemmas(timeout=120):
    import subprocess
    import time
    root = os.path.dirname(os.path.dirname(os.path.abspath(__file__)))
    names = re.findall(r'; LEAN (\w+)', open(os.path.join(root, 'spec', 'control.smt2')).read())
    out = []
    files = {}
    for model, fn, ns in (('M1', 'CtlM1.lean', ''), ('M2', 'CtlM2.lean', 'M2.')):
        path = os.path.join(root, 'lean', fn)
        src = open(path).read()
        t0 = time.time()
        try:
            p = subprocess.run(['lean', path], capture_output=True, text=True, timeout=timeout)
            log, rc = p.stdout + p.stderr, p.returncode
        except (subprocess.TimeoutExpired, FileNotFoundError) as e:
            log, rc = str(e), 99
        dt = time.time() - t0
        bad_words = re.search(r'\bsorry\b|^axiom |native_decide', src, re.M)
        files[model] = (rc, log, dt)
        for n in names:
            ok = rc == 0 and not bad_words and re.search(r'^theorem %s\b' % n, src, re.M) is not None
            m = re.search(r"'%s%s' (depends on axioms: \[([^\]]*)\]|does not depend on any axioms)" % (re.escape(ns), n), log)
            if m is None:
                ok = False
                detail = 'no #print axioms line for %s%s' % (ns, n)
            else:
                ax = m.group(2) or ''
                detail = 'axioms: [%s]' % ax
                if 'sorryAx' in ax:
                    ok = False
            out.append(dict(name='lemma.%s.%s' % (model, n), verdict='unsat' if ok else 'unknown', solver='lean',
                            seconds=round(dt / max(1, len(names)), 3), tried=[('lean', detail, round(dt, 2))],
                            output=detail if ok else (detail + '\n' + log[-1500:])))
    return out
