"""./check <id> [--tier quick|thorough] [--replay file] [--rebaseline]

exit 0: every obligation discharged on the current /repo tree, stand-ins passed, only KNOWN-FINDINGs seen
exit 1: VIOLATION line(s) printed      exit 2: undecided (never a violation)      exit 3: checker crashed
"""
import argparse
import importlib
import json
import os
import subprocess
import sys
import traceback

from . import framework as fw
from .pyvc import core


def run_property(pid, tier, seed):
    mod = importlib.import_module('vf.props.' + pid)
    rep = fw.Report(pid, tier, seed)
    mod.run(rep)
    return mod, rep


def replay(pid, path):
    rp = json.load(open(path))
    if rp.get('kind') == 'input':
        e = dict(os.environ)
        e['YLD_REPO_SRC'] = core.REPO_SRC
        e['PYTHONPATH'] = core.REPO_SRC + os.pathsep + os.path.join(fw.VERIF, 'standin')
        p = subprocess.run([fw.VENV_PY, os.path.join(fw.VERIF, 'standin', rp['script']), 'replay', path], env=e,
                           capture_output=True, text=True)
        print(p.stdout.strip())
        if p.returncode == 1:
            print('VIOLATION property=%s replay=%s' % (pid, path))
            return 1
        return 0 if p.returncode == 0 else 3
    # obligation replay: re-run the stored VC
    from . import smt
    r = smt.run_one(rp['obligation'], rp['smt'], timeout=30) if rp.get('smt') else None
    if r is None:
        mod, rep = run_property(pid, 'quick', 0)
        return fw.finalise(rep, mod.LEVEL, './check %s' % pid)
    print(rp['obligation'], r['verdict'], r['tried'])
    if r['verdict'] != 'unsat':
        print('VIOLATION property=%s replay=%s no-failing-input-found' % (pid, path))
        return 1
    return 0


def main(argv=None):
    ap = argparse.ArgumentParser()
    ap.add_argument('pid')
    ap.add_argument('--tier', default=os.environ.get('VERIF_TIER', 'quick'))
    ap.add_argument('--replay')
    ap.add_argument('--rebaseline', action='store_true')
    a = ap.parse_args(argv)
    seed = int(os.environ.get('VERIF_SEED', '0') or 0)
    try:
        if a.replay:
            return replay(a.pid, a.replay)
        mod, rep = run_property(a.pid, a.tier, seed)
        if a.rebaseline:
            fw.write_baseline([rep])
        return fw.finalise(rep, mod.LEVEL, './check %s --tier %s' % (a.pid, a.tier))
    except Exception:
        traceback.print_exc()
        print('CHECKER-CRASH property=%s' % a.pid)
        return 3


if __name__ == '__main__':
    sys.exit(main())
