"""pyvc core: source loading, symbolic values, states, obligations.

The verified text is the code that runs: every run re-reads /repo/src/yldprolog/*.py with `ast`
and generates the verification conditions from those trees.  Nothing of /repo is copied or
re-typed here.
"""
import ast
import copy
import hashlib
import os

REPO_SRC = os.environ.get('YLD_REPO_SRC', '/repo/src')
PKG = 'yldprolog'


class OutOfSubset(Exception):
    """The function uses a construct the executor does not model -> undecided, never a violation."""

    def __init__(self, msg, node=None):
        self.node = node
        line = getattr(node, 'lineno', None)
        super().__init__('%s%s' % (msg, ' (line %s)' % line if line else ''))


class Module:
    def __init__(self, name, path=None, text=None):
        self.name = name
        self.path = path or os.path.join(REPO_SRC, PKG, name + '.py')
        if text is None:
            with open(self.path, encoding='utf8') as f:
                text = f.read()
        self.text = text
        self.tree = ast.parse(text, filename=self.path)
        self.functions = {}   # qualname -> FunctionDef
        self.classes = {}     # name -> ClassDef
        self._index(self.tree.body, '')

    def _index(self, body, prefix):
        for n in body:
            if isinstance(n, (ast.FunctionDef, ast.AsyncFunctionDef)):
                self.functions[prefix + n.name] = n
            elif isinstance(n, ast.ClassDef):
                self.classes[prefix + n.name] = n
                self._index(n.body, prefix + n.name + '.')

    def bases(self, cname):
        c = self.classes.get(cname)
        out = []
        if c is None:
            return out
        for b in c.bases:
            if isinstance(b, ast.Name):
                out.append(b.id)
                out.extend(self.bases(b.id))
        return out


    def defines(self, cname, names):
        """does class cname (or a base class defined in this module) define one of the special methods `names`
        (as a def or as a class attribute)?"""
        for c in [cname] + self.bases(cname):
            cls = self.classes.get(c)
            if cls is None:
                continue
            for n in cls.body:
                if isinstance(n, (ast.FunctionDef, ast.AsyncFunctionDef)) and n.name in names:
                    return True
                if isinstance(n, ast.Assign) and any(isinstance(t, ast.Name) and t.id in names for t in n.targets):
                    return True
        return False


_modules = {}


def module(name):
    if name not in _modules:
        _modules[name] = Module(name)
    return _modules[name]


def reset_modules():
    _modules.clear()


def fn_hash(fn):
    """Hash of the function's AST with docstrings and positions removed (for the baseline file)."""
    f = copy.deepcopy(fn)
    for n in ast.walk(f):
        if isinstance(n, (ast.FunctionDef, ast.ClassDef)) and n.body and isinstance(n.body[0], ast.Expr) \
                and isinstance(getattr(n.body[0], 'value', None), ast.Constant) and isinstance(n.body[0].value.value, str):
            n.body = n.body[1:] or [ast.Pass()]
    return hashlib.sha1(ast.dump(f, include_attributes=False).encode()).hexdigest()[:16]


def binding_names(fn):
    """the names bound by the function, in source order of the binding sites (assignment targets, loop targets, with/except
    names) - the n-th binding site is what a contract's local name refers to, so a consistent renaming keeps its contracts"""
    out = []

    def targets(t):
        if isinstance(t, ast.Name):
            out.append(t.id)
        elif isinstance(t, (ast.Tuple, ast.List)):
            for e in t.elts:
                targets(e)

    def visit(stmts):
        for s in stmts:
            if isinstance(s, ast.Assign):
                for t in s.targets:
                    targets(t)
            elif isinstance(s, (ast.AugAssign, ast.AnnAssign)):
                targets(s.target)
            elif isinstance(s, ast.For):
                targets(s.target)
            for fld in ('body', 'orelse', 'finalbody'):
                if hasattr(s, fld) and isinstance(getattr(s, fld), list):
                    visit(getattr(s, fld))
            if isinstance(s, ast.Try):
                for h in s.handlers:
                    if h.name:
                        out.append(h.name)
                    visit(h.body)
    visit(fn.body)
    return out


def class_context(mod):
    """What a function's verification conditions depend on outside its own body: which classes exist, their bases, decorators,
    and which special (double-underscore) methods and class attributes they define (these decide what ==, in, truth value,
    iteration ... mean).  Part of the per-function hash: a function counts as unchanged only if this is unchanged too."""
    out = []
    for cname in sorted(mod.classes):
        cls = mod.classes[cname]
        names = []
        for n in cls.body:
            if isinstance(n, (ast.FunctionDef, ast.AsyncFunctionDef)) and n.name.startswith('__'):
                # special methods (constructors included) are part of what `Cls(...)`, ==, in ... mean at every use: their text counts
                names.append(n.name + ':' + fn_hash(n))
            elif isinstance(n, ast.Assign):
                names += [t.id for t in n.targets if isinstance(t, ast.Name)]
        out.append((cname, [ast.unparse(b) for b in cls.bases], [ast.unparse(d) for d in cls.decorator_list],
                    [ast.unparse(k) for k in cls.keywords], sorted(names)))
    return hashlib.sha1(repr(out).encode()).hexdigest()[:8]


def is_generator(fn):
    for n in walk_own(fn):
        if isinstance(n, (ast.Yield, ast.YieldFrom)):
            return True
    return False


def walk_own(fn):
    """ast.walk that does not descend into nested function/class definitions/lambdas."""
    todo = list(fn.body)
    while todo:
        n = todo.pop()
        yield n
        for c in ast.iter_child_nodes(n):
            if isinstance(c, (ast.FunctionDef, ast.AsyncFunctionDef, ast.ClassDef, ast.Lambda)):
                continue
            todo.append(c)


def strip_doc(body):
    if body and isinstance(body[0], ast.Expr) and isinstance(body[0].value, ast.Constant) \
            and isinstance(body[0].value.value, str):
        return body[1:]
    return body


# ---------------------------------------------------------------------------------------------
class SV:
    """symbolic value: sort tag + SMT-LIB expression (+ metadata for composite Python values)"""
    __slots__ = ('sort', 'e', 'meta')

    def __init__(self, sort, e, meta=None):
        self.sort = sort
        self.e = e
        self.meta = meta or {}

    def __repr__(self):
        return 'SV(%s,%s)' % (self.sort, self.e)


NONE = SV('None', 'none')
TRUE = SV('Bool', 'true')
FALSE = SV('Bool', 'false')


def smt_str(s):
    out = []
    for ch in s:
        o = ord(ch)
        if ch == '"':
            out.append('""')
        elif 32 <= o < 127 and ch != '\\':
            out.append(ch)
        else:
            out.append('\\u{%x}' % o)
    return '"' + ''.join(out) + '"'


def smt_int(n):
    return str(n) if n >= 0 else '(- %d)' % (-n)


def AND(*xs):
    xs = [x for x in xs if x != 'true']
    if not xs:
        return 'true'
    if len(xs) == 1:
        return xs[0]
    return '(and %s)' % ' '.join(xs)


def OR(*xs):
    xs = [x for x in xs if x != 'false']
    if not xs:
        return 'false'
    if len(xs) == 1:
        return xs[0]
    return '(or %s)' % ' '.join(xs)


def NOT(x):
    if x == 'true':
        return 'false'
    if x == 'false':
        return 'true'
    return '(not %s)' % x


def IMP(a, b):
    return '(=> %s %s)' % (a, b)


def EQ(a, b):
    return '(= %s %s)' % (a, b)


def ITE(c, a, b):
    return '(ite %s %s %s)' % (c, a, b)


class State:
    """Symbolic state of one path. `comp` holds the named state components (store, shadow, ist,
    nexth, heap fields ...), all SMT expressions."""

    def __init__(self):
        self.env = {}
        self.pc = []
        self.comp = {}
        self.entry = {}      # component values at function entry
        self.trace = []
        self.yields = 0
        self.flags = {}      # per-path analysis flags (e.g. shadow cells written)
        self.ghost = {}

    def fork(self):
        s = State.__new__(State)
        s.env = dict(self.env)
        s.pc = list(self.pc)
        s.comp = dict(self.comp)
        s.entry = self.entry
        s.trace = list(self.trace)
        s.yields = self.yields
        s.flags = {k: (set(v) if isinstance(v, set) else v) for k, v in self.flags.items()}
        s.ghost = dict(self.ghost)
        return s

    def assume(self, e):
        if e != 'true':
            self.pc.append(e)
        return self

    def tag(self, t):
        self.trace.append(t)
        return self


class Obligation:
    def __init__(self, name, pc, goal, kind='post', note=''):
        self.name = name
        self.pc = list(pc)
        self.goal = goal
        self.kind = kind
        self.note = note

    def smt(self, prelude, decls):
        parts = [prelude]
        parts.extend(decls)
        for a in self.pc:
            parts.append('(assert %s)' % a)
        parts.append('(assert (not %s))' % self.goal)
        parts.append('(check-sat)')
        return '\n'.join(parts)
